"""C01 - parallel loops run every index exactly once and join before returning."""
import json, os, random, subprocess, time
from .. import tla, build, trace, funcheck
from ..tla import VERIF, WORK, InfraError

LEVEL = "model_checking"
LEVEL_TEXT = ("The contract ParallelFor (exactly-once per index, nothing for n <= 0, blocks partition [0,n) with size <= B, all invocations ended and "
              "all effects visible at return, nested calls inside their parent invocation) is model-checked on a bounded instance (operational rules "
              "imply the declarative statement).  Every scenario of the TLC-generated scenario space (8 index types x boundary task counts x 3 APIs x "
              "block sizes x nesting x body cost x pre-filled task queue) is executed on the real code of all four tasking backends with several "
              "thread counts, on the Internal backend also under seeded schedule perturbation through guarded hook points of the scheduler and in an "
              "oversubscribed stress plan (16 tasking threads on 4 CPUs, thousands of rounds; the first rounds and every round whose read-back is not "
              "'each cell once' are recorded); every recorded execution (call / per-index begin / end / return events stamped by one atomic counter, "
              "cells read back by the caller) is validated by TLC against the contract.  Counts at the 2^31 / 2^32 boundaries (2^31-1 .. 2^32+5; both parallel_foreach "
              "overloads, parallel_for with 32- and 64-bit index types, parallel_in_blocks_of) run as macro scenarios: one-byte counters in a guarded array of N "
              "cells, the measured summary (once / never / more than once / outside / min / max / oversize and empty blocks) is judged by TLC against "
              "Summary(N) of ParallelForHuge.tla.  The Internal backend's scheduler and its lock-free pipe have mechanism models "
              "(spec/tasking/EnkiTS.tla, Pipe.tla) checked by TLC under all interleavings for small bounds, the pipe additionally bound to the real "
              "LockLessMultiReadPipe by trace validation.")
LEVEL_NOTE = ("task counts of 2^31 and more are exercised as macro scenarios only (summary of the whole loop: ParallelForHuge.tla, linked to the per-index "
              "contract by ParallelForHugeMC), on TBB in both tiers, on Debug / OpenMP (block loops only: schedule(dynamic) needs minutes per 2^31 "
              "bodies) / Internal (only loops whose underlying parallel_for has fewer than 2^31 tasks: the Internal backend narrows the count to int) "
              "in the thorough tier; schedules of TBB / OpenMP are whatever the runtime "
              "produces (perturbed by skewed body cost, nesting and thread counts), not enumerated; trusted: TLC, the recorder's stamps "
              "(one atomic counter), lossless merging of back-to-back invocations of one thread into runs")
TECHNIQUE = "TLA+ contract + TLC model checking; TLC-generated scenarios run on 4 backends; TLC trace validation of recorded executions; PlusCal mechanism models of the scheduler and pipe"

SPEC = os.path.join(VERIF, "spec", "tasking")


def run_driver(exe, scenarios, threads, tag, timeout=120, perturb=0):
    d = os.path.join(WORK, "run", tag)
    os.makedirs(d, exist_ok=True)
    inp = os.path.join(d, "sc-%d.ndjson" % os.getpid())
    outp = os.path.join(d, "ev-%d.ndjson" % os.getpid())
    results = {}
    pending = list(range(len(scenarios)))
    rounds = 0
    while pending and rounds < len(scenarios) + 10:
        rounds += 1
        if os.path.exists(outp):
            os.remove(outp)
        with open(inp, "w") as f:
            for i in pending:
                s = dict(scenarios[i])
                s["id"] = i
                f.write(json.dumps(s, separators=(",", ":")) + "\n")
        try:
            cmd = [exe, "--in", inp, "--out", outp, "--threads", str(threads)]
            if perturb:
                cmd += ["--perturb", str(perturb)]
            p = subprocess.run(cmd, stdout=subprocess.PIPE, stderr=subprocess.STDOUT, timeout=timeout)
            rc = p.returncode
            err = p.stdout.decode(errors="replace")
        except subprocess.TimeoutExpired as ex:
            rc = "timeout"
            err = ""
        got = []
        if os.path.exists(outp):
            for line in open(outp):
                line = line.strip()
                if line:
                    try:
                        j = json.loads(line)
                    except ValueError:
                        continue
                    results[j["id"]] = j
                    got.append(j["id"])
        rest = [i for i in pending if i not in results]
        if not rest:
            break
        if rc == "timeout":
            # the first scenario without a result did not come back: a hang is an observation (no Return event)
            results[rest[0]] = {"id": rest[0], "events": [{"ev": "Abort", "why": "no return within %ds (hang)" % timeout}]}
            rest = rest[1:]
        elif rc != 0 and not got:
            # crashed in the first pending scenario
            results[rest[0]] = {"id": rest[0], "events": [{"ev": "Abort", "why": "driver died rc=%s: %s" % (rc, err[-300:])}]}
            rest = rest[1:]
        pending = rest
        bad = sum(1 for r in results.values() if r["events"] and r["events"][-1].get("ev") == "Abort" and ("hang" in r["events"][-1].get("why", "") or "driver died" in r["events"][-1].get("why", "")))
        if bad >= 3 and pending:
            # enough evidence that loops hang / crash on this tree; the remaining scenarios are not run (neither accepted nor rejected)
            for i in pending:
                results[i] = {"id": i, "skipped": True, "events": []}
            break
    for pth in (inp, outp):
        try:
            os.remove(pth)
        except OSError:
            pass
    return results


def n_class(sc):
    n = sc["n"]
    return "n<0" if n < 0 else ("n=0" if n == 0 else "n>0")


def sig_for(backend, sc, events, k):
    ev = events[k]
    api = {"for": "parallel_for", "foreach": "parallel_foreach", "foreach_it": "parallel_foreach", "blocks": "parallel_in_blocks_of"}[sc["api"]]
    cls = n_class(sc)
    if sc.get("prefill"):
        cls += ",queue-prefilled"
    if sc["nest"]["api"] != "none":
        cls += ",nested"
    if sc.get("pre", "none") != "none":
        cls += ",after-a-%s-loop" % {"throw": "failed", "cancel": "cancelled"}[sc["pre"]]
    what = ev.get("ev")
    if what == "Abort":
        w = ev.get("why", "")
        field = ("exec-for-nonpositive-count" if "count <= 0" in w else "index-outside-range" if "outside" in w or "empty" in w
                 else "hang" if "hang" in w else "crash")
    elif what == "ExecBegin":
        field = "exec-not-allowed(duplicate-or-out-of-range)"
    elif what == "Return":
        field = "return-before-complete-or-effects-not-visible"
    else:
        field = what + "-rejected"
    return "%s/%s(%s)/%s" % (backend, api, cls, field)


def run(chk, replay=None):
    quick = chk.tier == "quick"
    chk.assumptions += [
        "calls are issued from the thread that initialised the tasking system (or from inside a loop body); loops started concurrently from several external threads are not part of the stated quantifier",
        "TLC integers are 32-bit: per-index recorded executions stay below 2^31 tasks; counts around 2^31 / 2^32 are judged through the loop's summary (limbs of 16 bits)",
    ]
    if replay:
        return do_replay(chk, replay)
    # 1. the contract itself
    r = tla.run_tlc(os.path.join(SPEC, "ParallelForMC.tla"), os.path.join(SPEC, "ParallelForMC.cfg"), workers=8, timeout=900, deadlock=True)
    chk.require_model_ok("ParallelForMC", r, "contract: disjoint runs + length sum imply every index in exactly one run at return")

    # mechanism models of the Internal backend (design level)
    from . import c01_mech
    c01_mech.run_models(chk, quick)

    # 2. scenarios from the specification's scenario space
    scen = funcheck.gen_cases(chk, SPEC, "ParallelForGen", "ParallelForGen.cfg", "c01-gen", what="scenario space")
    scen.sort(key=lambda s: json.dumps(s, sort_keys=True))
    rnd = random.Random(chk.seed)
    if quick:
        # all boundary scenarios of narrow types / blocks / nesting; thin out the big ones
        scen = [s for s in scen if not (s["n"] >= 1000 and s["cost"] == "skew" and rnd.random() < 0.6)]
    # (backend, threads, perturbation seed): perturbation = seeded random delays at the guarded hook points of the
    # Internal backend's scheduler (0 = none)
    plans = [("TBB", 4, 0), ("OpenMP", 4, 0), ("Internal", 4, 0), ("Debug", 4, 0), ("Internal", 2, 0), ("Internal", 3, chk.seed * 7 + 1)]
    if not quick:
        plans += [("Internal", 3, 0), ("Internal", 8, 0), ("Internal", 1, 0), ("TBB", 2, 0), ("TBB", 8, 0), ("OpenMP", 2, 0)]
        plans += [("Internal", t, chk.seed * 100 + k) for k in range(1, 4) for t in (2, 4)]
    if os.environ.get("VERIF_C01_PLANS"):      # development aid: VERIF_C01_PLANS="Internal:4,TBB:2"
        plans = [(x.split(":")[0], int(x.split(":")[1]), int((x.split(":") + ["0"])[2])) for x in os.environ["VERIF_C01_PLANS"].split(",") if ":" in x]
    total_events = 0
    cut_recs = []
    cut_short = {}
    for backend, threads, perturb in plans:
        if cut_short.get(backend, 0) >= 2:
            chk.note("%s T=%d: plan not run (two earlier plans on this back end were cut short by hanging / crashing loops)" % (backend, threads))
            continue
        exe = build.build("drv_par_for", backend=backend)
        mine = [s for s in scen if not (s.get("prefill") and backend == "Debug")]
        # a body that throws ends the process on the OpenMP and Internal back ends (exception leaving a worker thread): the
        # "earlier loop failed" histories run where an exception can leave a loop; cancellation is a TBB notion
        mine = [s for s in mine if s.get("pre", "none") == "none" or (s["pre"] == "throw" and backend in ("TBB", "Debug")) or (s["pre"] == "cancel" and backend == "TBB")]
        t0 = time.time()
        res = run_driver(exe, mine, threads, "c01-%s-%d" % (backend, threads), perturb=perturb)
        execs = []
        for i, s in enumerate(mine):
            if i not in res:
                raise InfraError("no result for scenario %d on %s" % (i, backend))
        nskip = sum(1 for i in range(len(mine)) if res[i].get("skipped"))
        if nskip:
            cut_short[backend] = cut_short.get(backend, 0) + 1
            chk.note("%s T=%d: %d scenarios were not executed after 3 loops hung or crashed the driver" % (backend, threads, nskip))
            mine = [s for i, s in enumerate(mine) if not res[i].get("skipped")]
            res = dict(enumerate(r for _, r in sorted(res.items()) if not r.get("skipped")))
        for i, s in enumerate(mine):
            execs.append(res[i]["events"])
        acc, rej, stats = trace.validate(os.path.join(SPEC, "ParallelForTrace.tla"), os.path.join(SPEC, "ParallelForTrace.cfg"),
                                         execs, "c01-%s-%d" % (backend, threads), reset_key="ev", max_rejections=12, timeout=1200)
        total_events += stats["events"]
        chk.cov["traces_validated_against_impl"] += acc + len(rej)
        chk.cov["evaluations"] += len(mine)
        chk.cov["distinct_nontrivial"] += sum(1 for s in mine if s["n"] > 0)
        chk.log("%s T=%d%s: %d scenarios executed in %.1fs, %d accepted / %d rejected by ParallelForTrace (%d events)"
                % (backend, threads, " perturbed(seed %d)" % perturb if perturb else "", len(mine), time.time() - t0, acc, len(rej), stats["events"]))
        for rj in rej:
            s = mine[rj["exec"]]
            evs = execs[rj["exec"]]
            sig = sig_for(backend, s, evs, rj["line"])
            what = "%s backend, %d threads, scenario %s: event %d %s is not allowed by the contract" % (
                backend, threads, json.dumps(s, sort_keys=True), rj["line"], json.dumps(evs[rj["line"]]))
            chk.violation(sig, what, {"kind": "par_for", "backend": backend, "threads": threads, "scenario": s,
                                      "events_tail": evs[max(0, rj["line"] - 20):rj["line"] + 1], "rejected_at": rj["line"]})
        if backend == "Internal" and threads > 1:
            # mechanism binding (model drift only): the ranges the real scheduler handed to ExecuteRange for a plain top-level
            # parallel_for on an idle scheduler must be unions of partitions of the EnkiTS model's arithmetic (EnkiCuts.tla)
            for s, evs in zip(mine, execs):
                if s["api"] == "for" and s["nest"]["api"] == "none" and not s.get("prefill") and s["n"] > 0:
                    runs = [[e["b"], e["e"]] for e in evs if e.get("ev") == "ExecBegin" and e.get("c") == 1]
                    if runs:
                        cut_recs.append({"T": threads, "n": s["n"], "runs": runs})
        if backend == "TBB" and threads == 4:
            nested = [i for i, s in enumerate(mine) if s["nest"]["api"] != "none" and s["n"] == 2]
            if nested:
                chk.add_sample({"kind": "recorded-execution", "backend": backend, "scenario": mine[nested[0]], "events": execs[nested[0]][:14]})
    chk.cov["events_validated"] = total_events
    judge_cuts(chk, cut_recs)
    # 2b. stress: many rounds of a small loop on an oversubscribed Internal backend (16 tasking threads on 4 CPUs), so that
    # scheduler threads are preempted at arbitrary instructions; only the first rounds and rounds whose read-back is not
    # "every cell exactly once" are recorded (and then validated by TLC); a process that dies is an Abort line
    if not os.environ.get("VERIF_C01_PLANS") or "stress" in os.environ.get("VERIF_C01_PLANS", ""):
        exe = build.build("drv_par_for", backend="Internal")
        base = {"api": "for", "B": 1, "type": "i32", "nest": {"api": "none", "n": 0, "B": 0}, "cost": "none", "prefill": 0, "cpus": 4}
        R = 15000 if quick else 60000
        stress = [dict(base, n=240, rounds=R), dict(base, n=56, rounds=R // 3)]
        if not quick:
            stress += [dict(base, n=1000, rounds=R // 5), dict(base, api="blocks", B=3, n=240, rounds=R // 3)]
        t0 = time.time()
        res = run_driver(exe, stress, 16, "c01-stress", timeout=1500 if not quick else 400)
        execs = [res[i]["events"] for i in range(len(stress))]
        rounds_run = sum(res[i].get("rounds_run", 0) for i in range(len(stress)))
        acc, rej, stats = trace.validate(os.path.join(SPEC, "ParallelForTrace.tla"), os.path.join(SPEC, "ParallelForTrace.cfg"),
                                         execs, "c01-stress", reset_key="ev", max_rejections=4, timeout=600)
        chk.cov["traces_validated_against_impl"] += acc + len(rej)
        chk.cov["evaluations"] += len(stress)
        chk.cov["stress_rounds_run"] = rounds_run
        chk.log("Internal T=16 on 4 CPUs, stress: %d rounds run in %.1fs, recorded rounds: %d accepted / %d rejected"
                % (rounds_run, time.time() - t0, acc, len(rej)))
        for rj in rej:
            sc_ = stress[rj["exec"]]
            evs = execs[rj["exec"]]
            sig = sig_for("Internal", sc_, evs, rj["line"]).replace("(n>0", "(n>0,stress")
            chk.violation(sig, "Internal backend, 16 threads on 4 CPUs, scenario %s: event %d %s is not allowed by the contract"
                          % (json.dumps(sc_, sort_keys=True), rj["line"], json.dumps(evs[rj["line"]])[:400]),
                          {"kind": "par_for", "backend": "Internal", "threads": 16, "scenario": sc_,
                           "events_tail": evs[max(0, rj["line"] - 20):rj["line"] + 1], "rejected_at": rj["line"]})
    # 2c. macro scenarios: counts around 2^31 / 2^32 (ParallelForHuge.tla), summaries judged by TLC
    if not os.environ.get("VERIF_C01_PLANS") or "huge" in os.environ.get("VERIF_C01_PLANS", ""):
        run_huge(chk, quick)
    # 3. the lock-free pipe of the Internal backend, bound to the real template
    c01_mech.run_pipe_conformance(chk, quick)
    chk.cov["rule"] = ("one execution per (scenario, backend, thread count); scenarios are all elements of the set Scenarios of ParallelForGen.tla "
                       "(thinned in the quick tier for n >= 1000); distinct = distinct scenario records per plan; non-trivial = task count > 0")


HUGE_FIELDS = ["once", "never", "multi", "outside", "min", "max", "oversize", "empty"]
HUGE_API = {"for": "parallel_for", "foreach": "parallel_foreach[container]", "foreach_it": "parallel_foreach[iterators]",
            "blocks": "parallel_in_blocks_of", "none": "control(no-loop)"}


def _lim(v):
    """limbs <<hi, lo>> of the specification -> Python integer (for logs / evidence only)"""
    return v[0] * 65536 + v[1]


def huge_execute(chk, backend, threads, mine, tag, timeout):
    """Run macro scenarios (one driver process, largest first so that the array is mapped once), check that every one of
    them was really allocated / run / scanned (InfraError otherwise), let TLC (ParallelForHugeValidate) judge the summaries.
    Returns (records, rejected) with rejected = [(index, [bad fields])]."""
    import re
    exe = build.build("drv_par_for", backend=backend)
    send = [dict(s) for s in mine]
    res = run_driver(exe, send, threads, tag, timeout=timeout)
    recs = []
    for i, s in enumerate(mine):
        r = res.get(i)
        h = (r or {}).get("huge")
        what = "%s %s<%s> N=%d B=%d on %s" % (s["api"], HUGE_API[s["api"]], s["type"], _lim(s["N"]), s["B"], backend)
        ab = next((e for e in (r or {}).get("events", []) if e.get("ev") == "Abort"), None)
        if not h and ab and not (r or {}).get("skipped"):
            # the loop did not return within the time-out (or ended the process): an execution the contract does not allow
            # ("... are visible to the caller when the call returns"), reported like the hangs / crashes of the recorded plans
            kind = "hang" if "hang" in ab.get("why", "") else "crash"
            sig = "%s/%s(%s,%s)/%s" % (backend, HUGE_API[s["api"]].split("[")[0], s["cls"], "B=%d" % s["B"] if s["api"] == "blocks" else s["type"], kind)
            chk.violation(sig, "%s backend, %d threads: %s: %s %s" % (backend, threads, what, ab.get("why", ""), ab.get("report", "")[:300]),
                          {"kind": "par_for_huge", "backend": backend, "threads": threads, "scenario": s, "observed": ab})
            continue
        if not h and (r or {}).get("skipped"):
            continue      # not run: the plan was cut short after repeated hangs (each of them reported above)
        if not h:
            raise InfraError("vacuity guard: macro scenario requested but the driver returned no summary (%s): %s" % (what, json.dumps(r)[:400]))
        if not h.get("allocated") or not h.get("ran"):
            raise InfraError("vacuity guard: macro scenario was not allocated / run by the driver (%s): %s" % (what, json.dumps(h)[:400]))
        if _lim(h["bytes"]) != _lim(s["N"]) + 2 * s["G"] or _lim(h["cells_scanned"]) != _lim(s["N"]):
            raise InfraError("vacuity guard: the driver did not allocate / scan the %d cells of the scenario (%s): %s" % (_lim(s["N"]), what, json.dumps(h)[:400]))
        recs.append({"sc": s, "obs": {f: h[f] for f in HUGE_FIELDS}, "loop_ms": h.get("loop_ms"), "scan_ms": h.get("scan_ms")})
    d = os.path.join(WORK, "run", tag)
    os.makedirs(d, exist_ok=True)
    path = os.path.join(d, "huge-%d.ndjson" % os.getpid())
    with open(path, "w") as f:
        for r in recs:
            f.write(json.dumps({"sc": r["sc"], "obs": r["obs"]}) + "\n")
    r = tla.run_tlc(os.path.join(SPEC, "ParallelForHugeValidate.tla"), os.path.join(SPEC, "ParallelForHugeValidate.cfg"), workers=1, timeout=600,
                    env={"RECS": path}, tag=tag + "-validate")
    os.remove(path)
    m = re.search(r'"HUGE-JUDGED", (\d+), "FOREIGN", (\d+)', r.out)
    if r.error or not r.ok or not m or int(m.group(1)) != len(recs) or int(m.group(2)) != 0:
        raise InfraError("ParallelForHugeValidate did not judge the %d records (or met scenarios outside the specification's space): %s"
                         % (len(recs), (r.error or r.out)[-1500:]))
    rej = []
    for i, bad in re.findall(r'"HUGE-REJECTED", (\d+), (\{[^}]*\})', r.out):
        rej.append((int(i) - 1, [f for f in HUGE_FIELDS if '"%s"' % f in bad]))
    chk.cov["states"] += 1
    return recs, rej


def huge_report(chk, backend, threads, recs, rej):
    for i, bad in rej:
        s, obs = recs[i]["sc"], recs[i]["obs"]
        if s["api"] == "none":
            raise InfraError("the control scenario (no loop called) was not measured as 'nothing visited': %s" % json.dumps(obs))
        sig = "%s/%s(%s,%s)/%s" % (backend, HUGE_API[s["api"]].split("[")[0], s["cls"], "B=%d" % s["B"] if s["api"] == "blocks" else s["type"], bad[0])
        what = ("%s backend, %d threads: %s<%s>%s over N = %d indices: measured summary %s, the contract fixes %s (fields %s differ)"
                % (backend, threads, HUGE_API[s["api"]], s["type"], " BLOCK=%d" % s["B"] if s["api"] == "blocks" else "", _lim(s["N"]),
                   json.dumps({f: (_lim(obs[f]) if obs[f][0] >= 0 else None) for f in HUGE_FIELDS}),
                   json.dumps({f: (_lim(s["exp"][f]) if s["exp"][f][0] >= 0 else None) for f in HUGE_FIELDS}), bad))
        chk.violation(sig, what, {"kind": "par_for_huge", "backend": backend, "threads": threads, "scenario": s, "observed": obs})


def run_huge(chk, quick):
    """Counts around 2^31 / 2^32: macro scenarios of ParallelForHuge.tla."""
    from concurrent.futures import ThreadPoolExecutor
    pool = ThreadPoolExecutor(max_workers=2)       # the two model-checking runs go on while the loops run
    f_mc = pool.submit(tla.run_tlc, os.path.join(SPEC, "ParallelForHugeMC.tla"), os.path.join(SPEC, "ParallelForHugeMC.cfg"), workers=4, timeout=900, deadlock=True,
                       tag="ParallelForHugeMC")
    f_neg = pool.submit(tla.run_tlc, os.path.join(SPEC, "ParallelForHugeMC.tla"), os.path.join(SPEC, "ParallelForHugeMC_neg.cfg"), workers=2, timeout=900, deadlock=True,
                        tag="ParallelForHugeMC_neg")
    scen = funcheck.gen_cases(chk, SPEC, "ParallelForHugeGen", "ParallelForHugeGen.cfg", "c01-huge-gen", what="macro scenarios (counts around 2^31 / 2^32)")
    scen.sort(key=lambda s: (-_lim(s["N"]), json.dumps(s, sort_keys=True)))
    two31 = 1 << 31
    # (backend, threads, plans of the specification taken, time-out): all 16 cores - the loops are memory-bound
    if quick:
        plans = [("TBB", 16, ("quick",), 300)]
    else:
        plans = [("TBB", 16, ("quick", "wide", "tbb"), 600), ("Debug", 1, ("quick", "wide"), 900), ("OpenMP", 16, ("quick", "wide"), 900),
                 ("Internal", 16, ("quick", "wide"), 600)]
    ev = {"scenarios_run": 0, "by_backend": {}, "indices_summarised": 0, "largest_count": 0, "not_run": []}
    for backend, threads, take, timeout in plans:
        mine = [s for s in scen if s["plan"] in take]
        ntasks = lambda s: _lim(s["N"]) if s["api"] != "blocks" else (_lim(s["N"]) + s["B"] - 1) // s["B"]   # size of the underlying parallel_for
        if backend == "Internal" and not os.environ.get("VERIF_C01_HUGE_INTERNAL"):
            # the Internal backend takes the count as int (parallel_for_internal(int nTasks), TaskSys.h): a parallel_for over >= 2^31
            # tasks is outside what this check exercises there (LEVEL_NOTE); set VERIF_C01_HUGE_INTERNAL=1 to run them all the same
            keep = [s for s in mine if ntasks(s) < two31]
            ev["not_run"].append("Internal: %d of %d macro scenarios not run (underlying parallel_for over >= 2^31 tasks; the backend's entry point "
                                 "takes the count as int: LEVEL_NOTE)" % (len(mine) - len(keep), len(mine)))
            mine = keep
        if backend == "OpenMP":
            # schedule(dynamic) hands out single indices: measured 110 s per loop of 2^31 trivial bodies on 16 threads
            keep = [s for s in mine if ntasks(s) < (1 << 24)]
            ev["not_run"].append("OpenMP: %d of %d macro scenarios not run (schedule(dynamic), chunk 1: measured 110 s per 2^31 trivial bodies); "
                                 "run: block loops with BLOCK = 65536 over >= 2^31 indices, small counts" % (len(mine) - len(keep), len(mine)))
            mine = keep
        if not mine:
            continue
        t0 = time.time()
        recs, rej = huge_execute(chk, backend, threads, mine, "c01-huge-%s" % backend, timeout)
        chk.count_actions([[{"a": "huge:%s:%s:%s" % (backend, s["api"], s["cls"])} for s in mine]])
        chk.cov["evaluations"] += len(mine)
        chk.cov["distinct_nontrivial"] += sum(1 for s in mine if _lim(s["N"]) > 0)
        ev["scenarios_run"] += len(mine)
        ev["by_backend"][backend] = {"scenarios": len(mine), "with_N>=2^31-1": sum(1 for s in mine if _lim(s["N"]) >= two31 - 1),
                                     "with_N>=2^32": sum(1 for s in mine if _lim(s["N"]) >= 1 << 32), "rejected": len(rej),
                                     "loop_ms": sum(r_["loop_ms"] or 0 for r_ in recs), "scan_ms": sum(r_["scan_ms"] or 0 for r_ in recs)}
        ev["indices_summarised"] += sum(_lim(s["N"]) for s in mine)
        ev["largest_count"] = max([ev["largest_count"]] + [_lim(s["N"]) for s in mine])
        chk.log("%s T=%d: %d macro scenarios (%d with N >= 2^31-1, largest N = %d) run in %.1fs, %d rejected by ParallelForHugeValidate"
                % (backend, threads, len(mine), ev["by_backend"][backend]["with_N>=2^31-1"], max(_lim(s["N"]) for s in mine), time.time() - t0, len(rej)))
        if backend == "TBB":
            big = [r_ for r_ in recs if r_["sc"]["api"] == "foreach" and r_["sc"]["cls"] == "n>=2^32"]
            if big:
                ev["sample"] = {"backend": backend, "scenario": big[0]["sc"], "observed": big[0]["obs"]}
        huge_report(chk, backend, threads, recs, rej)
    chk.cov["huge_counts"] = ev
    r = f_mc.result()
    chk.require_model_ok("ParallelForHugeMC", r, "macro form of the contract: at Return the summary computed from the per-index contract's invocations is Summary(n)")
    r = f_neg.result()
    pool.shutdown()
    if r.error:
        raise InfraError("TLC error in ParallelForHugeMC_neg: %s" % r.error[:1500])
    if r.ok:
        raise InfraError("non-vacuity: no behaviour of ParallelForHugeMC returns from a call with n = MaxN (MacroAgrees would hold vacuously)")
    chk.add_model("ParallelForHugeMC/ParallelForHugeMC_neg.cfg", r, "non-vacuity of MacroAgrees: a call with n = MaxN does return -> refuted as required (%s)" % r.violated)
    # vacuity guard: both boundaries through both parallel_foreach overloads, a 64-bit parallel_for, blocks, the signed maximum, the control
    chk.require_actions((["huge:TBB:foreach_it:2^31<=n<2^32", "huge:TBB:foreach:n>=2^32", "huge:TBB:for:2^31<=n<2^32", "huge:TBB:for:n>=2^32", "huge:TBB:blocks:n>=2^32"] if quick else
                         ["huge:TBB:%s:%s" % (a, c) for a in ("foreach", "foreach_it", "for", "blocks") for c in ("2^31<=n<2^32", "n>=2^32")])
                        + ["huge:TBB:for:n=2^31-1", "huge:TBB:none:2^31<=n<2^32", "huge:TBB:for:small"]
                        + ([] if quick else ["huge:Debug:foreach_it:n>=2^32", "huge:Debug:for:n>=2^32", "huge:OpenMP:blocks:n>=2^32", "huge:Internal:for:n=2^31-1"]))


def judge_cuts(chk, recs):
    """code -> mechanism model: recorded ExecuteRange ranges against the partition arithmetic of EnkiTS (never a VIOLATION)."""
    import re
    if not recs:
        return
    d = os.path.join(WORK, "run", "c01-cuts")
    os.makedirs(d, exist_ok=True)
    path = os.path.join(d, "cuts-%d.ndjson" % os.getpid())
    with open(path, "w") as f:
        for r in recs:
            f.write(json.dumps(r) + "\n")
    r = tla.run_tlc(os.path.join(SPEC, "EnkiCutsValidate.tla"), os.path.join(SPEC, "EnkiCutsValidate.cfg"), workers=1, timeout=600,
                    env={"RECS": path}, tag="c01-cuts")
    os.remove(path)
    m = re.search(r'"CUTS-JUDGED", (\d+), "RUNS", (\d+)', r.out)
    if r.error or not r.ok or not m or int(m.group(1)) != len(recs):
        raise InfraError("EnkiCutsValidate did not judge the %d records: %s" % (len(recs), (r.error or r.out)[-1500:]))
    rej = re.findall(r'"CUTS-REJECTED", (\d+), (\d+), (\d+), (\{[^}]*\})', r.out)
    chk.cov["scheduler_partitions"] = {"records": len(recs), "ranges_judged": int(m.group(2)), "records_rejected": len(rej)}
    chk.log("Internal scheduler partitions: %d ranges of %d top-level loops judged against EnkiCuts (the EnkiTS model's partition arithmetic), "
            "%d loops rejected" % (int(m.group(2)), len(recs), len(rej)))
    for i, T, n, bad in rej[:5]:
        rec = recs[int(i) - 1]
        chk.note("model-drift: Internal backend, %s threads, parallel_for(%s): ranges %s handed to ExecuteRange do not start / end at cut points of the "
                 "EnkiTS model (EnkiCuts.tla): the mechanism model's partition arithmetic no longer describes the code; the design-level results "
                 "NoOob / AtMostOnce / JoinOk of EnkiTS.tla do not transfer" % (T, n, [rec["runs"][int(k) - 1] for k in re.findall(r"\d+", bad)][:6]))


def do_replay(chk, path):
    rep = json.load(open(path))
    if rep.get("kind") == "pipe":
        from . import c01_mech
        return c01_mech.replay_pipe(chk, rep)
    if rep.get("kind") == "par_for_huge":
        recs, rej = huge_execute(chk, rep["backend"], rep["threads"], [rep["scenario"]], "c01-replay-huge", 1500)
        chk.cov["evaluations"] += 1
        return huge_report(chk, rep["backend"], rep["threads"], recs, rej)
    backend, threads, s = rep["backend"], rep["threads"], rep["scenario"]
    exe = build.build("drv_par_for", backend=backend)
    n = 1 if (s["n"] <= 0 or s.get("prefill") or s.get("rounds")) else 50
    res = run_driver(exe, [s] * n, threads, "c01-replay")
    execs = [res[i]["events"] for i in range(n)]
    acc, rej, stats = trace.validate(os.path.join(SPEC, "ParallelForTrace.tla"), os.path.join(SPEC, "ParallelForTrace.cfg"),
                                     execs, "c01-replay", reset_key="ev", max_rejections=3)
    chk.cov["evaluations"] += n
    chk.cov["traces_validated_against_impl"] += acc + len(rej)
    for rj in rej:
        evs = execs[rj["exec"]]
        chk.violation(sig_for(backend, s, evs, rj["line"]), "replay: event %s rejected" % json.dumps(evs[rj["line"]]),
                      {"kind": "par_for", "backend": backend, "threads": threads, "scenario": s, "rejected_at": rj["line"]})
