"""C19 - Observers see each notification once; time stamps are unique and increasing.

Families of inputs (all expectations computed or validated by TLC):
  small exhaustive   Observers.tla / StampCells.tla state graphs (2 observables x 3 observers, 3 cells): replay + recorded traces,
                     object variants plain / derived+member / multiple inheritance
  far stamps         FarGap.tla / FarStamps.tla: the counter moves by 2^31-1 .. 2^32+1 inside a history (own process)
  wide / bursty      ObserversWide.tla: n observers, n notifications / polls / registration churns between observations,
                     n on the 2^7 .. 2^16 boundaries (macro actions; own processes)
  thread groups      thread-confined observer groups sharing only the counter, each thread validated by ObserversTrace (plain + TSan)
  concurrent bursts  StampsTrace on value-sorted logs (plain + TSan); thorough: bursts crossing 2^31 / 2^32
  relayed histories  ObserversRelay.tla: every step of a (still sequential) observer history is performed by one of 3 long-lived
                     threads (`by`, enumerated by TLC), hand-over in between; start states: threads that drew 0 / 1 / 63 / 64 / 65 / 300
                     stamps before anything was created; replay + recorded traces (ObserversRelayTrace)
  stamp relays       StampsRelayTrace: thread A draws, hands over, thread B draws ... => values increase along the chain
                     (Stamps.tla: HappensBeforeOrdered; negative control: per-thread blocks of values)
Source mutations the check was tried against: selftest/mutations/C19/*.diff (each '# expect: VIOLATION' verified with try_patch.sh).
"""
import json, os, random, time
from .. import tla, build, adt, adtcheck, trace
from ..tla import VERIF, WORK, InfraError
from ..core import sig_of

LEVEL = "model_checking"
LEVEL_TEXT = ("TLC checks on bounded instances (2 observables x 3 observers, every history of create / notify / poll / destroy calls up to "
              "length 5-6) that the observer contract specification agrees with the declarative reading of the statement (a poll is true iff the "
              "observable, still alive, notified after the later of the observer's creation and its previous poll; polls are independent per "
              "observer; orphans stay silent); that a mechanism specification shaped like Observer.h (time-stamp comparison, registration "
              "list, observee pointers) refines that contract, return values included, with no dangling pointer and no destructor touching a dead "
              "object - and refutes the two variants that drop a destructor duty (negative controls, required); that a fetch-and-add counter "
              "gives unique, per-thread increasing stamp values under all interleavings of 3-4 threads and that the load/store variant does not "
              "(negative control, required). Binding: all histories up to a budgeted length, one history per transition of the complete state "
              "graph and seeded random walks are replayed on real Observable/Observer objects (stand-alone and base-class/member use, both "
              "destruction orders) under ASan+UBSan and on real TimeStamp objects, comparing every return value / rank vector with TLC's; recorded "
              "random 250-step executions over larger universes and multi-threaded bursts of 2-8 threads creating, renewing, copying and moving "
              "stamps (also under TSan) are validated by TLC trace specifications on the logged values; far-stamp histories (the real counter "
              "advanced by 2^31+1 values - thorough: 2^31-1, 2^31, 2^31+1, 2^32, 2^32+1 - between an observer's poll and the next notification "
              "and between compared / copied / renewed stamps), scripted in the product of the two contract specifications, are replayed too; "
              "wide / bursty histories (n observers on an observable, n notifications, polls and registration churns between two observations, "
              "non-LIFO mass destruction; n = 1, 2, 127..129, 255..257, 511..513, 1023..1025, 4095..4097, 65535..65537) as macro actions of a "
              "set-level contract whose invariants and per-observer declarative reading TLC checks; thread-confined observer groups on 2-8 "
              "threads sharing only the stamp counter, each thread's recorded history validated against the sequential contract (also under "
              "TSan); thorough: bursts whose values cross 2^31 / 2^32 while 8 threads draw them; relayed histories: TLC enumerates, on the "
              "2 x 3 instance, which of 3 long-lived threads performs each step of a history (the contract's answers do not depend on it: "
              "checked against the thread-free declarative reading over all assignments) and the start state (threads that drew 0, 1, 63, 64, "
              "65, 300 stamps before anything was created, threads drawing unrelated stamps in between); the histories are performed step by "
              "step on worker threads with a hand-over in between and compared with TLC's values, recorded random relayed executions are "
              "validated by TLC; TLC proves for the fetch-and-add model that a draw complete before another begins carries the smaller "
              "value and refutes it for per-thread blocks of values (negative control, required); synchronised cross-thread relays of real "
              "stamp draws (2-4 threads, also under TSan) are validated against that law at the hand-over points only")
LEVEL_NOTE = ("bounded: exhaustive parts use 2 observables x 3 observers, 3 stamp cells, 3-4 threads x 2-3 counter operations; the real "
              "concurrent executions are sampled (free-running threads), not schedule-controlled; observers are checked single-threaded (the "
              "statement's schedules quantifier is about time stamps; their histories are also performed with every step on a different "
              "thread, strictly one step at a time); copying an Observer / Observable object is outside the statement and not "
              "exercised; what a moved-from TimeStamp holds is left open; stamp values beyond 2^61 cannot be logged; trusted: TLC, the drivers' "
              "own books of occupied slots (cross-checked by the trace specifications' guards), value sorting of the burst logs, "
              "g++/libstdc++, ASan/UBSan/TSan")
TECHNIQUE = ("TLA+ contract + mechanism specifications, TLC invariants / action properties / refinement; negative-control models; state-graph "
             "histories replayed on the real objects; TLC trace validation of recorded sequential and multi-threaded executions; sanitizers as "
             "crash / race events")
SPEC = os.path.join(VERIF, "spec", "utility")
API_OBS = "Observer"
API_TS = "TimeStamp"
API_TSC = "TimeStamp/concurrent"

MUT_OBS = {"Notify", "Poll", "PollAll", "DestroyObservable", "DestroyObserver", "Teardown"}
ALL_OBS = ["CreateObservable", "CreateObserver", "Notify", "Poll", "PollAll", "DestroyObservable", "DestroyObserver", "Teardown"]
MUT_TS = {"Renew", "CopyCtor", "MoveCtor", "CopyAssign", "MoveAssign", "Destroy"}
ALL_TS = ["Create", "Renew", "CopyCtor", "MoveCtor", "CopyAssign", "MoveAssign", "Destroy"]
OBS_VARIANTS = ["plain", "derived", "mi"]
TRACE_NS, TRACE_NW, TRACE_NC = 3, 6, 5


# ---------------------------------------------------------------------------
# random inputs for code -> spec (inputs only: the driver performs or refuses, TLC judges)
# ---------------------------------------------------------------------------
def rand_observer_actions(rnd, n, ns=TRACE_NS, nw=TRACE_NW):
    oalive, balive = set(), set()       # the generator's guess of what is alive: keeps most actions enabled; nothing relies on it
    acts = []
    kinds = [("CreateObservable", 10), ("CreateObserver", 18), ("Notify", 22), ("Poll", 28), ("PollAll", 5),
             ("DestroyObservable", 7), ("DestroyObserver", 10), ("Teardown", 1)]
    names, weights = [k for k, _ in kinds], [w for _, w in kinds]
    while len(acts) < n:
        kind = rnd.choices(names, weights)[0]
        wild = rnd.random() < 0.06       # now and then an arbitrary (possibly illegal) call: the driver must refuse it
        o, b = rnd.randint(1, ns), rnd.randint(1, nw)
        ofree = [i for i in range(1, ns + 1) if i not in oalive]
        bfree = [i for i in range(1, nw + 1) if i not in balive]
        if not wild:
            if kind == "CreateObservable":
                if not ofree: continue
                o = rnd.choice(ofree)
            elif kind == "CreateObserver":
                if not bfree or not oalive: continue
                b, o = rnd.choice(bfree), rnd.choice(sorted(oalive))
            elif kind in ("Notify", "DestroyObservable"):
                if not oalive: continue
                o = rnd.choice(sorted(oalive))
            elif kind in ("Poll", "DestroyObserver"):
                if not balive: continue
                b = rnd.choice(sorted(balive))
            elif kind == "PollAll" and not balive:
                continue
            elif kind == "Teardown" and not (balive or oalive):
                continue
        if kind == "Teardown":
            a = {"a": kind, "arg": {"order": rnd.choice(["observers_first", "observables_first"])}}
            oalive.clear(); balive.clear()
        elif kind == "CreateObservable":
            a = {"a": kind, "arg": {"o": o}}
            oalive.add(o)
        elif kind == "CreateObserver":
            a = {"a": kind, "arg": {"b": b, "o": o}}
            if o in oalive: balive.add(b)
        elif kind == "Notify":
            a = {"a": kind, "arg": {"o": o}}
        elif kind == "Poll":
            a = {"a": kind, "arg": {"b": b}}
        elif kind == "PollAll":
            a = {"a": kind, "arg": []}
        elif kind == "DestroyObservable":
            a = {"a": kind, "arg": {"o": o}}
            oalive.discard(o)
        else:
            a = {"a": kind, "arg": {"b": b}}
            balive.discard(b)
        acts.append(a)
    return acts


def rand_stamp_actions(rnd, n, nc=TRACE_NC):
    held, moved = set(), set()           # the generator's guess, as above
    acts = []
    kinds = [("Create", 16), ("Renew", 22), ("CopyCtor", 14), ("MoveCtor", 7), ("CopyAssign", 16), ("MoveAssign", 8), ("Destroy", 14)]
    names, weights = [k for k, _ in kinds], [w for _, w in kinds]
    while len(acts) < n:
        kind = rnd.choices(names, weights)[0]
        wild = rnd.random() < 0.06
        s, t = rnd.randint(1, nc), rnd.randint(1, nc)
        free = [i for i in range(1, nc + 1) if i not in held]
        readable = sorted(held - moved)
        if not wild:
            if kind == "Create":
                if not free: continue
                s = rnd.choice(free)
            elif kind in ("Renew", "Destroy"):
                if not held: continue
                s = rnd.choice(sorted(held))
            elif kind in ("CopyCtor", "MoveCtor"):
                if not free or not readable: continue
                s, t = rnd.choice(free), rnd.choice(readable)
            else:
                if not held or not readable: continue
                s, t = rnd.choice(sorted(held)), rnd.choice(readable)
                if rnd.random() < 0.1 and s in readable: t = s
        a = {"a": kind, "arg": {"s": s, "t": t} if kind not in ("Create", "Renew", "Destroy") else {"s": s}}
        # bookkeeping of the guess (exact when the guess was right)
        if kind == "Create":
            if s not in held: held.add(s); moved.discard(s)
        elif kind == "Renew":
            if s in held: moved.discard(s)
        elif kind == "Destroy":
            held.discard(s); moved.discard(s)
        elif kind in ("CopyCtor", "MoveCtor"):
            if s not in held and t in held and t not in moved:
                held.add(s); moved.discard(s)
                if kind == "MoveCtor": moved.add(t)
        else:
            if s in held and t in held and t not in moved:
                moved.discard(s)
                if kind == "MoveAssign": moved.add(t)
        acts.append(a)
    return acts


# ---------------------------------------------------------------------------
# recorded sequential executions -> TLC  (adtcheck.record_and_validate plus statistics and a corruption guard)
# ---------------------------------------------------------------------------
def record_validate(chk, exe, module, acts, tag, sig_prefix, meta, isolate=4, keep=()):
    res, rc, stderr, wall = adt.run_driver(exe, acts, tag + "-rec", isolate=isolate, meta=meta, env=FAST_SAN)
    execs = []
    for i, al in enumerate(acts):
        r = res.get(i)
        if r is None:
            raise InfraError("driver %s gave no result for recorded execution %d (rc=%s): %s" % (exe, i, rc, stderr[-1500:]))
        ev = []
        if "crash" in r or "timeout" in r:
            kind = "crash" if "crash" in r else "timeout"
            k = r[kind].get("step", 0)
            if k > 0:    # the events that led there: perform the prefix once more so that TLC sees them
                res2, _, _, _ = adt.run_driver(exe, [al[:k]], tag + "-rec-prefix", isolate=1, meta=meta, env=FAST_SAN)
                for st, o in zip(al[:k], (res2.get(0) or {}).get("obs", [])):
                    ev.append(dict({"a": st["a"], "arg": st.get("arg", []), "obs": o}, **{x: st[x] for x in keep if x in st}))
            ev.append({"a": kind, "arg": al[k].get("arg") if 0 <= k < len(al) else None,
                       "during": al[k]["a"] if 0 <= k < len(al) else None, "obs": r[kind]})
        else:
            for st, o in zip(al, r["obs"]):
                ev.append(dict({"a": st["a"], "arg": st.get("arg", []), "obs": o}, **{x: st[x] for x in keep if x in st}))
        execs.append(ev)
    acc, rej, stats = trace.validate(os.path.join(SPEC, module + ".tla"), os.path.join(SPEC, module + ".cfg"), execs, tag)
    chk.cov["traces_validated_against_impl"] += acc + len(rej)
    chk.cov.setdefault("trace_events_validated", 0)
    chk.cov["trace_events_validated"] += stats["events"]
    chk.log("trace validation %s: %d executions accepted, %d rejected, %d events, %d TLC run(s), %.1fs"
            % (tag, acc, len(rej), stats["events"], stats["tlc_runs"], stats["wall"]))
    for rj in rej:
        ev = rj["event"]
        abnormal = ev.get("a") in ("crash", "timeout")
        mm = {"action": ev.get("during") or ev.get("a"), "cls": None, "field": ev["a"] if abnormal else "trace-rejected"}
        what = "%s: recorded execution %d rejected by %s at event %d: %s" % (sig_prefix, rj["exec"], module, rj["line"], json.dumps(ev)[:400])
        rep = {"kind": "trace", "property": chk.pid, "tag": tag, "sig_prefix": sig_prefix, "module": module, "meta": meta,
               "actions": acts[rj["exec"]], "events": execs[rj["exec"]], "rejected_at": rj["line"]}
        if abnormal:
            rep["stderr_tail"] = stderr[-2500:]
        chk.violation(sig_of(sig_prefix, mm), what, rep)
    return acc, rej, execs


def performed_stats(execs):
    st = {"performed": {}, "refused": 0}
    for ev in execs:
        for e in ev:
            o = e.get("obs") or {}
            if isinstance(o, dict) and o.get("skipped"):
                st["refused"] += 1
            elif e.get("a") not in ("crash", "timeout"):
                st["performed"][e["a"]] = st["performed"].get(e["a"], 0) + 1
    return st


def corruption_guard_observers(chk, execs, rnd):
    """An accepted recorded execution with one poll result flipped must be rejected at exactly that event."""
    cand = [(i, k) for i, ev in enumerate(execs) for k, e in enumerate(ev) if e["a"] == "Poll" and isinstance(e["obs"].get("ret"), bool)]
    if not cand:
        raise InfraError("corruption guard: no recorded poll")
    for want in (True, False):
        cc = [(i, k) for i, k in cand if execs[i][k]["obs"]["ret"] is want]
        if not cc:
            raise InfraError("corruption guard: no recorded poll returning %s" % want)
        i, k = rnd.choice(cc)
        ev = json.loads(json.dumps(execs[i]))
        ev[k]["obs"]["ret"] = not want
        acc, rej, _ = trace.validate(os.path.join(SPEC, "ObserversTrace.tla"), os.path.join(SPEC, "ObserversTrace.cfg"), [ev], "c19-obs-corrupt")
        if not rej or rej[0]["line"] != k:
            raise InfraError("corruption guard: ObserversTrace did not reject a flipped poll result at event %d (rejections: %s)" % (k, rej))
        chk.cov.setdefault("corruption_guard", []).append({"spec": "ObserversTrace", "corrupted": "Poll ret %s -> %s at event %d" % (want, not want, k),
                                                           "rejected_at": rej[0]["line"]})
    chk.log("corruption guard: ObserversTrace rejects a flipped poll result (both directions)")


def corruption_guard_cells(chk, execs, rnd):
    """A copy that carries another value / a renewal that is not above the earlier values must be rejected there."""
    done = []
    for kind in ("copy", "fresh"):
        cand = []
        for i, ev in enumerate(execs):
            for k, e in enumerate(ev):
                o = e.get("obs") or {}
                if "vals" not in o or k == 0:
                    continue
                if kind == "copy" and e["a"] in ("CopyCtor", "CopyAssign") and e["arg"]["s"] != e["arg"]["t"]:
                    cand.append((i, k))
                if kind == "fresh" and e["a"] == "Renew" and any(v[0] >= 0 for j, v in enumerate(o["vals"]) if j != e["arg"]["s"] - 1):
                    cand.append((i, k))
        if not cand:
            raise InfraError("corruption guard: no recorded %s event to corrupt" % kind)
        i, k = rnd.choice(cand)
        ev = json.loads(json.dumps(execs[i]))
        s = ev[k]["arg"]["s"] - 1
        if kind == "copy":
            ev[k]["obs"]["vals"][s][1] += 1                      # the copy carries source + 1
        else:
            others = [v for j, v in enumerate(ev[k]["obs"]["vals"]) if j != s and v[0] >= 0]
            ev[k]["obs"]["vals"][s] = list(min(others))          # the renewed stamp repeats a value handed out before
        acc, rej, _ = trace.validate(os.path.join(SPEC, "StampCellsTrace.tla"), os.path.join(SPEC, "StampCellsTrace.cfg"), [ev], "c19-cells-corrupt")
        if not rej or rej[0]["line"] != k:
            raise InfraError("corruption guard: StampCellsTrace did not reject a corrupted %s value at event %d (rejections: %s)" % (kind, k, rej))
        done.append({"spec": "StampCellsTrace", "corrupted": kind + " value at event %d" % k, "rejected_at": rej[0]["line"]})
    chk.cov.setdefault("corruption_guard", []).extend(done)
    chk.log("corruption guard: StampCellsTrace rejects a copy with a different value and a renewal repeating an old value")


# ---------------------------------------------------------------------------
# concurrent bursts
# ---------------------------------------------------------------------------
def _vkey(e):
    return (e["v"][0], e["v"][1], 0 if e["e"] == "Fresh" else 1, e["t"], e["seq"])


def burst_events(obs, path):
    """Driver log -> event list for StampsTrace: Start, the logged events SORTED BY VALUE, End.  Format conversion and sorting only."""
    evs = []
    with open(path) as f:
        for line in f:
            line = line.strip()
            if line:
                evs.append(json.loads(line))
    evs.sort(key=_vkey)
    return [{"e": "Start", "threads": obs["threads"]}] + evs + [{"e": "End", "fresh": obs["fresh"], "copies": obs["copies"]}]


def interleaving(ev):
    """Statistics for the vacuity guard: how often consecutive fresh values (in value order) belong to different threads."""
    last, sw, threads = None, 0, set()
    for e in ev:
        if e.get("e") == "Fresh" and e["t"] != 0:
            threads.add(e["t"])
            if last is not None and e["t"] != last:
                sw += 1
            last = e["t"]
    return sw, len(threads)


def run_bursts(chk, exe, configs, tag, san):
    d = os.path.join(WORK, "run", tag)
    os.makedirs(d, exist_ok=True)
    hists, paths = [], []
    for i, c in enumerate(configs):
        p = os.path.join(d, "events-%d-%d.ndjson" % (os.getpid(), i))
        if os.path.exists(p):
            os.remove(p)
        paths.append(p)
        hists.append([{"a": "Burst", "arg": dict(c, out=p)}])
    res, rc, stderr, wall = adt.run_driver(exe, hists, tag, isolate=1, timeout=2400, extra_args=["--timeout-ms", "600000"])
    execs = []
    for i, c in enumerate(configs):
        r = res.get(i)
        if r is None:
            raise InfraError("driver %s gave no result for burst %d (rc=%s): %s" % (exe, i, rc, stderr[-1500:]))
        if "crash" in r:
            status = r["crash"].get("status")
            if san == "thread" and (status == 95 or "ThreadSanitizer" in stderr):
                execs.append([{"e": "race", "status": status}])
            else:
                execs.append([{"e": "crash", "status": status, "sig": r["crash"].get("sig")}])
        elif "timeout" in r:
            execs.append([{"e": "timeout"}])
        else:
            o = r["obs"][0]
            if "unexpected_exception" in o or "error" in o or not os.path.exists(paths[i]):
                execs.append([{"e": "malformed", "what": str(o.get("unexpected_exception") or o.get("error") or "no event file")}])
            else:
                execs.append(burst_events(o, paths[i]))
        try:
            os.remove(paths[i])
        except OSError:
            pass
    return execs, stderr, wall


def _compact(ev, at, ctx=6):
    """The part of a burst worth keeping in a replay artefact (small bursts: everything): Start, the events the rejected one
    is judged against (the latest fresh value before it, the same thread's latest fresh value before it), its neighbours, End.
    Re-validating the excerpt rejects the same event."""
    if len(ev) <= 20000 or ev[at].get("e") not in ("Fresh", "Copy"):
        return ev, at
    lo = max(1, at - ctx)
    keep = set(range(lo, min(len(ev) - 1, at + ctx + 1)))
    t = ev[at].get("t")
    need_prev, need_thread = True, ev[at].get("e") == "Fresh"
    for k in range(at - 1, 0, -1):
        if ev[k].get("e") != "Fresh":
            continue
        if need_prev:
            keep.add(k)
            need_prev = False
        if need_thread and ev[k].get("t") == t:
            keep.add(k)
            need_thread = False
        if not need_prev and not need_thread:
            break
    idx = sorted(keep)
    return [ev[0]] + [ev[k] for k in idx] + [ev[-1]], 1 + idx.index(at)


def validate_bursts(chk, execs, configs, tag, san, stderr=""):
    # one TLC run per group of bursts of at most ~600000 events (bounds TLC's memory; bursts are independent executions)
    groups, cur, size = [], [], 0
    for i, e in enumerate(execs):
        if cur and size + len(e) > 600000:
            groups.append(cur)
            cur, size = [], 0
        cur.append(i)
        size += len(e)
    if cur:
        groups.append(cur)
    acc, rej, stats = 0, [], {"events": 0, "wall": 0.0}
    for grp in groups:
        a, r, st = trace.validate(os.path.join(SPEC, "StampsTrace.tla"), os.path.join(SPEC, "StampsTrace.cfg"),
                                  [execs[i] for i in grp], tag, reset_key="e", timeout=2400)
        acc += a
        for rj in r:
            rj["exec"] = grp[rj["exec"]]
        rej += r
        stats["events"] += st["events"]
        stats["wall"] += st["wall"]
    chk.cov["traces_validated_against_impl"] += acc + len(rej)
    chk.cov.setdefault("trace_events_validated", 0)
    chk.cov["trace_events_validated"] += stats["events"]
    chk.log("trace validation %s: %d bursts accepted, %d rejected, %d events, %.1fs" % (tag, acc, len(rej), stats["events"], stats["wall"]))
    for rj in rej:
        ev = rj["event"]
        e = ev.get("e")
        if e in ("race", "crash", "timeout", "malformed"):
            field = e
        elif e == "Fresh":
            field = "fresh-value-not-unique-or-not-increasing"
        elif e == "Copy":
            field = "copy-differs-from-source"
        else:
            field = "trace-rejected@" + str(e)
        cfgc = configs[rj["exec"]]
        mm = {"action": "Burst", "cls": "san=%s" % (san or "none"), "field": field}
        full = execs[rj["exec"]]
        near = full[max(0, rj["line"] - 2):rj["line"] + 1]
        what = "%s: burst %s rejected by StampsTrace at event %d (value order): %s" % (API_TSC, json.dumps(cfgc), rj["line"], json.dumps(near)[:600])
        part, at = _compact(full, rj["line"])
        rep = {"kind": "burst", "property": chk.pid, "tag": tag, "san": san, "config": cfgc, "events_near_rejection": part,
               "rejected_at_in_excerpt": at, "rejected_at": rj["line"], "events_total": len(full)}
        if e in ("race", "crash"):
            rep["stderr_tail"] = stderr[-3000:]
        chk.violation(sig_of(API_TSC, mm), what, rep)
    return acc, rej


def burst_corruption_guard(chk, execs, rnd):
    good = [e for e in execs if len(e) > 12 and e[-1].get("e") == "End" and any(x.get("e") == "Copy" for x in e)]
    if not good:
        raise InfraError("corruption guard: no complete burst with copies")
    done = []
    for what in ("duplicate", "order", "copy", "lost"):
        ev = json.loads(json.dumps(rnd.choice(good)))
        fresh = [k for k, x in enumerate(ev) if x.get("e") == "Fresh"]
        if what == "duplicate":            # two renewals obtained the same value
            k = rnd.choice(fresh[1:])
            ev[k]["v"] = list(ev[fresh[fresh.index(k) - 1]]["v"])
        elif what == "order":              # a thread obtained a smaller value later in its program order
            byt = {}
            k = None
            for kk in fresh:
                t = ev[kk]["t"]
                if t in byt:
                    j = byt[t]
                    ev[j]["seq"], ev[kk]["seq"] = ev[kk]["seq"], ev[j]["seq"]
                    k = kk
                    break
                byt[t] = kk
            if k is None:
                raise InfraError("corruption guard: no thread with two fresh values")
        elif what == "copy":               # a copy carries something else than its source
            k = rnd.choice([kk for kk, x in enumerate(ev) if x.get("e") == "Copy"])
            ev[k]["src"] = [ev[k]["src"][0], ev[k]["src"][1] + 1]
        else:                              # an event got lost on the way
            k0 = rnd.choice([kk for kk in fresh if ev[kk + 1].get("e") != "Copy"])     # a value nobody copied
            del ev[k0]
            k = len(ev) - 1
        acc, rej, _ = trace.validate(os.path.join(SPEC, "StampsTrace.tla"), os.path.join(SPEC, "StampsTrace.cfg"), [ev], "c19-burst-corrupt", reset_key="e")
        if not rej or rej[0]["line"] != k:
            raise InfraError("corruption guard: StampsTrace did not reject corruption '%s' at event %d (rejections: %s)" % (what, k, rej))
        done.append({"spec": "StampsTrace", "corrupted": what, "rejected_at": rej[0]["line"]})
    chk.cov.setdefault("corruption_guard", []).extend(done)
    chk.log("corruption guard: StampsTrace rejects a duplicated value, a per-thread inversion, a copy differing from its source, a lost event")


def burst_configs(rnd, quick):
    """sync = n: the threads meet at a barrier every n operations (keeps them on the counter at the same time on a loaded machine)."""
    cfgs = []
    big = [(2, 20000, 0), (4, 10000, 64), (8, 10000, 16)] if quick else \
        [(2, 100000, 0), (3, 50000, 256), (4, 100000, 64), (6, 50000, 16), (8, 100000, 0), (8, 30000, 8)]
    for T, ops, sync in big:
        cfgs.append({"threads": T, "ops": ops, "seed": rnd.randint(1, 10 ** 6), "shared": 3, "sync": sync})
    # many short bursts: all threads hit the counter in their first few operations
    for _ in range(30 if quick else 300):
        cfgs.append({"threads": rnd.choice([1, 2, 3, 4, 8]), "ops": rnd.choice([1, 3, 10, 50, 200]), "seed": rnd.randint(1, 10 ** 6),
                     "shared": rnd.choice([0, 1, 3]), "sync": rnd.choice([0, 0, 4, 16])})
    return cfgs


# ---------------------------------------------------------------------------
# bulk replays: sanitizer reports are not symbolised (a crashing build would otherwise spend its time in the symboliser);
# `bin/check C19 --replay <artefact>` re-runs the one history with full reports
FAST_SAN = {"ASAN_OPTIONS": adt.SAN_ENV["ASAN_OPTIONS"] + ":symbolize=0", "UBSAN_OPTIONS": "halt_on_error=1:exitcode=96:symbolize=0"}


def split_stages(hs, info):
    """gen_histories returns all-paths + transition cover + random walks, in this order: replay the cover's shortest
    histories first, then the rest of the cover, the exhaustive paths, the long walks."""
    na, nc = info["all_histories"], info["transition_cover"]
    cover = sorted(hs[na:na + nc], key=len)
    return [cover[:400], cover[400:], hs[:na], hs[na + nc:]]


def staged_replay(chk, exe, stages, tag, sig_prefix, meta):
    """adtcheck.replay stage by stage (shortest histories first); once a stage has produced mismatches the later,
    longer histories of this variant are not replayed: the finding is made, and every later crash costs a process."""
    total, bad, wall = 0, 0, 0.0
    for i, hs in enumerate(stages):
        if not hs:
            continue
        n, w = adtcheck.replay(chk, exe, hs, "%s-s%d" % (tag, i), sig_prefix, isolate=400, meta=meta, env=FAST_SAN)
        total += len(hs)
        bad += n
        wall += w
        if n:
            left = sum(len(x) for x in stages[i + 1:])
            if left:
                chk.note("%s %s: %d of %d histories of stage %d mismatch; %d longer histories not replayed" % (sig_prefix, json.dumps(meta), n, len(hs), i, left))
            break
    return total, bad, wall


def negative_control(chk, module, cfg, expect, what, r):
    """r: result of TLC on the negative-control instance; it MUST have refuted one of the `expect`ed invariants."""
    if r.violated not in expect:
        raise InfraError("negative control %s/%s (%s) was not refuted by TLC (violated=%s error=%s): the invariants would be vacuous\n%s"
                         % (module, cfg, what, r.violated, r.error, r.out[-1500:]))
    chk.cov.setdefault("negative_controls", []).append({"module": module + "/" + cfg, "what": what, "refuted_invariant": r.violated,
                                                        "distinct_states": r.distinct, "depth": r.depth})
    chk.log("negative control %s: %s refuted by TLC (invariant %s, %d states)" % (cfg, what, r.violated, r.distinct))


# ---------------------------------------------------------------------------
# wide / bursty observer histories: counts on 2^7 .. 2^16 boundaries (spec/utility/ObserversWide.tla)
# ---------------------------------------------------------------------------
API_WIDE = "ObserverWide"
WIDE_ACTIONS = ["CreateRange", "NotifyMany", "PollRange", "PollMany", "DestroySel", "Churn", "DestroyObservable", "Teardown"]


def wide_job(exe, quick):
    """Runs beside the rest of the check: TLC writes one history per (count, shape) - every expected value is TLC's -, then the
    histories are performed (the big ones in processes of their own).  Touches nothing of `chk`; see wide_collect."""
    import glob
    from concurrent.futures import ThreadPoolExecutor
    cfg = "ObserversWide.cfg" if quick else "ObserversWide_thorough.cfg"
    d = os.path.join(WORK, "cases", "c19-wide")
    os.makedirs(d, exist_ok=True)
    prefix = os.path.join(d, "cases-%d" % os.getpid())
    for f in glob.glob(prefix + "*"):
        os.remove(f)
    # the evaluation of set constructors over 10^5 ids nests deeply in TLC: give its threads a big stack
    r = tla.run_tlc(os.path.join(SPEC, "ObserversWide.tla"), os.path.join(SPEC, cfg), workers=4, timeout=3000,
                    env={"OUT": prefix, "_JAVA_OPTIONS": "-Xss512m"}, tag="c19-wide")
    cases = []
    for f in sorted(glob.glob(prefix + "*")):
        with open(f) as fh:
            for line in fh:
                if line.strip():
                    cases.append(json.loads(line))
        os.remove(f)
    cases.sort(key=lambda c: (c["n"], c["shape"]))
    for c in cases:
        for st in c["h"]:
            if isinstance(st["exp"].get("trues"), list):
                st["exp"]["trues"].sort()              # TLC enumerates a set: ascending order is a format conversion
    small = [c for c in cases if c["n"] < 10000]
    big = [c for c in cases if c["n"] >= 10000]
    groups = ([small] if small else []) + [[c] for c in big]
    env = dict(FAST_SAN)
    env["ASAN_OPTIONS"] += ":quarantine_size_mb=64"

    def one(i):
        return adt.run_driver(exe, [c["h"] for c in groups[i]], "c19-wide-%d" % i, isolate=1,
                              env=env, timeout=3000, extra_args=["--timeout-ms", "900000"])
    with ThreadPoolExecutor(max_workers=max(1, min(8, len(groups)))) as ex:
        runs = list(ex.map(one, range(len(groups))))
    return r, cfg, groups, runs


def wide_collect(chk, fut):
    r, cfg, groups, runs = fut.result()
    if not r.ok:
        raise InfraError("ObserversWide does not satisfy its own invariants (violated=%s, error=%s):\n%s" % (r.violated, r.error, r.out[-2500:]))
    ncases = sum(len(g) for g in groups)
    chk.add_model("ObserversWide/" + cfg, r, "wide / bursty histories: set-level invariants, per-observer declarative reading; %d histories emitted" % ncases)
    if ncases == 0:
        raise InfraError("ObserversWide emitted no history")
    info = {"histories": ncases, "counts": sorted({c["n"] for g in groups for c in g}), "polls_compared": 0, "real_observers_created": 0, "wall_s": 0.0}
    for g, (res, rc, stderr, wall) in zip(groups, runs):
        hs = [c["h"] for c in g]
        info["wall_s"] = round(max(info["wall_s"], wall), 1)
        if rc not in (0,) and not res:
            if "Sanitizer" not in stderr and "runtime error" not in stderr:
                raise InfraError("wide driver produced nothing (rc=%s): %s" % (rc, stderr[-2000:]))
        for mm in adt.compare(hs, res, rc, stderr):
            c = g[mm["case"]]
            if mm["kind"] == "missing":
                if "Sanitizer" in stderr or "runtime error" in stderr:
                    mm.update(kind="crash", field="crash", action=c["h"][-1]["a"])
                else:
                    raise InfraError("wide driver stopped without result for n=%d shape=%d (rc=%s): %s" % (c["n"], c["shape"], rc, stderr[-1500:]))
            exp, obs = mm.get("expected"), mm.get("observed")
            what = "%s: n=%d shape=%d step %d %s(%s): %s expected %s observed %s" % (
                API_WIDE, c["n"], c["shape"], mm["step"], mm.get("action"), json.dumps(mm.get("arg")), mm["field"],
                json.dumps(exp)[:200], json.dumps(obs)[:200])
            rep = {"kind": "history", "property": chk.pid, "tag": "c19-wide", "sig_prefix": API_WIDE, "meta": None, "history": c["h"],
                   "mismatch": {k: v for k, v in mm.items() if k not in ("stderr", "expected", "observed")},
                   "info": {"n": c["n"], "shape": c["shape"]}}
            if mm.get("stderr"):
                rep["stderr_tail"] = mm["stderr"][-2500:]
            chk.violation(sig_of(API_WIDE, mm), what, rep)
        for ci, c in enumerate(g):
            o = (res.get(ci) or {}).get("obs", [])
            info["polls_compared"] += sum(1 for k, st in enumerate(c["h"]) if st["a"] in ("PollRange", "PollMany") and k < len(o) and "trues" in o[k])
            info["real_observers_created"] += sum(max(0, st["arg"]["hi"] - st["arg"]["lo"] + 1) for st in c["h"] if st["a"] == "CreateRange")
        chk.count_actions(hs)
        chk.cov["evaluations"] += len(hs)
        chk.cov["distinct_nontrivial"] += len(hs)
    chk.require_actions(WIDE_ACTIONS)
    # vacuity guard: every count of the configuration was performed in every shape, with its polls observed
    if not chk.violations:
        need_polls = sum(1 for g in groups for c in g for st in c["h"] if st["a"] in ("PollRange", "PollMany"))
        if info["polls_compared"] != need_polls:
            raise InfraError("vacuity guard: %d of %d polls of the wide histories were observed" % (info["polls_compared"], need_polls))
        if max(info["counts"]) < 65536 or not {255, 256, 257} <= set(info["counts"]):
            raise InfraError("vacuity guard: the wide histories do not reach the 2^8 / 2^16 boundaries: %s" % info["counts"])
    chk.cov["wide_observers"] = info
    chk.log("wide observers: %d histories (counts %s), %d real observers created, %d polls compared, slowest process %.1fs"
            % (ncases, info["counts"], info["real_observers_created"], info["polls_compared"], info["wall_s"]))


# ---------------------------------------------------------------------------
# thread-confined observer groups: threads share only the stamp counter; each thread's history must satisfy Observers.tla
# ---------------------------------------------------------------------------
API_MT = "Observer/threads"


def mt_configs(rnd, quick):
    cfgs = []
    plan = [(2, 1500, 0), (4, 1000, 16), (8, 600, 4)] if quick else [(2, 6000, 0), (3, 3000, 64), (4, 4000, 16), (8, 2500, 4), (8, 2500, 0)]
    for T, steps, sync in plan:
        cfgs.append({"lists": [rand_observer_actions(rnd, steps) for _ in range(T)], "sync": sync})
    for _ in range(6 if quick else 40):       # short ones: every thread creates and notifies in its first steps
        T = rnd.choice([2, 3, 4, 8])
        cfgs.append({"lists": [rand_observer_actions(rnd, rnd.choice([5, 20, 80])) for _ in range(T)], "sync": rnd.choice([0, 1, 4])})
    return cfgs


def run_mt(chk, exe, cfgs, tag, san):
    hists = [[{"a": "Threads", "arg": c}] for c in cfgs]
    res, rc, stderr, wall = adt.run_driver(exe, hists, tag, isolate=1, timeout=2400, meta={"variant": "plain", "nw": TRACE_NW},
                                           extra_args=["--timeout-ms", "600000"])
    execs, owner = [], []         # one execution per thread
    for i, c in enumerate(cfgs):
        r = res.get(i)
        if r is None:
            raise InfraError("driver %s gave no result for thread group %d (rc=%s): %s" % (exe, i, rc, stderr[-1500:]))
        if "crash" in r or "timeout" in r:
            if "timeout" in r:
                ev = {"a": "timeout"}
            elif san == "thread" and (r["crash"].get("status") == 95 or "ThreadSanitizer" in stderr):
                ev = {"a": "race", "obs": r["crash"]}
            else:
                ev = {"a": "crash", "obs": r["crash"]}
            execs.append([ev])
            owner.append((i, -1))
            continue
        o = r["obs"][0]
        if "threads" not in o:
            execs.append([{"a": "malformed", "obs": {"what": str(o)[:200]}}])
            owner.append((i, -1))
            continue
        for t, (acts, obs) in enumerate(zip(c["lists"], o["threads"])):
            if len(obs) != len(acts):
                raise InfraError("thread %d of group %d returned %d observations for %d actions" % (t, i, len(obs), len(acts)))
            execs.append([{"a": st["a"], "arg": st.get("arg", []), "obs": ob} for st, ob in zip(acts, obs)])
            owner.append((i, t))
    acc, rej, stats = trace.validate(os.path.join(SPEC, "ObserversTrace.tla"), os.path.join(SPEC, "ObserversTrace.cfg"), execs, tag)
    chk.cov["traces_validated_against_impl"] += acc + len(rej)
    chk.cov.setdefault("trace_events_validated", 0)
    chk.cov["trace_events_validated"] += stats["events"]
    chk.log("trace validation %s: %d per-thread histories of %d thread groups accepted, %d rejected, %d events, %.1fs (driver %.1fs)"
            % (tag, acc, len(cfgs), len(rej), stats["events"], stats["wall"], wall))
    for rj in rej:
        ev = rj["event"]
        gi, t = owner[rj["exec"]]
        abnormal = ev.get("a") in ("crash", "timeout", "race", "malformed")
        mm = {"action": ev.get("a"), "cls": "san=%s" % (san or "none"), "field": ev["a"] if abnormal else "trace-rejected"}
        what = "%s: thread %d of a group of %d (sync %d): its history is rejected by ObserversTrace at event %d: %s" % (
            API_MT, t, len(cfgs[gi]["lists"]), cfgs[gi]["sync"], rj["line"], json.dumps(ev)[:300])
        rep = {"kind": "threads", "property": chk.pid, "tag": tag, "san": san, "config": cfgs[gi], "thread": t,
               "events": execs[rj["exec"]][:rj["line"] + 1], "rejected_at": rj["line"]}
        if abnormal:
            rep["stderr_tail"] = stderr[-3000:]
        chk.violation(sig_of(API_MT, mm), what, rep)
    return acc, rej, execs


# ---------------------------------------------------------------------------
# far stamps: the counter moves by 2^31 .. 2^32+1 inside a history (spec/utility/FarGap.tla, FarStamps.tla)
# ---------------------------------------------------------------------------
API_FAR = "FarStamps"
FAR_META = {"nw": 4, "nc": 3}


def _limbs_int(v):
    return v[0] * (1 << 30) + v[1]


def far_histories(chk, quick):
    """One scripted history per far class; every expected value is computed by TLC (product of the two contract specifications)."""
    cfg = "FarStamps.cfg" if quick else "FarStamps_thorough.cfg"
    ag, r = adt.build_graph(os.path.join(SPEC, "FarStamps.tla"), os.path.join(SPEC, cfg), tag="c19-far")
    hs = adt.all_paths(ag, 1000, 100) or []
    chk.add_model("FarStamps/" + cfg, r, "far-stamp scripts: contract invariants, declarative reading and stamp laws along %d histories" % len(hs))
    for h in hs:
        if sum(1 for st in h if st["a"] == "Advance") != 1 or h[-1]["a"] != "Teardown":
            raise InfraError("FarStamps produced an incomplete script: %s" % [st["a"] for st in h])
    if not hs:
        raise InfraError("FarStamps produced no history")
    return hs


def far_start(pool, exe, hs):
    """Each far history runs in a process of its own (its Advance takes the real code tens of seconds), beside the rest of the check."""
    def one(i):
        return adt.run_driver(exe, [hs[i]], "c19-far-%d" % i, isolate=0, meta=FAR_META, env=FAST_SAN, timeout=3000)
    return [pool.submit(one, i) for i in range(len(hs))]


def far_collect(chk, hs, futures, tag="c19-far"):
    info = []
    for h, f in zip(hs, futures):
        res, rc, stderr, wall = f.result()
        k_adv = [k for k, st in enumerate(h) if st["a"] == "Advance"][0]
        cls = h[k_adv]["arg"]["cls"]
        prefix = "%s(%s)" % (API_FAR, cls)
        if 0 not in res:
            if "Sanitizer" in stderr or "runtime error" in stderr:
                mm = {"case": 0, "step": -1, "kind": "crash", "action": None, "field": "crash", "expected": None,
                      "observed": "driver rc=%s" % rc, "stderr": stderr[-3000:]}
                mms = [mm]
            else:
                raise InfraError("far-stamp driver stopped without result (rc=%s, %.0fs): %s" % (rc, wall, stderr[-1500:]))
        else:
            obs = res[0].get("obs", [])
            # self-check (not a contract observable): the advance really happened, by exactly the distance the specification names.
            # `draws` is the driver's own loop count; first / last are read from the scratch stamp, i.e. through the code under
            # test: if they disagree while the contract comparison below finds nothing, the run is void (InfraError); if the
            # comparison does find a mismatch, that mismatch is the finding and the disagreement is only noted.
            if len(obs) > k_adv and "first" in obs[k_adv]:
                a = obs[k_adv]
                dist = _limbs_int(h[k_adv]["arg"]["dist"])
                first, last, draws = _limbs_int(a["first"]), _limbs_int(a["last"]), _limbs_int(a["draws"])
                if draws != dist - 1:
                    raise InfraError("far-stamp self-check failed for %s: dist=%d but the driver drew %d values" % (cls, dist, draws))
                readings_ok = (last - first == dist - 2)
            else:
                raise InfraError("far-stamp driver did not perform the Advance of %s: %s" % (cls, json.dumps(obs[k_adv:k_adv + 1])[:300]))
            mms = adt.compare([h], res, rc, stderr)
            if not readings_ok:
                if not mms:
                    raise InfraError("far-stamp self-check failed for %s: dist=%d draws=%d first=%d last=%d" % (cls, dist, draws, first, last))
                chk.note("far stamps %s: the scratch stamp read %d before and %d after %d draws (the values read back are themselves off)"
                         % (cls, first, last, draws))
            # vacuity guard: the polls behind the gap were executed and are compared
            polls = [k for k, st in enumerate(h) if k > k_adv and st["a"] == "Poll" and k < len(obs) and "ret" in obs[k]]
            if len(polls) < 6:
                raise InfraError("vacuity guard: only %d polls observed behind the gap of %s" % (len(polls), cls))
            info.append({"class": cls, "distance": dist, "values_drawn_by_advance": draws, "first": first, "last": last,
                         "polls_compared_behind_gap": len(polls), "steps": len(h), "wall_s": round(wall, 1)})
        for mm in mms:
            if mm["kind"] == "missing":
                raise InfraError("far-stamp driver gave no result line (rc=%s): %s" % (rc, stderr[-1500:]))
            what = "%s: step %d %s(%s): %s expected %s observed %s" % (
                prefix, mm["step"], mm.get("action"), json.dumps(mm.get("arg")), mm["field"],
                json.dumps(mm.get("expected"))[:300], json.dumps(mm.get("observed"))[:300])
            rep = {"kind": "history", "property": chk.pid, "tag": tag, "sig_prefix": prefix, "meta": FAR_META, "history": h,
                   "mismatch": {k: v for k, v in mm.items() if k != "stderr"}, "info": {"far_class": cls}}
            if mm.get("stderr"):
                rep["stderr_tail"] = mm["stderr"][-2500:]
            chk.violation(sig_of(prefix, mm), what, rep)
        chk.cov["evaluations"] += 1
    chk.count_actions(hs)
    chk.require_actions(["Advance"])
    chk.cov["distinct_nontrivial"] += len(hs)
    chk.cov["far_stamps"] = info
    for i in info:
        chk.log("far stamps %s: counter advanced by %d values in one history (%d steps, %d polls behind the gap compared) in %.1fs"
                % (i["class"], i["values_drawn_by_advance"], i["steps"], i["polls_compared_behind_gap"], i["wall_s"]))


# ---------------------------------------------------------------------------
# relayed histories: a sequential history whose steps are performed by different long-lived threads (spec/utility/ObserversRelay.tla)
# ---------------------------------------------------------------------------
API_RELAY = "Observer/relay"
RELAY_NT = 3
RELAY_PRE = [0, 1, 63, 64, 65, 300]
ALL_RELAY = ALL_OBS + ["Warm", "Draw"]


def relay_graph_job():
    """TLC's complete state graph of ObserversRelayGen (runs beside the rest of the check).  The contract's own ghost (olast) is a
    ghost here as well: abstract state = the contract state + `warmed`."""
    dot = os.path.join(WORK, "graphs", "c19-relay-%d.dot" % os.getpid())
    os.makedirs(os.path.dirname(dot), exist_ok=True)
    r = tla.run_tlc(os.path.join(SPEC, "ObserversRelay.tla"), os.path.join(SPEC, "ObserversRelayGen.cfg"), workers=4, timeout=1500,
                    dump_dot=dot, tag="c19-relay-gen")
    if not r.ok:
        raise InfraError("generation model ObserversRelay failed: violated=%s error=%s\n%s" % (r.violated, r.error, r.out[-2000:]))
    g = tla.parse_dot(dot)
    os.remove(dot)
    return adt.collapse(g, ghost=("last", "olast")), r


def relay_histories(chk, fut, quick, seed):
    """Paths of TLC's graph: all paths up to a budgeted length, one per transition, seeded random walks.  Every history starts with
    a Warm edge (the only edges leaving the initial state, all into the same state): the cover / the walks take them in turn, so
    that every start state of the specification is used often - still paths of TLC's graph."""
    ag, r = fut.result()
    chk.add_model("ObserversRelay/ObserversRelayGen.cfg", r, "generation instance (thread assignment `by` enumerated by TLC): %d abstract states, "
                  "%d abstract transitions" % (len(ag.states), ag.nedges))
    if len(ag.init) != 1:
        raise InfraError("ObserversRelay: %d initial states" % len(ag.init))
    warm = [e for e in ag.edges[ag.init[0]]]
    if not warm or any(st["a"] != "Warm" for st, _ in warm) or len({d for _, d in warm}) != 1:
        raise InfraError("ObserversRelay: the initial state is not left by Warm edges into one state")
    budget = 300 if quick else 6000     # (short exhaustive paths cannot reach a notified poll: the cover and the walks carry the weight)
    K = 1
    while K < 7 and adt.count_paths(ag, K + 1) <= budget:
        K += 1
    hs = adt.all_paths(ag, K, budget * 2) or []
    cover = adt.edge_cover(ag)
    rw = adt.random_walks(ag, 800 if quick else 6000, 40, seed)
    rnd = random.Random(seed + 5)
    ncover = len(cover)
    if quick:                                   # quick tier: the Warm edges, then a seeded sample of the transition cover
        rest = cover[len(warm):]
        rnd.shuffle(rest)
        cover = cover[:len(warm)] + rest[:2400]
    order = list(range(len(warm)))
    rnd.shuffle(order)
    n = 0
    for h in cover[len(warm):] + rw:           # (the first len(warm) cover histories are the Warm edges themselves)
        if h and h[0]["a"] == "Warm":
            h[0] = warm[order[n % len(warm)]][0]
            n += 1
    info = {"abstract_states": len(ag.states), "abstract_transitions": ag.nedges, "all_histories_len": K if hs else 0, "all_histories": len(hs),
            "transition_cover": ncover, "transition_cover_replayed": len(cover), "random_walks": len(rw), "walk_len": 40,
            "start_states": len(warm), "threads": RELAY_NT}
    return hs, cover, rw, info


def relay_replay(chk, exe, hs, tag, meta):
    """adtcheck.replay plus the self-check that every step was performed by the worker thread the history names."""
    res, rc, stderr, wall = adt.run_driver(exe, hs, tag, isolate=400, meta=meta, env=FAST_SAN, timeout=1800)
    if rc not in (0,) and not res:
        raise InfraError("driver %s produced nothing (rc=%s): %s" % (exe, rc, stderr[-2000:]))
    mms = adt.compare(hs, res, rc, stderr)
    for mm in mms:
        if mm["kind"] == "missing":
            if "Sanitizer" in stderr or "runtime error" in stderr:
                mm.update(kind="crash", field="crash", action=hs[mm["case"]][-1]["a"] if hs[mm["case"]] else None)
            else:
                raise InfraError("driver %s stopped without result for case %d (rc=%s): %s" % (exe, mm["case"], rc, stderr[-1500:]))
        h = hs[mm["case"]]
        k = mm["step"]
        by = h[k].get("by") if 0 <= k < len(h) else None
        what = "%s: step %d %s(%s) performed by thread %s: %s expected %s observed %s; threads of the steps before: %s" % (
            API_RELAY, k, mm.get("action"), json.dumps(mm.get("arg")), by, mm["field"], json.dumps(mm.get("expected"))[:300],
            json.dumps(mm.get("observed"))[:300], json.dumps([[st["a"], st.get("by")] for st in h[:max(k, 0) + 1]])[:500])
        rep = {"kind": "history", "property": chk.pid, "tag": tag, "sig_prefix": API_RELAY, "meta": meta, "history": h,
               "mismatch": {kk: v for kk, v in mm.items() if kk != "stderr"}, "info": {"relay": True}}
        if mm.get("stderr"):
            rep["stderr_tail"] = mm["stderr"][-2500:]
        chk.violation(sig_of(API_RELAY, mm), what, rep)
    chk.cov["evaluations"] += len(hs)
    stats = {"steps_on_named_thread": 0, "polls_true_cross": 0, "polls_false_cross": 0}
    bad = {m["case"] for m in mms}
    for i, h in enumerate(hs):
        o = (res.get(i) or {}).get("obs")
        if o is None or i in bad:
            continue
        born, noti = {}, {}
        for st, ob in zip(h, o):
            if st["a"] != "Warm" and not ob.get("skipped"):
                if ob.get("on") != st["by"]:
                    raise InfraError("relay driver: step %s named thread %s but ran on %s" % (st["a"], st["by"], ob.get("on")))
                stats["steps_on_named_thread"] += 1
            a = st["a"]
            if a == "CreateObserver":
                born[st["arg"]["b"]] = (st["by"], st["arg"]["o"])
            elif a == "Notify":
                noti[st["arg"]["o"]] = st["by"]
            elif a == "Poll" and st["arg"]["b"] in born:
                cb, o_ = born[st["arg"]["b"]]
                if st["exp"]["ret"] is True and noti.get(o_) not in (None, st["by"]) and ob.get("ret") is True:
                    stats["polls_true_cross"] += 1
                if st["exp"]["ret"] is False and cb != st["by"] and ob.get("ret") is False:
                    stats["polls_false_cross"] += 1
    return len(mms), wall, stats


def relay_spec_to_code(chk, exe, fut, quick):
    hs, cover, rw, info = relay_histories(chk, fut, quick, chk.seed)
    allh = hs + cover + rw
    chk.count_actions(allh)
    chk.require_actions(ALL_RELAY)
    # vacuity guards on the generated inputs: thread assignment, start states
    bys = {st["by"] for h in allh for st in h if st["a"] not in ("Warm",)}
    if bys != set(range(1, RELAY_NT + 1)):
        raise InfraError("vacuity guard: relayed histories use threads %s" % sorted(bys))
    pre_at = {(t, c) for h in allh for st in h if st["a"] == "Warm" for t, c in enumerate(st["arg"]["pre"])}
    lack = [(t, c) for t in range(RELAY_NT) for c in RELAY_PRE if (t, c) not in pre_at]
    if lack:
        raise InfraError("vacuity guard: start states never generated (thread index, stamps drawn before): %s" % lack)
    wcls = {st["cls"] for h in allh for st in h if st["a"] == "Warm"}
    if wcls != {"nobody-drew", "some-drew", "all-drew"}:
        raise InfraError("vacuity guard: start-state classes generated: %s" % sorted(wcls))
    multi = sum(1 for h in allh if len({st["by"] for st in h if st["a"] not in ("Warm", "Draw")}) >= 2)
    if multi < len(allh) // 3:
        raise InfraError("vacuity guard: only %d of %d relayed histories use two or more threads" % (multi, len(allh)))
    info["histories_on_2plus_threads"] = multi
    stages = [sorted(cover, key=len)[:600], sorted(cover, key=len)[600:], hs, rw]
    tot = {"steps_on_named_thread": 0, "polls_true_cross": 0, "polls_false_cross": 0}
    nbad = 0
    for variant in ["plain"]:
        meta = {"variant": variant, "nw": 3, "nt": RELAY_NT}
        for i, st in enumerate(stages):
            if not st:
                continue
            n, wall, stats = relay_replay(chk, exe, st, "c19-relay-%s-s%d" % (variant, i), meta)
            for k in tot:
                tot[k] += stats[k]
            chk.log("Observer relay %s stage %d: %d histories replayed (%d mismatching) in %.1fs" % (variant, i, len(st), n, wall))
            nbad += n
            if n:
                left = sum(len(x) for x in stages[i + 1:])
                if left:
                    chk.note("%s %s: %d of %d histories of stage %d mismatch; %d longer histories not replayed" % (API_RELAY, json.dumps(meta), n, len(st), i, left))
                break
        chk.cov["distinct_nontrivial"] += adtcheck._nontrivial_distinct(
            [[dict(st, arg={"arg": st.get("arg"), "by": st.get("by")}) for st in h] for h in allh], MUT_OBS)
    info.update(tot)
    chk.cov["relayed_observer_histories"] = info
    if not nbad:
        # vacuity guard on the execution: the polls the gap class is about were performed, on the named threads, and compared
        if tot["polls_true_cross"] < 40 or tot["polls_false_cross"] < 40 or tot["steps_on_named_thread"] < 5000:      # counts vary with the numbering of TLC's graph (189 .. 400 true polls seen)
            raise InfraError("vacuity guard: relayed histories hardly exercised cross-thread polls: %s" % tot)
    chk.add_sample({"kind": "history", "object": "Observable/Observer relayed over %d threads" % RELAY_NT, "steps": cover[len(cover) // 2]})


def rand_relay_actions(rnd, n):
    """Inputs only: a random observer history, every step given a random thread; start state and unrelated draws sprinkled in."""
    pre = [rnd.choice(RELAY_PRE) for _ in range(RELAY_NT)]
    if rnd.random() < 0.3:
        pre[rnd.randrange(RELAY_NT)] = 0
    acts = [{"a": "Warm", "arg": {"pre": pre}, "by": 0}]
    sticky = rnd.choice([0.0, 0.5, 0.9])       # how often the next step stays on the same thread
    by = rnd.randint(1, RELAY_NT)
    for st in rand_observer_actions(rnd, n):
        if rnd.random() >= sticky:
            by = rnd.randint(1, RELAY_NT)
        if rnd.random() < 0.04:
            acts.append({"a": "Draw", "arg": {"n": rnd.choice([1, 2, 63, 64, 65])}, "by": rnd.randint(1, RELAY_NT)})
        acts.append(dict(st, by=by))
    return acts


def relay_code_to_spec(chk, exe, rnd, quick):
    nexec = 16 if quick else 150
    acts = [rand_relay_actions(rnd, 250) for _ in range(nexec)]
    meta = {"variant": "plain", "nw": TRACE_NW, "nt": RELAY_NT}
    acc, rej, execs = record_validate(chk, exe, "ObserversRelayTrace", acts, "c19-relay", API_RELAY, meta, keep=("by",))
    chk.cov["evaluations"] += nexec
    if not rej:
        st = performed_stats(execs)
        chk.cov["recorded_relayed_Observers"] = st
        lacking = [a for a in ALL_RELAY if st["performed"].get(a, 0) < 3]
        if lacking or st["refused"] < 1:
            raise InfraError("vacuity guard: recorded relayed executions performed too few of %s (refused: %d)" % (lacking, st["refused"]))
        # corruption guard: a flipped poll result / a step by a thread that does not exist must be rejected at that event
        cand = [(i, k) for i, ev in enumerate(execs) for k, e in enumerate(ev) if e["a"] == "Poll" and isinstance(e["obs"].get("ret"), bool)]
        if not cand:
            raise InfraError("corruption guard: no recorded relayed poll")
        for what in ("ret", "by"):
            i, k = rnd.choice(cand)
            ev = json.loads(json.dumps(execs[i]))
            if what == "ret":
                ev[k]["obs"]["ret"] = not ev[k]["obs"]["ret"]
            else:
                ev[k]["by"] = RELAY_NT + 1
            a2, r2, _ = trace.validate(os.path.join(SPEC, "ObserversRelayTrace.tla"), os.path.join(SPEC, "ObserversRelayTrace.cfg"), [ev], "c19-relay-corrupt")
            if not r2 or r2[0]["line"] != k:
                raise InfraError("corruption guard: ObserversRelayTrace did not reject a corrupted '%s' at event %d (rejections: %s)" % (what, k, r2))
            chk.cov.setdefault("corruption_guard", []).append({"spec": "ObserversRelayTrace", "corrupted": "Poll %s at event %d" % (what, k), "rejected_at": r2[0]["line"]})


# ---------------------------------------------------------------------------
# stamp relays: draws in a synchronised cross-thread chain (spec/utility/StampsRelayTrace.tla)
# ---------------------------------------------------------------------------
API_TSR = "TimeStamp/relay"


def relay_plans(rnd, quick):
    """Inputs only.  First segments = the start state (threads that drew 0 / 1 / 63 / 64 / 65 / 300 stamps before); then a chain of
    short segments on changing threads."""
    plans = []
    for i in range(40 if quick else 400):
        T = rnd.choice([2, 2, 3, 4])
        pre = [RELAY_PRE[(i + 2 * t) % len(RELAY_PRE)] if i < 12 else rnd.choice(RELAY_PRE) for t in range(T)]
        if i % 4 == 3:
            pre[rnd.randrange(T)] = 0
        segs = [[t + 1, pre[t]] for t in range(T)]
        last = 0
        for _ in range(rnd.choice([4, 12, 40])):
            t = rnd.choice([x for x in range(1, T + 1) if x != last] if rnd.random() < 0.8 else list(range(1, T + 1)))
            segs.append([t, rnd.choice([1, 1, 1, 2, 3, 63, 64, 65])])
            last = t
        plans.append({"threads": T, "segs": segs})
    return plans


def run_relays(chk, exe, plans, tag, san):
    d = os.path.join(WORK, "run", tag)
    os.makedirs(d, exist_ok=True)
    hists, paths = [], []
    for i, c in enumerate(plans):
        p = os.path.join(d, "relay-%d-%d.ndjson" % (os.getpid(), i))
        if os.path.exists(p):
            os.remove(p)
        paths.append(p)
        hists.append([{"a": "Relay", "arg": dict(c, out=p)}])
    res, rc, stderr, wall = adt.run_driver(exe, hists, tag, isolate=1, timeout=1200, extra_args=["--timeout-ms", "120000"])
    execs = []
    for i, c in enumerate(plans):
        r = res.get(i)
        if r is None:
            raise InfraError("driver %s gave no result for relay %d (rc=%s): %s" % (exe, i, rc, stderr[-1500:]))
        if "crash" in r:
            status = r["crash"].get("status")
            if san == "thread" and (status == 95 or "ThreadSanitizer" in stderr):
                execs.append([{"e": "race", "status": status}])
            else:
                execs.append([{"e": "crash", "status": status, "sig": r["crash"].get("sig")}])
        elif "timeout" in r:
            execs.append([{"e": "timeout"}])
        else:
            o = r["obs"][0]
            if "unexpected_exception" in o or "error" in o or not os.path.exists(paths[i]):
                execs.append([{"e": "malformed", "what": str(o.get("unexpected_exception") or o.get("error") or "no event file")}])
            else:
                with open(paths[i]) as f:
                    evs = [json.loads(x) for x in f if x.strip()]
                execs.append([{"e": "Start", "threads": c["threads"], "segs": c["segs"]}] + evs + [{"e": "End", "draws": o["draws"]}])
        try:
            os.remove(paths[i])
        except OSError:
            pass
    return execs, stderr, wall


def validate_relays(chk, execs, plans, tag, san, stderr=""):
    acc, rej, stats = trace.validate(os.path.join(SPEC, "StampsRelayTrace.tla"), os.path.join(SPEC, "StampsRelayTrace.cfg"), execs, tag,
                                     reset_key="e", timeout=1200)
    chk.cov["traces_validated_against_impl"] += acc + len(rej)
    chk.cov.setdefault("trace_events_validated", 0)
    chk.cov["trace_events_validated"] += stats["events"]
    chk.log("trace validation %s: %d relays accepted, %d rejected, %d events, %.1fs" % (tag, acc, len(rej), stats["events"], stats["wall"]))
    for rj in rej:
        ev = rj["event"]
        e = ev.get("e")
        field = e if e in ("race", "crash", "timeout", "malformed") else \
            "value-not-above-a-draw-that-happened-before" if e == "Draw" else "trace-rejected@" + str(e)
        full = execs[rj["exec"]]
        mm = {"action": "Relay", "cls": "san=%s" % (san or "none"), "field": field}
        what = "%s: relay over %d threads rejected by StampsRelayTrace at event %d (hand-over order): %s" % (
            API_TSR, plans[rj["exec"]]["threads"], rj["line"], json.dumps(full[max(1, rj["line"] - 2):rj["line"] + 1])[:600])
        rep = {"kind": "relay", "property": chk.pid, "tag": tag, "san": san, "plan": plans[rj["exec"]], "events": full[:rj["line"] + 1],
               "rejected_at": rj["line"]}
        if e in ("race", "crash"):
            rep["stderr_tail"] = stderr[-3000:]
        chk.violation(sig_of(API_TSR, mm), what, rep)
    return acc, rej


def relay_corruption_guard(chk, execs, rnd):
    good = [e for e in execs if len(e) > 8 and e[-1].get("e") == "End"]
    if not good:
        raise InfraError("corruption guard: no complete relay")
    done = []
    for what in ("inversion", "duplicate", "wrong-thread", "lost"):
        ev = json.loads(json.dumps(rnd.choice(good)))
        draws = [k for k, x in enumerate(ev) if x.get("e") == "Draw"]
        if what == "inversion":            # a draw after a hand-over carries a smaller value than the draw before it
            cc = [k for k in draws[1:] if ev[k]["t"] != ev[k - 1]["t"]]
            if not cc:
                continue
            k = rnd.choice(cc)
            ev[k]["v"], ev[k - 1]["v"] = ev[k - 1]["v"], ev[k]["v"]      # rejected at the second of the two
        elif what == "duplicate":
            k = rnd.choice(draws[1:])
            ev[k]["v"] = list(ev[k - 1]["v"])
        elif what == "wrong-thread":
            k = rnd.choice(draws)
            ev[k]["t"] = ev[k]["t"] % ev[0]["threads"] + 1
        else:
            k0 = rnd.choice(draws[:-1])
            del ev[k0]
            k = k0
        acc, rej, _ = trace.validate(os.path.join(SPEC, "StampsRelayTrace.tla"), os.path.join(SPEC, "StampsRelayTrace.cfg"), [ev], "c19-relay-corrupt", reset_key="e")
        if not rej or rej[0]["line"] != k:
            raise InfraError("corruption guard: StampsRelayTrace did not reject corruption '%s' at event %d (rejections: %s)" % (what, k, rej))
        done.append({"spec": "StampsRelayTrace", "corrupted": what, "rejected_at": rej[0]["line"]})
    if len(done) < 3:
        raise InfraError("corruption guard: relays too small to corrupt")
    chk.cov.setdefault("corruption_guard", []).extend(done)
    chk.log("corruption guard: StampsRelayTrace rejects an inversion across a hand-over, a duplicate, a draw by the wrong thread, a lost draw")


def stamp_relays(chk, exe, exe_tsan, rnd, quick):
    plans = relay_plans(rnd, quick)
    execs, stderr, wall = run_relays(chk, exe, plans, "c19-stamp-relay", "")
    acc, rej = validate_relays(chk, execs, plans, "c19-stamp-relay", "", stderr)
    tp = plans[:12]
    execs_t, stderr_t, wall_t = run_relays(chk, exe_tsan, tp, "c19-stamp-relay-tsan", "thread")
    validate_relays(chk, execs_t, tp, "c19-stamp-relay-tsan", "thread", stderr_t)
    chk.cov["evaluations"] += len(plans) + len(tp)
    hand, starts, idle = 0, set(), 0
    for c, e in zip(plans, execs):
        d = [x for x in e if x.get("e") == "Draw"]
        hand += sum(1 for a, b in zip(d, d[1:]) if a["t"] != b["t"])
        starts |= {c["segs"][t][1] for t in range(c["threads"])}
        idle += sum(1 for t in range(c["threads"]) if c["segs"][t][1] == 0)
    info = {"plain": len(plans), "tsan": len(tp), "draws": sum(len(e) - 2 for e in execs if len(e) >= 2), "hand_overs_between_different_threads": hand,
            "stamps_drawn_before_by_a_thread": sorted(starts), "threads_starting_without_a_stamp": idle, "wall_s": round(wall + wall_t, 1)}
    chk.cov["stamp_relays"] = info
    if not rej:
        if hand < 200 or set(RELAY_PRE) - starts or idle < 5:
            raise InfraError("vacuity guard: the stamp relays did not exercise hand-overs / start states: %s" % info)
        relay_corruption_guard(chk, execs, random.Random(chk.seed + 14))
    chk.add_sample({"kind": "relay", "plan": plans[0], "events_in_hand_over_order": execs[0][1:7]})
    chk.log("stamp relays: %d plans, %d draws, %d hand-overs between different threads in %.1fs" % (len(plans), info["draws"], hand, wall + wall_t))


def run(chk, replay=None):
    quick = chk.tier == "quick"
    rnd = random.Random(chk.seed)
    chk.assumptions += [
        "TLC explores the bounded instances completely (2 observables x 3 observers, histories up to length 5 (quick) / 6 (thorough); "
        "mechanism with up to 5 / 7 stamps handed out; 3 stamp cells; counter model 3 threads x 3 operations, thorough also 4 x 2 and 2 x 6)",
        "the drivers' books of occupied slots are correct (the trace specifications re-check every refusal against their own guards)",
        "recorded sequential executions use 3 observables x 6 observers / 5 stamp cells; longer histories or larger universes are not explored",
        "concurrent executions are free-running: interleavings are sampled, not enumerated; copies are taken only from stamps no other thread changes",
        "the burst logs are sorted by value outside TLC; StampsTrace rejects an unsorted or incomplete list instead of trusting it",
        "far stamps: one scripted history per distance class (quick: 2^31+1 only); distances beyond 2^32+1 and a wrap of the 64-bit counter are not reached",
        "wide histories: three scripted shapes per count (quick: 9 counts up to 65536, thorough: 21 counts up to 65537); counts beyond 2^16+1 are not explored",
        "thread groups: every thread uses only its own observables / observers (observers are not thread-safe and the statement does not say they are)",
        "relayed histories: 3 worker threads, one step at a time with a mutex + condition-variable hand-over (no concurrent access to any object); "
        "22 start states (threads that drew 0 / 1 / 63 / 64 / 65 / 300 stamps before); thread assignments enumerated by TLC on the 2 x 3 instance",
        "stamp relays: 2-4 threads, hand-over by an atomic turn counter; happens-before is asserted only along that chain",
    ]
    if replay:
        return do_replay(chk, replay)

    from concurrent.futures import ThreadPoolExecutor
    # 0. far stamps: started first, each history in its own process beside everything else; collected at the end -----
    exe_far = build.build("drv_far_stamps", san="address,undefined", driver_dir="stamps")
    far_hs = far_histories(chk, quick)
    far_pool = ThreadPoolExecutor(max_workers=len(far_hs))
    far_futures = far_start(far_pool, exe_far, far_hs)
    exe_wide = build.build("drv_observers_wide", san="address,undefined", driver_dir="observers")
    wide_pool = ThreadPoolExecutor(max_workers=3)
    wide_future = wide_pool.submit(wide_job, exe_wide, quick)
    relay_future = wide_pool.submit(relay_graph_job)
    cross_future = None
    if not quick:
        # bursts whose values cross 2^31 / 2^32 while 8 threads draw them: the counter is first moved to 20000 below the boundary
        exe_b0 = build.build("drv_stamps", driver_dir="stamps")
        cross_cfgs = [{"threads": 8, "ops": 10000, "seed": rnd.randint(1, 10 ** 6), "shared": 3, "sync": 16, "pre": [1, (1 << 30) - 20000]},
                      {"threads": 8, "ops": 10000, "seed": rnd.randint(1, 10 ** 6), "shared": 3, "sync": 0, "pre": [3, (1 << 30) - 20000]}]
        cross_future = wide_pool.submit(run_bursts, chk, exe_b0, cross_cfgs, "c19-burst-cross", "")

    # 1. design level (independent TLC runs, started together) ---------------------------------------------
    jobs = [
        ("mc", "ObserversMC", "ObserversMC.cfg" if quick else "ObserversMC_thorough.cfg",
         "all histories up to K: polls = declarative reading, independent per observer, orphans silent, nothing dangles"),
        ("mc", "ObserversMech", "ObserversMech.cfg" if quick else "ObserversMech_thorough.cfg",
         "Observer.h mechanism (stamps, list, pointers) refines the contract; no dangling pointer, no use after free"),
        ("neg", "ObserversMech", "ObserversMech_noUnregister.cfg", "~Observer() does not deregister", {"NoDangling", "NoUseAfterFree"}),
        ("neg", "ObserversMech", "ObserversMech_noOrphan.cfg", "~Observable() does not orphan its observers", {"NoDangling", "NoUseAfterFree"}),
        ("mc", "Stamps", "Stamps.cfg", "fetch-and-add: unique, per-thread increasing, copies carry, a draw complete before another begins carries the "
                                       "smaller value (any threads); all interleavings of 3 threads x 3 operations"),
        ("mc", "ObserversRelayMC", "ObserversRelayMC.cfg" if quick else "ObserversRelayMC_thorough.cfg",
         "every assignment of the steps of all histories up to K to 2 threads (start states, unrelated draws): answers = thread-free declarative reading"),
        ("neg", "ObserversRelayMC", "ObserversRelayMC_neg.cfg", "claim: no checked history has creator, notifier and poller on different threads",
         {"NeverCrossThread"}),
        ("mc", "Stamps", "StampsBlock_oldlaws.cfg", "per-thread blocks of values keep Unique / IncreasingPerThread (why those laws alone do not carry the observers)"),
        ("neg", "Stamps", "StampsBlock_hb.cfg", "values handed out from per-thread blocks", {"HappensBeforeOrdered"}),
    ]
    if not quick:
        jobs += [("mc", "Stamps", "Stamps_thorough.cfg", "fetch-and-add, 4 threads x 2 operations"),
                 ("mc", "Stamps", "Stamps_deep.cfg", "fetch-and-add, 2 threads x 6 operations")]
    jobs += [
        ("neg", "Stamps", "StampsSplit_unique.cfg", "counter incremented by load ; store", {"Unique"}),
        ("neg", "Stamps", "StampsSplit_increasing.cfg", "counter incremented by load ; store", {"IncreasingPerThread"}),
        ("mc", "StampCellsMC", "StampCellsMC.cfg" if quick else "StampCellsMC_thorough.cfg",
         "all histories up to K: cell values = declarative reading; fresh is largest; copies carry"),
    ]

    def tlc_job(j):
        return tla.run_tlc(os.path.join(SPEC, j[1] + ".tla"), os.path.join(SPEC, j[2]), workers=4 if j[0] == "mc" else 2, timeout=3000,
                           tag="c19-" + j[2].replace(".cfg", ""))

    design = ThreadPoolExecutor(max_workers=4)       # runs beside the conformance pipeline; collected at the end
    design_futures = [design.submit(tlc_job, j) for j in jobs]

    def collect_design():
        for j, f in zip(jobs, design_futures):
            r = f.result()
            if j[0] == "mc":
                chk.require_model_ok(j[1] + "/" + j[2], r, j[3])
            else:
                negative_control(chk, j[1], j[2], j[4], j[3], r)
        design.shutdown()

    guards = ThreadPoolExecutor(max_workers=3)      # corruption guards run beside the main pipeline; joined at the end
    pending_guards = []

    # 2. observers: spec -> code ------------------------------------------------------------------------
    exe_o = build.build("drv_observers", san="address,undefined")
    budget = 30000 if quick else 700000
    hs, info, ag = adtcheck.gen_histories(chk, SPEC, "Observers", "ObserversGen.cfg", budget, 7,
                                          walks=1500 if quick else 15000, walk_len=40, seed=chk.seed, mutators=MUT_OBS, tag="c19-obs")
    chk.count_actions(hs)
    chk.require_actions(ALL_OBS)
    classes = set((st["a"], st.get("cls")) for h in hs for st in h)
    need = [("Poll", "orphaned"), ("Poll", "notified"), ("Poll", "not-notified"), ("DestroyObservable", "observed"),
            ("DestroyObservable", "unobserved"), ("DestroyObserver", "attached"), ("DestroyObserver", "orphaned"),
            ("CreateObserver", "further"), ("Notify", "observed"), ("Teardown", "attached"), ("Teardown", "detached")]
    missing = [c for c in need if c not in classes]
    if missing:
        raise InfraError("vacuity guard: input classes never generated: %s" % missing)
    chk.cov["generation_Observers"] = info
    nd = adtcheck._nontrivial_distinct(hs, MUT_OBS)
    stages = split_stages(hs, info)
    for variant in OBS_VARIANTS:
        meta = {"variant": variant, "nw": 3}
        tot, n, wall = staged_replay(chk, exe_o, stages, "c19-obs-%s" % variant, API_OBS, meta)
        chk.log("Observer %s: %d histories replayed (%d mismatching) in %.1fs" % (variant, tot, n, wall))
        chk.cov["distinct_nontrivial"] += nd
    chk.add_sample({"kind": "history", "object": "Observable/Observer", "steps": hs[len(hs) // 2]})

    # 3. observers: code -> spec ------------------------------------------------------------------------
    nexec = 20 if quick else 200
    for variant in OBS_VARIANTS:
        acts = [rand_observer_actions(rnd, 250) for _ in range(nexec)]
        meta = {"variant": variant, "nw": TRACE_NW}
        acc, rej, execs = record_validate(chk, exe_o, "ObserversTrace", acts, "c19-obs-%s" % variant, API_OBS, meta)
        chk.cov["evaluations"] += nexec
        if not rej:
            st = performed_stats(execs)
            chk.cov["recorded_Observers_" + variant] = st
            lacking = [a for a in ALL_OBS if st["performed"].get(a, 0) < 3]
            if lacking or st["refused"] < 1:
                raise InfraError("vacuity guard: recorded observer executions performed too few of %s (refused: %d)" % (lacking, st["refused"]))
            if variant == "plain":
                pending_guards.append(guards.submit(corruption_guard_observers, chk, execs, random.Random(chk.seed + 11)))
    chk.add_sample({"kind": "recorded-trace-prefix", "object": "Observable/Observer", "actions": acts[0][:8]})

    # 3b. thread-confined observer groups (threads share only the stamp counter), plain and under TSan -------
    mcfgs = mt_configs(rnd, quick)
    exe_m = build.build("drv_observers_mt", driver_dir="observers")
    acc, rej, mexecs = run_mt(chk, exe_m, mcfgs, "c19-obs-mt", "")
    exe_mt = build.build("drv_observers_mt", backend="Debug", san="thread", driver_dir="observers")
    tm = mcfgs[:2] + mcfgs[-(4 if quick else 20):]
    tm = [{"lists": [l[:800] for l in c["lists"]], "sync": c["sync"]} for c in tm]
    run_mt(chk, exe_mt, tm, "c19-obs-mt-tsan", "thread")
    chk.cov["evaluations"] += len(mcfgs) + len(tm)
    chk.cov["thread_confined_observer_groups"] = {"plain": len(mcfgs), "tsan": len(tm), "threads": sum(len(c["lists"]) for c in mcfgs + tm),
                                                  "polls_true": sum(1 for e in mexecs for x in e if x.get("a") == "Poll" and (x.get("obs") or {}).get("ret") is True)}
    if not rej and chk.cov["thread_confined_observer_groups"]["polls_true"] < 50:
        raise InfraError("vacuity guard: the thread groups hardly saw a notification: %s" % chk.cov["thread_confined_observer_groups"])

    # 3c. relayed histories: every step performed by one of RELAY_NT long-lived threads, hand-over in between -------
    exe_r = build.build("drv_observers_relay", san="address,undefined", driver_dir="observers")
    relay_spec_to_code(chk, exe_r, relay_future, quick)
    relay_code_to_spec(chk, exe_r, rnd, quick)

    # 4. TimeStamp as a value type: spec -> code, code -> spec --------------------------------------------
    exe_c = build.build("drv_stamp_cells", san="address,undefined", driver_dir="stamps")
    hs2, info2, ag2 = adtcheck.gen_histories(chk, SPEC, "StampCells", "StampCellsGen.cfg", budget, 7,
                                             walks=1500 if quick else 15000, walk_len=30, seed=chk.seed + 1, mutators=MUT_TS, tag="c19-cells")
    chk.count_actions(hs2)
    chk.require_actions(ALL_TS)
    chk.cov["generation_StampCells"] = info2
    tot, n, wall = staged_replay(chk, exe_c, split_stages(hs2, info2), "c19-cells", API_TS, {"nc": 3})
    chk.log("TimeStamp cells: %d histories replayed (%d mismatching) in %.1fs" % (tot, n, wall))
    chk.cov["distinct_nontrivial"] += adtcheck._nontrivial_distinct(hs2, MUT_TS)
    chk.add_sample({"kind": "history", "object": "TimeStamp", "steps": hs2[len(hs2) // 3]})
    acts = [rand_stamp_actions(rnd, 250) for _ in range(nexec)]
    acc, rej, execs = record_validate(chk, exe_c, "StampCellsTrace", acts, "c19-cells", API_TS, {"nc": TRACE_NC})
    chk.cov["evaluations"] += nexec
    if not rej:
        st = performed_stats(execs)
        chk.cov["recorded_StampCells"] = st
        lacking = [a for a in ALL_TS if st["performed"].get(a, 0) < 3]
        if lacking or st["refused"] < 1:
            raise InfraError("vacuity guard: recorded TimeStamp executions performed too few of %s (refused: %d)" % (lacking, st["refused"]))
        pending_guards.append(guards.submit(corruption_guard_cells, chk, execs, random.Random(chk.seed + 12)))

    # 5. TimeStamp under concurrency ----------------------------------------------------------------------
    cfgs = burst_configs(rnd, quick)
    exe_b = build.build("drv_stamps", driver_dir="stamps")
    execs, stderr, wall = run_bursts(chk, exe_b, cfgs, "c19-burst", "")
    chk.log("concurrent bursts: %d executed in %.1fs" % (len(cfgs), wall))
    acc, rej = validate_bursts(chk, execs, cfgs, "c19-burst", "", stderr)
    sw = [interleaving(e) for e in execs]
    chk.cov["concurrent_bursts"] = {"plain": len(cfgs), "events": sum(len(e) for e in execs),
                                    "thread_switches_in_value_order": sum(s for s, _ in sw),
                                    "bursts_with_interleaved_threads": sum(1 for s, t in sw if t >= 2 and s >= t)}
    if not rej:
        if chk.cov["concurrent_bursts"]["thread_switches_in_value_order"] < 20:
            raise InfraError("vacuity guard: the threads of the bursts did not interleave (%s)" % chk.cov["concurrent_bursts"])
        pending_guards.append(guards.submit(burst_corruption_guard, chk, execs, random.Random(chk.seed + 13)))
    big = max(execs, key=len)
    chk.add_sample({"kind": "burst", "config": cfgs[execs.index(big)], "events_sorted_by_value": big[:6] + big[-1:]})
    exe_t = build.build("drv_stamps", backend="Debug", san="thread", driver_dir="stamps")
    tcfgs = [dict(c, ops=min(c["ops"], 3000 if quick else 20000)) for c in cfgs[:3] + cfgs[-(8 if quick else 60):]]
    execs_t, stderr_t, wall = run_bursts(chk, exe_t, tcfgs, "c19-burst-tsan", "thread")
    chk.log("concurrent bursts under TSan: %d executed in %.1fs" % (len(tcfgs), wall))
    validate_bursts(chk, execs_t, tcfgs, "c19-burst-tsan", "thread", stderr_t)
    chk.cov["concurrent_bursts"]["tsan"] = len(tcfgs)
    chk.cov["concurrent_bursts"]["events"] += sum(len(e) for e in execs_t)
    chk.cov["evaluations"] += len(cfgs) + len(tcfgs)
    stamp_relays(chk, exe_b, exe_t, rnd, quick)
    if cross_future is not None:
        cexecs, cstderr, cwall = cross_future.result()
        chk.log("bursts crossing 2^31 / 2^32: %d executed in %.1fs" % (len(cexecs), cwall))
        acc, rej = validate_bursts(chk, cexecs, cross_cfgs, "c19-burst-cross", "", cstderr)
        crossed = []
        for e in cexecs:
            his = sorted({x["v"][0] for x in e if x.get("e") == "Fresh"})
            crossed.append(his)
        chk.cov["concurrent_bursts"]["crossing"] = {"bursts": len(cexecs), "high_limbs_seen": crossed}
        if not rej and not (len(crossed) == 2 and {1, 2} <= set(crossed[0]) and {3, 4} <= set(crossed[1])):
            raise InfraError("vacuity guard: the crossing bursts did not cross 2^31 / 2^32: high limbs %s" % crossed)
        chk.cov["evaluations"] += len(cexecs)
    wide_collect(chk, wide_future)
    wide_pool.shutdown()
    far_collect(chk, far_hs, far_futures)
    far_pool.shutdown()
    collect_design()
    for g in pending_guards:
        g.result()                                   # re-raises an InfraError of a guard
    guards.shutdown()
    chk.cov["rule"] = ("histories = paths of TLC's complete state graphs of the bounded instances (all paths up to the budgeted length, one shortest "
                       "path per transition, seeded random walks); non-trivial = contains a notification / poll / destruction (observers) or a "
                       "renewal / copy / move / destruction (stamps); distinct = distinct (action,argument) sequences, observers counted per "
                       "object variant; plus recorded random executions, concurrent bursts, thread groups, far-stamp and wide histories, each counted once "
                       "in evaluations (far / wide histories also once in distinct_nontrivial)")


def do_replay(chk, path):
    rep = json.load(open(path))
    kind = rep["kind"]
    is_obs = rep.get("sig_prefix") == API_OBS
    if kind == "history" and str(rep.get("sig_prefix", "")).startswith(API_FAR):
        from concurrent.futures import ThreadPoolExecutor
        exe = build.build("drv_far_stamps", san="address,undefined", driver_dir="stamps")
        pool = ThreadPoolExecutor(max_workers=1)
        far_collect(chk, [rep["history"]], far_start(pool, exe, [rep["history"]]), tag="replay")
        pool.shutdown()
    elif kind == "history" and rep.get("sig_prefix") == API_RELAY:
        exe = build.build("drv_observers_relay", san="address,undefined", driver_dir="observers")
        relay_replay(chk, exe, [rep["history"]], "replay", rep.get("meta"))
    elif kind == "trace" and rep.get("sig_prefix") == API_RELAY:
        exe = build.build("drv_observers_relay", san="address,undefined", driver_dir="observers")
        record_validate(chk, exe, rep["module"], [rep["actions"]], "replay", API_RELAY, rep.get("meta"), isolate=1, keep=("by",))
    elif kind == "relay":
        san = rep.get("san", "")
        # the recorded chain is the evidence: it is validated again; then the plan is run again
        validate_relays(chk, [rep["events"] + [{"e": "End", "draws": -1}]], [rep["plan"]], "replay-recorded", san)
        exe = build.build("drv_stamps", backend="Debug", san="thread", driver_dir="stamps") if san == "thread" \
            else build.build("drv_stamps", driver_dir="stamps")
        execs, stderr, wall = run_relays(chk, exe, [rep["plan"]], "replay-relay", san)
        validate_relays(chk, execs, [rep["plan"]], "replay-relay", san, stderr)
    elif kind == "history" and rep.get("sig_prefix") == API_WIDE:
        exe = build.build("drv_observers_wide", san="address,undefined", driver_dir="observers")
        adtcheck.replay(chk, exe, [rep["history"]], "replay", API_WIDE, isolate=0, timeout=3000)
    elif kind == "threads":
        san = rep.get("san", "")
        exe = build.build("drv_observers_mt", backend="Debug", san="thread", driver_dir="observers") if san == "thread" \
            else build.build("drv_observers_mt", driver_dir="observers")
        # the recorded per-thread history is the evidence: it is validated again; then the group is run again
        acc, rej, _ = trace.validate(os.path.join(SPEC, "ObserversTrace.tla"), os.path.join(SPEC, "ObserversTrace.cfg"), [rep["events"]], "replay-recorded")
        for rj in rej:
            chk.violation(sig_of(API_MT, {"action": rj["event"].get("a"), "cls": "san=%s" % (san or "none"), "field": "trace-rejected"}),
                          "%s: recorded per-thread history rejected again at event %d" % (API_MT, rj["line"]), rep)
        run_mt(chk, exe, [rep["config"]], "replay-mt", san)
    elif kind == "history":
        if is_obs:
            exe = build.build("drv_observers", san="address,undefined")
        else:
            exe = build.build("drv_stamp_cells", san="address,undefined", driver_dir="stamps")
        adtcheck.replay(chk, exe, [rep["history"]], "replay", rep["sig_prefix"], isolate=1, meta=rep.get("meta"))
    elif kind == "trace":
        if is_obs:
            exe = build.build("drv_observers", san="address,undefined")
        else:
            exe = build.build("drv_stamp_cells", san="address,undefined", driver_dir="stamps")
        record_validate(chk, exe, rep["module"], [rep["actions"]], "replay", rep["sig_prefix"], rep.get("meta"), isolate=1)
    elif kind == "burst":
        # a concurrent execution is itself the evidence: the recorded excerpt is validated again, then the configuration is run again
        san = rep.get("san", "")
        validate_bursts(chk, [rep["events_near_rejection"]], [rep["config"]], "replay-recorded", san)
        exe = build.build("drv_stamps", backend="Debug", san="thread", driver_dir="stamps") if san == "thread" \
            else build.build("drv_stamps", driver_dir="stamps")
        execs, stderr, wall = run_bursts(chk, exe, [rep["config"]], "replay-burst", san)
        validate_bursts(chk, execs, [rep["config"]], "replay-burst", san, stderr)
    else:
        raise InfraError("unknown replay artefact kind %r" % kind)
    chk.cov["evaluations"] = max(chk.cov["evaluations"], 1)
