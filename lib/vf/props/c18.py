"""C18 - String, URL, path and argument helpers satisfy their decomposition laws."""
import json, os, random, time
from .. import tla, build, adt, adtcheck, funcheck
from ..tla import VERIF

LEVEL = "exploration"
LEVEL_TEXT = ("TLA+ reference definitions written from the statement (maximal delimiter-free runs, longest common prefix, pseudo-URL "
              "syntax with a reference parser, path = directory + last component + last-dot extension, a declarative reading of one "
              "argument-parser pass, an admissibility law for SI printing); TLC first checks the laws of these definitions on the whole "
              "bounded domain (and, for the ArgumentList state machine, invariants over every reachable state), then every input of "
              "the bounded domains is executed on the real functions: results defined by a value are compared with the value TLC computed, "
              "results defined by a law (SI printing, trailing separators, hidden files) and seeded random long inputs are sent back to TLC, "
              "which accepts or rejects each recorded observation; ArgumentList / removeArgs executions are replayed from TLC's state graph "
              "and recorded random executions are validated against the trace specification")
LEVEL_NOTE = ("exhaustive over: all strings of length <= 7 (quick 6) over {a, b, delimiter(s)} for split (both forms) and tokenize, all pairs "
              "of strings of length <= 5 (quick 4) over {a, b} for prefixes, all URLs from <= 3 (quick 2) parameters over 3 types x 3 file "
              "names x 2 names x 3 values, all paths of length <= 7 (quick 6) over {a, '.', '/'}, all constructor arguments of length <= 5 over {a, '.', '/', '\\\\'} for both constructors, all argument vectors of length <= 5 "
              "(quick 4) over 3 symbols with all 64 parsers, 13 mantissas x every decade 1e-15..1e21 x both signs and +/-0 for prettyDouble, 241 counts from 0 to SIZE_MAX (incl. 2^k +- 1 for k = 7..16, 24, 31, 32, 53, 63) for prettyNumber; beyond these only boundary "
              "families (block-defined strings, tokens, path components and common prefixes of 15..17 / 255..257 / 4095..4097 / 65535..65537 "
              "characters, that many tokens / URL parameters, argument vectors and removal counts around 256 / 1024 / 4096 / 65536, every byte value "
              "0..255 first and last in every field, two FileName / PseudoURL objects interleaved with aliasing operands) and seeded random "
              "sampling.  Not covered (not in the statement): split(keepDelim=true), lowerCase/upperCase, FileName::operator-/canonical, "
              "whether operator+ keeps or collapses a separator run at the joint (judged up to collapsing), a const char* right operand of operator+ "
              "(ambiguous between the two overloads, does not compile), magnitudes outside 1e-15..1e21, NaN / infinity, subnormal / huge doubles, strings of 2^31 characters and more, "
              "Windows as the native separator.  Trusted: TLC, the "
              "driver's projection of printed text to (decimals, mantissa, suffix), strtod for m*10^e, g++/libstdc++")
TECHNIQUE = ("TLA+ functional specifications with laws checked by TLC (ASSUME over bounded domains) + exhaustive case replay on the real "
             "code; TLC validation of recorded observations against law predicates; ADT specification with state-graph histories and "
             "trace validation for ArgumentList")
SPEC = os.path.join(VERIF, "spec", "utility")

# action -> API path used in signatures
API = {
    "SplitChar": "StringManip", "SplitSet": "StringManip", "Lcp": "StringManip", "BeginsWith": "StringManip",
    "Tokenize": "PseudoURL", "UrlParse": "PseudoURL", "TokenizeRep": "PseudoURL", "TokenizeReuse": "PseudoURL", "UrlParseRep": "PseudoURL",
    "SplitCharRep": "StringManip", "SplitSetRep": "StringManip",
    "FnSplit": "FileName", "FnNameExt": "FileName", "FnDropExt": "FileName", "FnSetExt": "FileName", "FnAddExt": "FileName",
    "FnPlus": "FileName", "FnRecompose": "FileName", "PrettyDouble": "common", "PrettyNumber": "common",
}
STRING_ARGS = {"s", "d", "x", "y", "o", "u", "t", "f", "s1", "s2"}
ADT_MUT = {"Remove", "ParseAndRemove", "RemoveMod"}
FO_MUT = {"FoNew", "FoAssign", "FoPlus", "FoSetExt", "FoDropExt"}
PU_MUT = {"PuNew", "PuCopy", "PuDrop"}
NOEXP = {"ran": True}


def sort_keys(v):
    """alphabetical field order everywhere, so that the first mismatching field (part of the signature) does not depend on the
    order in which TLC happened to print a record; saved replay artefacts are written with sorted keys as well"""
    return json.loads(json.dumps(v, sort_keys=True))


def chars(v):
    """format conversion: JSON string -> list of one-character strings (what the TLA+ modules work on)"""
    return list(v) if isinstance(v, str) else v


def arg_chars(arg):
    out = {}
    for k, v in arg.items():
        if k in STRING_ARGS:
            out[k] = chars(v)
        elif k == "q":
            out[k] = [chars(x) for x in v]
        elif k == "ps":
            out[k] = [[chars(p[0]), chars(p[1])] for p in v]
        else:
            out[k] = v
    return out


def unchars(v):
    """for messages only: lists of one-character strings back to strings"""
    if isinstance(v, list):
        if v and all(isinstance(x, str) and len(x) == 1 for x in v):
            return "".join(v)
        if not v:
            return ""
        return [unchars(x) for x in v]
    if isinstance(v, dict):
        return {k: unchars(x) for k, x in v.items()}
    return v


# ---------------------------------------------------------------------------
# spec -> code: replay of TLC-generated cases, grouped by API for the signatures
# ---------------------------------------------------------------------------
def replay_cases(chk, exe, cases, tag):
    groups = {}
    for c in cases:
        groups.setdefault(API[c["a"]], []).append(c)
    total = 0
    for api in sorted(groups):
        hs = [[c] for c in groups[api]]
        chk.count_actions(hs)
        n, wall = adtcheck.replay(chk, exe, hs, "%s-%s" % (tag, api), api, isolate=1000)
        chk.log("%s: %d cases replayed on the real code (%d mismatching) in %.1fs" % (api, len(hs), n, wall))
        total += n
    return total


def nontrivial_distinct(cases):
    seen = set()
    for c in cases:
        if c.get("exp") == NOEXP:
            continue
        arg = c.get("arg", {})
        if any(isinstance(arg.get(k), str) and arg.get(k) == "" for k in ("s", "x", "u")) and c["a"] not in ("FnSetExt", "FnAddExt"):
            continue      # empty input string: trivial
        seen.add(json.dumps([c["a"], arg], sort_keys=True))
    return len(seen)


# ---------------------------------------------------------------------------
# code -> spec: the driver's observations are judged by TLC (C18Validate)
# ---------------------------------------------------------------------------
def validate_lines(chk, exe, lines, tag, timeout=900):
    """lines: [{"a":..., "arg": {... strings as char lists ...}}].  Runs them on the real code, lets TLC judge every
    observation.  Returns number of rejected lines."""
    if not lines:
        return 0
    hs = [[ln] for ln in lines]
    res, rc, stderr, wall = adt.run_driver(exe, hs, tag + "-rec", meta={"chars": True}, isolate=1000)
    d = os.path.join(tla.WORK, "traces", tag)
    os.makedirs(d, exist_ok=True)
    obsp = os.path.join(d, "obs-%d.ndjson" % os.getpid())
    outp = os.path.join(d, "verdict-%d.ndjson" % os.getpid())
    died = set()
    with open(obsp, "w") as f:
        for i, ln in enumerate(lines):
            r = res.get(i)
            if r is not None and ("crash" in r or "timeout" in r):
                # the real code died on this input: that is the observation
                kind = "crash" if "crash" in r else "timeout"
                chk.violation("%s/%s()/%s" % (API[ln["a"]], ln["a"], kind),
                              "%s: %s(%s): %s %s" % (API[ln["a"]], ln["a"], json.dumps(unchars(ln["arg"])), kind, json.dumps(r[kind])),
                              {"kind": "law", "property": chk.pid, "tag": tag, "line": ln, "observed": r})
                r = {"obs": [{"unexpected_exception": kind}]}     # placeholder line; already reported above
                res[i] = r
                died.add(i)
            if r is None or "obs" not in r:
                raise tla.InfraError("driver %s gave no observation for recorded line %d (rc=%s): %s" % (exe, i, rc, stderr[-1500:]))
            f.write(json.dumps({"id": i, "a": ln["a"], "arg": ln["arg"], "obs": r["obs"][0]}, separators=(",", ":")) + "\n")
    if os.path.exists(outp):
        os.remove(outp)
    r = tla.run_tlc(os.path.join(SPEC, "C18Validate.tla"), os.path.join(SPEC, "C18Validate.cfg"), workers=1, timeout=timeout,
                    env={"OBS": obsp, "OUT": outp}, tag="validate-" + tag)
    if not r.ok or not os.path.exists(outp):
        raise tla.InfraError("C18Validate failed on %s: violated=%s error=%s\n%s" % (tag, r.violated, r.error, r.out[-2500:]))
    verdicts = [json.loads(x) for x in open(outp) if x.strip()]
    if len(verdicts) != len(lines):
        raise tla.InfraError("C18Validate returned %d verdicts for %d lines" % (len(verdicts), len(lines)))
    rejected = 0
    judged = chk.cov.setdefault("si_judged", {})
    for v in verdicts:
        a_ = lines[v["id"]]["a"]
        if a_.startswith("Pretty") and v["id"] not in died:
            k_ = "%s(%s)" % (a_, v.get("cls") or "")          # class computed by TLC: suffix range of |x| and sign
            judged[k_] = judged.get(k_, 0) + 1
    for v in verdicts:
        if v["ok"] or v["id"] in died:
            continue
        ln = lines[v["id"]]
        obs = res[v["id"]]["obs"][0]
        if v["field"] in ("bad-input", "unknown-action"):
            raise tla.InfraError("orchestrator produced an input outside the specification's domain: %s" % json.dumps(ln)[:400])
        rejected += 1
        sig = "%s/%s(%s)/%s" % (API[ln["a"]], ln["a"], v.get("cls") or "", v["field"])
        what = "%s: %s(%s): TLC rejects the observation at %s: observed %s; specification: %s" % (
            API[ln["a"]], ln["a"], json.dumps(unchars(ln["arg"])), v["field"], json.dumps(unchars(obs))[:300], json.dumps(unchars(v.get("exp")))[:300])
        chk.violation(sig, what, {"kind": "law", "property": chk.pid, "tag": tag, "line": ln, "observed": obs, "verdict": v})
    for p in (obsp, outp):
        try:
            os.remove(p)
        except OSError:
            pass
    chk.cov["traces_validated_against_impl"] += len(lines)
    chk.cov["models"].append({"module": "C18Validate/" + tag, "lines_judged": len(lines), "rejected": rejected, "wall_s": round(r.wall, 1),
                              "what": "recorded observations of the real code judged by the specification"})
    chk.cov.setdefault("observations_validated_by_tlc", 0)
    chk.cov["observations_validated_by_tlc"] += len(lines)
    chk.cov["evaluations"] += len(lines)
    chk.count_actions(hs)
    chk.log("TLC C18Validate %s: %d recorded observations judged, %d rejected (driver %.1fs, TLC %.1fs)" % (tag, len(lines), rejected, wall, r.wall))
    return rejected


# ---------------------------------------------------------------------------
# seeded random long inputs (inputs only - never expectations)
# ---------------------------------------------------------------------------
def rand_str(rnd, alphabet, lo, hi):
    return "".join(rnd.choice(alphabet) for _ in range(rnd.randint(lo, hi)))


def random_lines(rnd, n):
    lines = []
    for _ in range(n):
        d = rnd.choice([",", ";", ":", " ", "|"])
        lines.append({"a": rnd.choice(["SplitChar", "Tokenize"]), "arg": {"s": rand_str(rnd, "abcxyz01" + d * 4, 0, 40), "d": d}})
        ds = "".join(rnd.sample(",;: |", rnd.randint(1, 3)))
        lines.append({"a": "SplitSet", "arg": {"s": rand_str(rnd, "abcxyz" + ds * 2, 0, 40), "d": ds}})
        p = rand_str(rnd, "ab", 0, 12)
        x, y = p + rand_str(rnd, "abc", 0, 8), p + rand_str(rnd, "abc", 0, 8)
        if rnd.random() < 0.3:
            y = p
        lines.append({"a": "Lcp", "arg": {"x": x, "y": y}})
        lines.append({"a": "BeginsWith", "arg": {"x": x, "y": y}})
        # pseudo URL from random parts; the URL text is re-derived by TLC (Assemble) before anything is judged
        t = rand_str(rnd, "abcpqr", 0, 6)
        f = rand_str(rnd, "abc/._-9", 1, 10)
        while "://" in f or f.endswith(":"):
            f = rand_str(rnd, "abc/._-9", 1, 10)
        names = [rand_str(rnd, "nmk", 1, 3) for _ in range(3)]
        ps = [[rnd.choice(names), rand_str(rnd, "vw01./", 0, 5)] for _ in range(rnd.randint(0, 6))]
        u = (t + "://" if t else "") + f + "".join(":" + p_[0] + "=" + p_[1] for p_ in ps)
        lines.append({"a": "UrlParse", "arg": {"t": t, "f": f, "ps": ps, "u": u, "q": sorted(set(names)) + ["zz"]}})
        # file names
        s = rand_str(rnd, "aab../" + ("\\\\" if rnd.random() < 0.4 else ""), 0, 16) + rnd.choice(["", "", "/", "//", "\\", "\\/", "/\\"])
        op = rnd.choice(["FnSplit", "FnNameExt", "FnDropExt", "FnSetExt", "FnAddExt", "FnPlus", "FnPlus", "FnRecompose"])
        if op == "FnPlus" and rnd.random() < 0.35:
            s = rnd.choice(["", "", "/", "//"])          # empty left operand: "", separators only
        arg = {"s": s}
        if op in ("FnSetExt", "FnAddExt"):
            arg["x"] = rnd.choice(["", ".b", ".tar", "b", ".a.b"])
        if op == "FnPlus":
            arg["o"] = rnd.choice(["a", "b.c", "d/e.f", "a.b/c", ".h", "", "/", "/a", "a/", "//b/c.d//", "..", "file.txt"])
            if s == "" and rnd.random() < 0.5:
                arg["dflt"] = True                       # default-constructed left operand
        lines.append({"a": op, "arg": arg})
        # SI printing: +/- m * 10^e with magnitude inside 1e-15 .. 1e21, sometimes a zero; counts over the whole 64-bit range
        m = rnd.choice([rnd.randint(1, 99999), rnd.randint(1, 99999999), rnd.choice([99994, 99995, 99996, 1, 10, 999, 1000])])
        nd = len(str(m))
        dec = rnd.randint(-15, 20)
        if rnd.random() < 0.03:
            m, nd, dec = 0, 1, 0
        lines.append({"a": "PrettyDouble", "arg": {"neg": rnd.random() < 0.5, "m": m, "e": dec - nd + 1}})
        v = rnd.choice([rnd.getrandbits(rnd.randint(1, 64)), 10 ** rnd.randint(0, 19) + rnd.randint(-1, 1), rnd.randint(0, 2000)])
        v = max(0, min(v, 2 ** 64 - 1))
        lines.append({"a": "PrettyNumber", "arg": {"limbs": [v // 10 ** 18, v // 10 ** 9 % 10 ** 9, v % 10 ** 9]}})
    for ln in lines:
        ln["arg"] = arg_chars(ln["arg"])
    return lines


def rand_arglist_actions(rnd, n):
    syms = "abcdef"
    acts = [{"a": "Construct", "arg": {"v": [rnd.choice(syms) for _ in range(rnd.randint(0, 16))]}}]
    for _ in range(n - 1):
        x = rnd.random()
        if x < 0.12:
            acts.append({"a": "Construct", "arg": {"v": [rnd.choice(syms) for _ in range(rnd.randint(0, 16))]}})
        elif x < 0.40:
            acts.append({"a": "RemoveMod", "arg": {"w": rnd.randint(0, 40), "h": rnd.choice([0, 1, 1, 2, 3, rnd.randint(0, 40)])}})
        elif x < 0.60:
            acts.append({"a": "GetMod", "arg": {"i": rnd.randint(0, 40)}})
        else:
            cnt = {s: rnd.choice([0, 0, 0, 1, 2, 3, 4]) for s in syms}
            acts.append({"a": "ParseAndRemove", "arg": {"cnt": cnt}})
    return acts


# ---------------------------------------------------------------------------
def run(chk, replay=None):
    quick = chk.tier == "quick"
    rnd = random.Random(chk.seed)
    chk.assumptions += [
        "TLC evaluates the laws and emits the cases over the complete bounded domains named in LEVEL_NOTE",
        "a string of the specification (sequence of one-character strings) and the std::string with the same characters are identified",
        "FileName: laws are stated about str(); for arguments without trailing separator str() is the argument; the hidden-file and '..' "
        "last components may decompose either as name='' ext=rest or as name=base ext='' (the statement does not choose)",
        "FileName::operator+ (FileName and std::string overloads) follows one rule: an empty left name (\"\", default-constructed, separators "
        "only) returns the right operand, otherwise this/other; FileName(path()) + base() must name the file again (equality up to "
        "collapsing separator runs and trailing separators; a leading separator is significant)",
        "SI printing: |mantissa| in [1, 1000] with both ends admitted, one unit of the last printed digit plus 2^-18 relative tolerance; the printed "
        "sign is the sign of a non-zero input; zero prints a zero mantissa (its sign and suffix are not constrained); 64-bit counts are "
        "judged on their nine leading digits",
        "ArgumentList parsers are content-keyed (symbol -> count, clipped to the remaining arguments); recorded executions use 6 symbols, "
        "vectors up to 16 arguments",
    ]
    if replay:
        return do_replay(chk, replay)
    exe = build.build("drv_strings")
    sfx = "_quick" if quick else ""
    chk.cov["exhaustive"] = True      # the bounded domains of LEVEL_NOTE are enumerated completely by TLC

    # the ArgumentList model check is independent of everything else: it runs beside the functional phase
    import threading
    mc = {}

    def run_mc():
        try:
            mc["r"] = tla.run_tlc(os.path.join(SPEC, "ArgListMC.tla"), os.path.join(SPEC, "ArgListMC.cfg" if quick else "ArgListMC_thorough.cfg"),
                                  workers=8, timeout=2400, tag="c18-arglist-mc")
        except Exception as ex:        # re-raised in the main thread
            mc["ex"] = ex
    th = threading.Thread(target=run_mc)
    th.start()

    # ---- 1. functional parts: laws (TLC) + exhaustive cases (spec -> code) --------------------------------
    all_cases = []
    for module, cfg, what in [
        ("StringsGen", "StringsGen%s.cfg" % sfx, "RunLaws / PrefixLaws on every string, then one case per input"),
        ("PseudoUrlGen", "PseudoUrlGen%s.cfg" % sfx, "Parse(Assemble(parts)) = parts, last duplicate wins"),
        ("FileNamesGen", "FileNamesGen%s.cfg" % sfx, "FileLaws on every path, component-list reading = last-separator reading"),
        ("FileCtorGen", "FileCtorGen.cfg", "Normalise: '\\\\' and '/' become the separator, trailing ones dropped except the root; both constructors"),
        ("SiPrintGen", "SiPrintGen.cfg", "SiLaws: the admissibility law is satisfiable and selective for every input"),
        ("BigStringsGen", "BigStringsGen%s.cfg" % sfx, "block algebra = character-level definitions on all small block lists; long strings / many tokens"),
        ("ByteSweepGen", "ByteSweepGen%s.cfg" % sfx, "every byte value first and last in every field (placeholder X)"),
    ]:
        cases = sort_keys(funcheck.gen_cases(chk, SPEC, module, cfg, "c18-" + module, workers=1, what=what))
        all_cases += cases
    replay_cases(chk, exe, all_cases, "c18")
    chk.require_actions(["SplitChar", "SplitSet", "Tokenize", "Lcp", "BeginsWith", "UrlParse", "FnSplit", "FnNameExt", "FnDropExt",
                         "FnSetExt", "FnAddExt", "FnPlus", "FnRecompose", "PrettyDouble", "PrettyNumber",
                         "TokenizeReuse", "SplitCharRep", "SplitSetRep", "TokenizeRep", "UrlParseRep"])
    # vacuity: the boundary families of the audit are present (classes computed by TLC)
    top = "~4096" if quick else "~65536"
    bguard = {
        "long_strings_len" + top: sum(1 for c in all_cases if c.get("cls") == "len" + top),
        "small_string_boundary_len~16": sum(1 for c in all_cases if c.get("cls") == "len~16"),
        "long_strings_len~256": sum(1 for c in all_cases if c.get("cls") == "len~256"),
        "many_tokens" + top: sum(1 for c in all_cases if c.get("cls") == "ntok" + top),
        "many_params" + top: sum(1 for c in all_cases if c.get("cls") == "nparams" + top),
        "params~128": sum(1 for c in all_cases if c.get("cls") == "nparams~128"),
        "params~256": sum(1 for c in all_cases if c.get("cls") == "nparams~256"),
        "byte_nul": sum(1 for c in all_cases if c.get("cls") == "byte=nul"),
        "byte_control": sum(1 for c in all_cases if c.get("cls") == "byte=ctl"),
        "byte_high(>=0x80)": sum(1 for c in all_cases if c.get("cls") == "byte=high"),
        "empty_delimiter_set": sum(1 for c in all_cases if c.get("cls") == "nodelim"),
        "split_default_vs_explicit_keepDelim": sum(1 for c in all_cases if "tokens_explicit" in c["exp"]),
        "filename_eq_ne_stream": sum(1 for c in all_cases if "eq_self" in c["exp"]),
    }
    # construction: names with a trailing / inner backslash and the root in both spellings, for BOTH constructors
    # (an FnSplit case constrains str = std::string constructor and str_c = const char* constructor)
    for k in ("trail-bslash", "inner-bslash", "root-bslash", "root-slash", "trail-slash"):
        for field, ctor in (("str", "string"), ("str_c", "cstr")):
            bguard["ctor_%s_%s" % (ctor, k)] = sum(1 for c in all_cases if c.get("cls") == "ctor=" + k and c["a"] == "FnSplit" and field in c["exp"])
    chk.cov["boundary_guards"] = bguard
    if not all(bguard.values()):
        raise tla.InfraError("vacuity guard: boundary case families missing: %s" % {k: v for k, v in bguard.items() if not v})
    # vacuity: operator+ with an EMPTY left operand, per overload (a case constrains an overload when its result is in exp),
    # and the recomposition of single-component names
    small = [c for c in all_cases if isinstance(c["arg"].get("s"), str) and "byte" not in c["arg"]]     # (not the block / byte families)
    plus = [c for c in small if c["a"] == "FnPlus" and c["arg"]["s"] == ""]
    guard = {
        "plus_empty_left_FileName_overload": sum(1 for c in plus if "res_fn" in c["exp"]),
        "plus_empty_left_string_overload": sum(1 for c in plus if "res_str" in c["exp"]),
        "plus_default_constructed_left": sum(1 for c in plus if c["arg"].get("dflt") and "res_str" in c["exp"]),
        "plus_separator_only_left": sum(1 for c in small if c["a"] == "FnPlus" and c["arg"]["s"] and set(c["arg"]["s"]) == {"/"}),
        "plus_right_empty_or_separator": sum(1 for c in small if c["a"] == "FnPlus" and set(c["arg"]["o"]) <= {"/"}),
        "recompose_single_component": sum(1 for c in all_cases if c["a"] == "FnRecompose" and c.get("cls") == "path=empty" and "res_str" in c["exp"]),
        "setExt_addExt_default_argument": sum(1 for c in all_cases if "res_default" in c["exp"]),
        "constructor_overloads": sum(1 for c in all_cases if "str_c" in c["exp"]),
    }
    chk.cov["filename_guards"] = guard
    if not all(guard.values()):
        raise tla.InfraError("vacuity guard: FileName case classes missing: %s" % {k: v for k, v in guard.items() if not v})
    chk.cov["distinct_nontrivial"] += nontrivial_distinct(all_cases)
    chk.cov["cases_by_action"] = dict(chk.cov["action_counts"])
    for a in ("Tokenize", "UrlParse", "FnNameExt", "SplitSet"):
        smp = next((c for c in all_cases if c["a"] == a and c.get("exp") != NOEXP and (c["a"] == "UrlParse" or (c.get("cls", "").startswith(("mintok=1", "dirdot=1")) and len(c["arg"]["s"]) >= 5))), None)
        if smp:
            chk.add_sample(smp, maxn=8)

    # ---- 2. results specified by a law: every such case goes back to TLC (code -> spec) ---------------------
    law_lines = [{"a": c["a"], "arg": arg_chars(c["arg"])} for c in all_cases if c.get("exp") == NOEXP or c["a"] == "TokenizeReuse"]
    validate_lines(chk, exe, law_lines, "c18-law")
    chk.cov["law_specified_inputs"] = len(law_lines)
    # vacuity: every (suffix range, sign) pair of prettyDouble, every suffix range of prettyNumber and zero was judged
    bands = ["f", "p", "n", "u", "m", "unit", "k", "M", "G", "T", "P", "E"]
    need = ["PrettyDouble(band=%s%s)" % (b, sg) for b in bands for sg in ("", ",neg")] + ["PrettyDouble(zero)", "PrettyNumber(zero)"] \
        + ["PrettyNumber(band=%s)" % b for b in bands[5:]]
    atleast = {"PrettyDouble(zero)": 2, "PrettyNumber(zero)": 1}          # +0 and -0; the count 0
    few = {k: chk.cov["si_judged"].get(k, 0) for k in need if chk.cov["si_judged"].get(k, 0) < atleast.get(k, 6)}
    if few:
        raise tla.InfraError("vacuity guard: SI classes judged too rarely: %s" % few)
    # seeded random long inputs
    rl = random_lines(rnd, 150 if quick else 4000)
    validate_lines(chk, exe, rl, "c18-random")
    chk.cov["distinct_nontrivial"] += len({json.dumps([l["a"], l["arg"]], sort_keys=True) for l in law_lines + rl})
    chk.add_sample({"kind": "recorded-observation-input", "line": unchars(rl[4])}, maxn=8)

    # ---- 3. ArgumentList / removeArgs: ADT ----------------------------------------------------------------
    th.join()
    if "ex" in mc:
        raise mc["ex"]
    chk.require_model_ok("ArgListMC/" + ("ArgListMC.cfg" if quick else "ArgListMC_thorough.cfg"), mc["r"],
                         "list = unconsumed original arguments in order; in-place loop = declarative pass, for every parser in every state")
    hs, info, ag = adtcheck.gen_histories(chk, SPEC, "ArgList", "ArgListGen%s.cfg" % sfx, 30000 if quick else 400000, 4,
                                          walks=2000 if quick else 20000, walk_len=12, seed=chk.seed, mutators=ADT_MUT, tag="c18-arglist")
    hs = sort_keys(hs)
    chk.count_actions(hs)
    chk.require_actions(["Construct", "Get", "Remove", "ParseAndRemove"])
    chk.cov["generation_ArgList"] = info
    for variant, prefix in (("list", "ArgumentList"), ("acav", "removeArgs")):
        n, wall = adtcheck.replay(chk, exe, hs, "c18-arglist-" + variant, prefix, meta={"variant": variant}, isolate=500)
        chk.log("%s: %d histories replayed (%d mismatching) in %.1fs" % (prefix, len(hs), n, wall))
        chk.cov["distinct_nontrivial"] += adtcheck._nontrivial_distinct(hs, ADT_MUT)
    chk.add_sample({"kind": "history", "object": "ArgumentList", "steps": hs[-1]}, maxn=8)
    # boundary histories: formula-defined vectors around 256 / 1024 / 4096 (/ 65536) arguments, a copy taken before the
    # modification, the default argument of remove()
    big = sort_keys(funcheck.gen_cases(chk, SPEC, "ArgListBigGen", "ArgListBigGen%s.cfg" % sfx, "c18-arglist-big", workers=1,
                                       what="iterative parser pass = recursive Kept on all small vectors; big-vector histories"))
    bhs = [c["h"] for c in big]
    chk.count_actions(bhs)
    chk.require_actions(["ConstructRep", "Snapshot", "CheckSnapshot"])
    chk.cov["arglist_big"] = {"histories": len(bhs), "largest_vector": max(st["exp"]["size"] for h in bhs for st in h),
                              "removals_h>=255": sum(1 for h in bhs for st in h if st["a"] == "Remove" and st["arg"]["h"] >= 255),
                              "default_argument_removals": sum(1 for h in bhs + hs for st in h if "items_default" in st.get("exp", {}))}
    if not all(chk.cov["arglist_big"].values()):
        raise tla.InfraError("vacuity guard: %s" % chk.cov["arglist_big"])
    for variant, prefix in (("list", "ArgumentList"), ("acav", "removeArgs")):
        n, wall = adtcheck.replay(chk, exe, bhs, "c18-arglist-big-" + variant, prefix, meta={"variant": variant}, isolate=8, timeout=1800)
        chk.log("%s: %d boundary histories replayed (%d mismatching) in %.1fs" % (prefix, len(bhs), n, wall))
        chk.cov["distinct_nontrivial"] += adtcheck._nontrivial_distinct(bhs, ADT_MUT)
    # several FileName / PseudoURL objects, interleaved, aliasing operands, self-assignment, queries after a throwing one
    for module, cfg, prefix, mut, need in (("FileObjsMC", "FileObjsGen.cfg", "FileName", FO_MUT, ["FoNew", "FoAssign", "FoPlus", "FoSetExt", "FoDropExt"]),
                                           ("UrlObjs", "UrlObjsGen.cfg", "PseudoURL", PU_MUT, ["PuNew", "PuCopy", "PuAsk", "PuDrop"])):
        ohs, oinfo, _ = adtcheck.gen_histories(chk, SPEC, module, cfg, 20000 if quick else 200000, 4,
                                               walks=1000 if quick else 10000, walk_len=16, seed=chk.seed, mutators=mut, tag="c18-" + module)
        ohs = sort_keys(ohs)
        chk.count_actions(ohs)
        chk.require_actions(need)
        chk.cov["generation_" + module] = oinfo
        n, wall = adtcheck.replay(chk, exe, ohs, "c18-" + module, prefix, isolate=500)
        chk.log("%s objects: %d histories replayed (%d mismatching) in %.1fs" % (prefix, len(ohs), n, wall))
        chk.cov["distinct_nontrivial"] += adtcheck._nontrivial_distinct(ohs, mut)
    nexec = 20 if quick else 500
    for variant, prefix in (("list", "ArgumentList"), ("acav", "removeArgs")):
        acts = [rand_arglist_actions(rnd, 60) for _ in range(nexec)]
        chk.count_actions(acts)
        adtcheck.record_and_validate(chk, exe, SPEC, "ArgListTrace", "ArgListTrace.cfg", acts, "c18-arglist-" + variant, prefix,
                                     meta={"variant": variant}, isolate=20)
    chk.require_actions(["RemoveMod", "GetMod"])
    chk.cov["rule"] = ("functional cases: TLC enumerates the complete bounded input domain of each helper (one case per input, expected "
                       "value computed by TLC); a case is non-trivial when its input string is non-empty and the specification constrains "
                       "an observable, distinct = distinct (action, argument); law-specified and random inputs: one recorded observation "
                       "per input, judged by TLC, distinct inputs counted; ArgumentList: histories = paths of TLC's complete state graph "
                       "(all paths up to the budgeted length, one shortest path per transition, seeded random walks), non-trivial = contains "
                       "Remove or ParseAndRemove, counted per variant (ArgumentList object / raw argc-argv with removeArgs)")


def do_replay(chk, path):
    rep = json.load(open(path))
    exe = build.build("drv_strings")
    if rep["kind"] == "history":
        adtcheck.replay(chk, exe, [rep["history"]], "replay", rep["sig_prefix"], meta=rep.get("meta"), isolate=1)
    elif rep["kind"] == "law":
        validate_lines(chk, exe, [rep["line"]], "replay")
    else:
        adtcheck.record_and_validate(chk, exe, SPEC, "ArgListTrace", "ArgListTrace.cfg", [rep["actions"]], "replay", rep["sig_prefix"],
                                     meta=rep.get("meta"), isolate=1)
    chk.cov["evaluations"] = max(chk.cov["evaluations"], 1)
