"""C09 - Optional and Any behave as value types for every payload type and history."""
import glob, json, os, random, time
from collections import deque
from concurrent.futures import ThreadPoolExecutor
from .. import tla, build, adt, adtcheck, trace, funcheck
from ..core import sig_of
from ..tla import VERIF

LEVEL = "model_checking"
LEVEL_TEXT = ("TLC checks on bounded instances that the operational wrapper specification (slots holding Optional<T>, Optional<U>, Any; "
              "states none/empty/engaged/moved; payload-storage lifetime ghost) agrees with the declarative reading of the property after "
              "every history of operations (a wrapper holds a value exactly when the last operation that touched it gave it one, through "
              "chains of copies/moves/conversions), that copies are independent, and that the reference lifetime protocol is legal and "
              "conserves constructions = destructions (two negative-control models are rejected); every path of the specification's complete "
              "state graphs up to a budgeted length, one path per transition and seeded random walks, each closed by a teardown, are replayed "
              "on real Optional/Any objects living in raw aligned slots for six payload types (trivial, 8-aligned, std::string, "
              "std::vector<int>, alignas(32), lifetime-instrumented) under ASan+UBSan with all wrappers observed after every step; 200-step "
              "random walks over a larger universe (6 wrappers, 3 values) are executed and the recorded observations and payload lifetime "
              "events are validated by TLC against the trace specification; payload operations that throw (poisoned payload objects: any "
              "construction or assignment taking their value throws) are part of the model-checked histories, of three further "
              "generation instances replayed on the instrumented payload and of recorded walks, with has_value() = live payload objects "
              "checked after every step; getEnvVar<T> cases from a functional table")
LEVEL_NOTE = ("bounded: exhaustive parts use 3 Optional<T> | 2 Optional<T> + 1 Optional<U> | 2 Any slots with 2 payload values; "
              "observables of a moved-from wrapper and results of comparing / printing wrappers that are not both engaged are unconstrained "
              "(only 'returns normally'); payload lifetime events are observed with the instrumented payload type only (other payloads: "
              "sanitizers); trusted: TLC, the driver's injective monotone mapping of model values to payloads, the address registry of the "
              "instrumented payload, ASan/UBSan, g++/libstdc++")
TECHNIQUE = ("TLA+ ADT specification with lifetime ghost + TLC (invariants, action properties, negative controls); state-graph histories "
             "replayed on the real objects under ASan/UBSan in forked children; TLC trace validation of recorded random executions "
             "including payload lifetime events")
SPEC = os.path.join(VERIF, "spec", "utility")
DRV = "drv_value_box"
SAN = "address,undefined"

VARIANTS = ["tracked", "string", "int", "vector", "double", "over"]
TRACKED = {"tracked"}
INSTANCES = {   # name -> (cfg, (nt, nu, na), signature prefix)
    "OptA": ("ValueBoxGenOptA.cfg", (3, 0, 0), "Optional"),
    "OptB": ("ValueBoxGenOptB.cfg", (2, 1, 0), "Optional"),
    "Any": ("ValueBoxGenAny.cfg", (0, 0, 2), "Any"),
    "Probe": ("ValueBoxGenProbe.cfg", (1, 0, 0), "Optional"),
    "Full": ("ValueBoxGenFull.cfg", (3, 1, 0), "Optional"),
    # histories with payload operations that throw (lifetime-instrumented payload only)
    "ThrowA": ("ValueBoxGenThrowA.cfg", (2, 0, 0), "Optional"),
    "ThrowB": ("ValueBoxGenThrowB.cfg", (1, 1, 0), "Optional"),
    "ThrowAny": ("ValueBoxGenThrowAny.cfg", (0, 0, 2), "Any"),
}
THROWING = {"ThrowA", "ThrowB", "ThrowAny"}
MUTATORS = {"MakeOptional", "Poison", "AnyPoison", "ValueCtor", "AssignValue", "Emplace", "Mutate", "AnyValueCtor", "AnyAssignValue", "AnySet", "DefaultCtor", "ResetValue",
            "AnyDefaultCtor", "Destroy", "AnyDestroy", "MoveCtor", "ConvMoveCtor", "MoveAssign", "ConvMoveAssign", "AnyMoveCtor",
            "AnyMoveAssign", "CopyCtor", "ConvCopyCtor", "CopyAssign", "ConvCopyAssign", "AnyCopyCtor", "AnyCopyAssign"}
# actions that reach every none/empty/engaged state; shortest paths through them first, so that a defect in a
# copy / move path does not hide the transitions behind it (path selection only)
BASIC = {"DefaultCtor", "ValueCtor", "Emplace", "ResetValue", "Destroy", "AnyDefaultCtor", "AnyValueCtor", "AnyAssignValue", "AnyDestroy"}
REQUIRED_OPT = ["MakeOptional", "Poison", "AnyPoison", "DefaultCtor", "ValueCtor", "CopyCtor", "MoveCtor", "ConvCopyCtor", "ConvMoveCtor", "AssignValue", "CopyAssign", "MoveAssign",
                "ConvCopyAssign", "ConvMoveAssign", "Emplace", "ResetValue", "Destroy", "Mutate", "ValueOr", "Observe", "Compare", "Layout",
                "PackedUse", "Teardown"]
REQUIRED_ANY = ["AnyDefaultCtor", "AnyValueCtor", "AnyCopyCtor", "AnyMoveCtor", "AnyAssignValue", "AnyCopyAssign", "AnyMoveAssign",
                "AnyDestroy", "AnyGet", "AnySet", "AnyObserve", "AnyEquals", "AnyToString"]
# argument classes every check run must have exercised (vacuity guard on the classes the statement names)
REQUIRED_CLS = [("CopyAssign", "src=empty,dst=engaged"), ("CopyAssign", "src=engaged,dst=empty"), ("CopyAssign", "src=self,dst=engaged"),
                ("MoveAssign", "src=empty,dst=engaged"), ("ConvCopyAssign", "src=empty,dst=engaged"), ("ConvMoveAssign", "src=engaged,dst=empty"),
                ("MoveCtor", "src=engaged"), ("MoveCtor", "src=empty"), ("ConvMoveCtor", "src=engaged"), ("CopyCtor", "src=empty"),
                ("AssignValue", "dst=moved"), ("Compare", "lhs=empty,rhs=empty"), ("Compare", "lhs=engaged,rhs=engaged"),
                ("AnyEquals", "lhs=empty,rhs=engaged"), ("AnyEquals", "lhs=engaged,rhs=engaged"), ("AnyToString", "a=empty"),
                ("AnyGet", "a=empty"), ("AnyGet", "a=engaged,type=wrong"), ("AnyGet", "a=engaged,type=right"),
                ("AnyCopyAssign", "src=empty,dst=engaged")]
# throwing payload operations: value-taking classes (Emplace / AssignValue / constructors from a value) at least MIN_THROW
# times per run, every other class (they need a poisoned source first) at least MIN_THROW_FROM times
MIN_THROW = 25
MIN_THROW_FROM = 25
REQUIRED_THROW = [("Emplace", "dst=engaged,throws"), ("Emplace", "dst=empty,throws"), ("Emplace", "dst=moved,throws"),
                  ("AssignValue", "dst=engaged,throws"), ("AssignValue", "dst=empty,throws"), ("AssignValue", "dst=moved,throws"),
                  ("ValueCtor", "throws"), ("MakeOptional", "throws"), ("ValueOr", "a=engaged,throws"),
                  ("CopyCtor", "src=engaged,throws"), ("MoveCtor", "src=engaged,throws"),
                  ("ConvCopyCtor", "src=engaged,throws"), ("ConvMoveCtor", "src=engaged,throws"),
                  ("CopyAssign", "src=engaged,dst=engaged,throws"), ("CopyAssign", "src=engaged,dst=empty,throws"),
                  ("MoveAssign", "src=engaged,dst=engaged,throws"), ("MoveAssign", "src=engaged,dst=empty,throws"),
                  ("ConvCopyAssign", "src=engaged,dst=engaged,throws"), ("ConvCopyAssign", "src=engaged,dst=empty,throws"),
                  ("ConvMoveAssign", "src=engaged,dst=engaged,throws"), ("ConvMoveAssign", "src=engaged,dst=empty,throws"),
                  ("AnyValueCtor", "throws"), ("AnyAssignValue", "dst=engaged,throws"), ("AnyAssignValue", "dst=empty,throws"),
                  ("AnyCopyCtor", "src=engaged,throws"), ("AnyMoveCtor", "src=engaged,throws"),
                  ("AnyCopyAssign", "src=engaged,dst=engaged,throws"), ("AnyCopyAssign", "src=engaged,dst=empty,throws"),
                  ("AnyMoveAssign", "src=engaged,dst=engaged,throws")]

FAST_SAN = {"ASAN_OPTIONS": adt.SAN_ENV["ASAN_OPTIONS"] + ":symbolize=0",
            "UBSAN_OPTIONS": "halt_on_error=1:exitcode=96:print_stacktrace=0:symbolize=0"}


# ---------------------------------------------------------------------------
# format conversion of TLC's steps (no values are computed here)
# ---------------------------------------------------------------------------
def _slot(rec, tracked):
    return rec if tracked else {k: v for k, v in rec.items() if k not in ("live", "hl")}


def convert_step(step, tracked):
    """For payload types without lifetime instrumentation, drop the observables only the instrumented
    payload can report (life, live, hl).  (The framework compares the fields of a record in alphabetical order:
    done, dst, life, ret, src, world - the first difference names the finding.)"""
    e = step.get("exp", {})
    out = {}
    for k, v in e.items():
        if k == "life" and not tracked:
            continue
        if k in ("dst", "src"):
            v = _slot(v, tracked)
        elif k == "world":
            v = [_slot(x, tracked) for x in v]
        out[k] = v
    return {"a": step["a"], "arg": step.get("arg"), "cls": step.get("cls"), "exp": out}


class Converter:
    def __init__(self, tracked):
        self.tracked = tracked
        self.cache = {}

    def __call__(self, hs):
        out = []
        for h in hs:
            hh = []
            for st in h:
                c = self.cache.get(id(st))
                if c is None:
                    c = self.cache[id(st)] = convert_step(st, self.tracked)
                hh.append(c)
            out.append(hh)
        return out


# ---------------------------------------------------------------------------
# path selection over TLC's state graph
# ---------------------------------------------------------------------------
def final_state(ag, h):
    s = ag.init[0]
    for st in h:
        for step, d in ag.edges.get(s, []):
            if step is st:
                s = d
                break
        else:
            raise tla.InfraError("history does not follow the state graph")
    return s


def close_with_teardown(ag, hs):
    """Every history ends with the specification's Teardown step taken from its final state."""
    td = {}
    for s, es in ag.edges.items():
        for step, d in es:
            if step["a"] == "Teardown":
                td[s] = step
    out = []
    for h in hs:
        if h and h[-1]["a"] == "Teardown":
            out.append(h)
            continue
        s = final_state(ag, h)
        if s not in td:
            raise tla.InfraError("no Teardown transition from a state of the generation graph")
        out.append(h + [td[s]])
    return out


def edge_cover_pref(ag, basic, follow=None):
    """One history per transition; the path to the source state prefers `basic` actions.  Transitions selected
    by `follow` are additionally followed by every possible next transition."""
    parent = {}
    dq = deque()
    for s in ag.init:
        parent[s] = None
        dq.append(s)
    for phase in (0, 1):
        if phase == 1:
            dq.extend(sorted(parent))
        while dq:
            s = dq.popleft()
            for step, d in ag.edges.get(s, []):
                if phase == 0 and step["a"] not in basic:
                    continue
                if d not in parent:
                    parent[d] = (s, step)
                    dq.append(d)

    def path_to(s):
        p = []
        while parent[s] is not None:
            s, step = parent[s]
            p.append(step)
        p.reverse()
        return p

    out = []
    for s in sorted(parent):
        base = path_to(s)
        for step, d in ag.edges.get(s, []):
            out.append(base + [step])
            if follow and follow(step):
                # ... and this transition followed by every transition of the state it leads to
                for step2, d2 in ag.edges.get(d, []):
                    out.append(base + [step, step2])
    if len(parent) != len(ag.states):
        raise tla.InfraError("generation graph has unreachable states")
    return out


def build_graph(spec_tla, cfg, tag, workers=8, timeout=1500):
    """adt.build_graph with the conversion of `last` done once per TLC state instead of once per edge
    (the `last` records of this specification are large)."""
    os.makedirs(os.path.join(tla.WORK, "graphs"), exist_ok=True)
    dot = os.path.join(tla.WORK, "graphs", "%s-%d.dot" % (tag, os.getpid()))
    r = tla.run_tlc(spec_tla, cfg, workers=workers, timeout=timeout, dump_dot=dot, tag=tag)
    if not r.ok:
        raise tla.InfraError("generation model %s failed: violated=%s error=%s\n%s" % (spec_tla, r.violated, r.error, r.out[-2000:]))
    g = tla.parse_dot(dot)
    os.remove(dot)
    ag = adt.AbsGraph()
    node_abs, node_step = {}, {}
    for nid, st in g.nodes.items():
        a = {"st": tla.to_jsonable(st["st"])}
        c = adt._canon(a)
        if c not in ag.index:
            ag.index[c] = len(ag.states)
            ag.states.append(a)
        node_abs[nid] = ag.index[c]
        step = tla.to_jsonable(st["last"])
        node_step[nid] = (adt._canon(step), step)
    for nid in g.init:
        if node_abs[nid] not in ag.init:
            ag.init.append(node_abs[nid])
    seen = set()
    for src, dst, label in g.edges:
        cs, step = node_step[dst]
        key = (node_abs[src], cs)
        if key in seen:
            continue
        seen.add(key)
        ag.edges.setdefault(node_abs[src], []).append((step, node_abs[dst], cs))
        ag.nedges += 1
    for s_ in ag.edges:
        ag.edges[s_].sort(key=lambda e: e[2])
        ag.edges[s_] = [(e[0], e[1]) for e in ag.edges[s_]]
    return ag, r


FROM_POISONED = {"CopyCtor", "MoveCtor", "ConvCopyCtor", "ConvMoveCtor", "CopyAssign", "MoveAssign", "ConvCopyAssign", "ConvMoveAssign",
                 "AnyCopyCtor", "AnyMoveCtor", "AnyCopyAssign", "AnyMoveAssign", "ValueOr"}


def throws_from_poisoned(step):
    return step["a"] in FROM_POISONED and "throws" in (step.get("cls") or "")


def paths_containing(ag, K, pred, cap):
    """All paths of K steps from the initial state that contain a step satisfying `pred` (path selection:
    these steps need a poisoned source first, so short exhaustive enumeration reaches them rarely)."""
    out = []

    def rec(s, path, hit):
        if len(out) >= cap:
            return
        if len(path) == K:
            if hit:
                out.append(list(path))
            return
        for step, d in ag.edges.get(s, []):
            path.append(step)
            rec(d, path, hit or pred(step))
            path.pop()

    for s in ag.init:
        rec(s, [], False)
    return out


def gen_instance(chk, name, budget, walks, walk_len, seed, focus=None):
    cfg, dims, prefix = INSTANCES[name]
    ag, r = build_graph(os.path.join(SPEC, "ValueBox.tla"), os.path.join(SPEC, cfg), tag="c09-" + name)
    chk.add_model("ValueBox/" + cfg, r, "generation instance: %d abstract states, %d abstract transitions" % (len(ag.states), ag.nedges))
    K = 1
    while K < 6 and adt.count_paths(ag, K + 1) <= budget:
        K += 1
    hs = adt.all_paths(ag, K, budget * 2) or []
    cover = edge_cover_pref(ag, BASIC, follow=throws_from_poisoned if focus else None)
    rw = adt.random_walks(ag, walks, walk_len, seed)
    info = {"abstract_states": len(ag.states), "abstract_transitions": ag.nedges, "all_histories_len": K if hs else 0,
            "all_histories": len(hs), "transition_cover": len(cover), "random_walks": len(rw), "walk_len": walk_len}
    extra = []
    if focus and focus > K:
        extra = paths_containing(ag, focus, throws_from_poisoned, 60000)
        info["histories_len_%d_with_throwing_copy_or_move" % focus] = len(extra)
    allh = close_with_teardown(ag, hs + cover + rw + extra)
    return allh, info


# ---------------------------------------------------------------------------
# spec -> code
# ---------------------------------------------------------------------------
def _meta(variant, dims, events=False):
    m = {"variant": variant, "nt": dims[0], "nu": dims[1], "na": dims[2]}
    if events:
        m["events"] = True          # the driver also reports the payload lifetime events of every step (for the trace spec)
    return m


CHUNK = 1200
PAR = [3]                                  # driver processes at a time per payload variant
WATCHDOG = ["--timeout-ms", "120000"]     # per forked batch; nothing in these histories can block, the machine may be busy


def run_chunks(exe, hs, tag, isolate, meta, env):
    """adt.run_driver over chunks of the histories, a few driver processes at a time (small processes fork
    their isolated children faster); results are re-indexed to the positions in `hs`."""
    chunks = [(i, hs[i:i + CHUNK]) for i in range(0, len(hs), CHUNK)] or [(0, [])]

    def run(c):
        off, part = c
        return off, adt.run_driver(exe, part, "%s-%d" % (tag, off), isolate=isolate, meta=meta, env=env, timeout=1500, extra_args=WATCHDOG)

    t0 = time.time()
    with ThreadPoolExecutor(max_workers=PAR[0]) as ex:
        outs = list(ex.map(run, chunks))
    res, rcs, errs = {}, [], []
    for off, (r, rc, stderr, wall) in outs:
        for k, v in r.items():
            v["id"] = k + off
            res[k + off] = v
        if rc != 0:
            rcs.append(rc)
        if stderr:
            errs.append(stderr[-3000:])
    return res, (rcs[0] if rcs else 0), "\n".join(errs)[-6000:], time.time() - t0


BLOCK = 24000


def run_and_compare(exe, hs, tag, meta, fast=True, isolate=100):
    """Perform the histories on the real code and compare with the specification's expectations
    (block-wise, so that the observations of only one block are held in memory)."""
    mms, wall = [], 0.0
    for off in range(0, max(len(hs), 1), BLOCK):
        m, w = _run_block(exe, hs[off:off + BLOCK], "%s-b%d" % (tag, off), meta, fast, isolate)
        for mm in m:
            mm["case"] += off
        mms += m
        wall += w
    return mms, wall


def _run_block(exe, hs, tag, meta, fast, isolate):
    """A crash takes the observations of its whole history with it (the child dies before it reports), so
    the steps before the crash are executed again on their own and compared: the finding is the first
    step whose observables differ from the specification, or the crash if all earlier steps agree."""
    env = FAST_SAN if fast else None
    res, rc, stderr, wall = run_chunks(exe, hs, tag, isolate, meta, env)
    if rc not in (0,) and not res:
        raise tla.InfraError("driver produced nothing (rc=%s): %s" % (rc, stderr[-2000:]))
    mms = adt.compare(hs, res, rc, stderr)
    del res
    crashed = [mm for mm in mms if mm["kind"] in ("crash", "timeout") and mm["step"] > 0]
    if crashed:
        prefixes = [hs[mm["case"]][:mm["step"]] for mm in crashed]
        res2, rc2, stderr2, wall2 = run_chunks(exe, prefixes, tag + "-prefix", isolate, meta, env)
        wall += wall2
        for i, mm in enumerate(crashed):
            r = res2.get(i)
            if r is None or "obs" not in r:
                continue                      # the prefix did not complete on its own either: keep the crash
            sub = adt.compare([prefixes[i]], {0: r}, rc2, "")
            if sub:
                early = sub[0]
                early["case"] = mm["case"]
                early["later"] = {"kind": mm["kind"], "step": mm["step"], "action": mm.get("action")}
                mm.clear()
                mm.update(early)
    for mm in mms:
        if mm["kind"] == "missing":
            raise tla.InfraError("driver stopped without result for case %d (rc=%s): %s" % (mm["case"], rc, stderr[-1500:]))
    return mms, wall


_JOBS = {}


def _job(key):
    exe, raw_hs, tag, meta, fast, tracked = _JOBS[key]
    hs = Converter(tracked)(raw_hs)
    try:
        mms, wall = run_and_compare(exe, hs, tag, meta, fast=fast)
    except tla.InfraError as e:
        return {"infra": str(e)}
    seen = {}
    for mm in mms:                      # keep the (long) sanitizer text once per signature only
        sg = sig_of("", mm)
        if sg in seen:
            mm.pop("stderr", None)
        seen[sg] = True
    return {"mms": mms, "wall": wall}


def replay_variants(chk, exe, raw_hs, name, variants, fast=True):
    """Replay the histories of one generation instance on every payload variant (one forked worker process
    per variant runs the drivers and compares), then report in a fixed order."""
    import multiprocessing
    cfg, dims, prefix = INSTANCES[name]
    _JOBS.clear()
    PAR[0] = max(3, 14 // len(variants))   # inherited by the forked workers
    for v in variants:
        _JOBS[v] = (exe, raw_hs, "c09-%s-%s" % (name, v), _meta(v, dims), fast, v in TRACKED)
    with multiprocessing.get_context("fork").Pool(len(variants)) as pool:
        results = pool.map(_job, variants)
    _JOBS.clear()
    total = 0
    conv = {True: Converter(True), False: Converter(False)}
    for v, r in zip(variants, results):
        if "infra" in r:
            raise tla.InfraError(r["infra"])
        hs = conv[v in TRACKED](raw_hs)
        total += report(chk, hs, r["mms"], prefix, "c09-%s-%s" % (name, v), _meta(v, dims))
        chk.log("%s %s<%s>: %d histories replayed (%d deviating) in %.1fs" % (name, prefix, v, len(hs), len(r["mms"]), r["wall"]))
    return total


def report(chk, hs, mms, prefix, tag, meta):
    for mm in mms:
        h = hs[mm["case"]]
        what = "%s<%s>: step %d %s(%s) [%s]: %s expected %s observed %s; history %s" % (
            prefix, meta["variant"], mm["step"], mm.get("action"), json.dumps(mm.get("arg")), mm.get("cls"), mm["field"],
            json.dumps(mm.get("expected"))[:200], json.dumps(mm.get("observed"))[:200],
            json.dumps([[s["a"], s.get("arg")] for s in h[:mm["step"] + 1]])[:400])
        rep = {"kind": "history", "property": chk.pid, "tag": tag, "sig_prefix": prefix, "meta": meta, "history": h,
               "mismatch": {k: v for k, v in mm.items() if k != "stderr"}}
        if mm.get("stderr"):
            rep["stderr_tail"] = mm["stderr"][-2500:]
        chk.violation(sig_of(prefix, mm), what, rep)
    chk.cov["evaluations"] += len(hs)
    return len(mms)


# ---------------------------------------------------------------------------
# code -> spec
# ---------------------------------------------------------------------------
def sim_walks(chk, n, seed, cfg="ValueBoxSim.cfg"):
    """Random walks of the specification over the larger universe, chosen by TLC's simulator."""
    d = os.path.join(tla.WORK, "cases", "c09-sim")
    os.makedirs(d, exist_ok=True)
    prefix = os.path.join(d, "walk-%d" % os.getpid())
    for f in glob.glob(prefix + "-*.json"):
        os.remove(f)
    r = tla.run_tlc(os.path.join(SPEC, "ValueBoxSim.tla"), os.path.join(SPEC, cfg), workers=1, simulate=n, depth=201,
                    seed=seed, env={"OUT": prefix}, timeout=900, tag="c09-sim")
    if r.violated or r.error:
        raise tla.InfraError("walk generation failed: %s %s\n%s" % (r.violated, r.error, r.out[-1500:]))
    walks = []
    for f in sorted(glob.glob(prefix + "-*.json")):
        walks.append(json.load(open(f)))
        os.remove(f)
    if len(walks) < n:
        raise tla.InfraError("walk generation produced %d of %d walks" % (len(walks), n))
    for w in walks:
        if w[-1]["a"] != "Teardown":
            w.append({"a": "Teardown", "arg": [], "cls": ""})
    return walks


def record(exe, walks, variant, dims, tag, fast=True):
    """Execute the walks on the real code; returns one event list ({a, arg, cls, obs}) per execution."""
    res, rc, stderr, wall = adt.run_driver(exe, walks, tag + "-rec", isolate=1, meta=_meta(variant, dims, True),
                                           env=FAST_SAN if fast else None, timeout=900, extra_args=WATCHDOG)
    # a crash takes the child's observations with it: run the steps before the crash again to have them validated too
    crashed = {i: r for i, r in res.items() if "crash" in r or "timeout" in r}
    pre = {}
    if crashed:
        idx = sorted(crashed)
        prefixes = [walks[i][:max(0, (crashed[i].get("crash") or crashed[i].get("timeout")).get("step", 0))] for i in idx]
        res2, rc2, stderr2, wall2 = adt.run_driver(exe, prefixes, tag + "-prefix", isolate=1, meta=_meta(variant, dims, True),
                                                   env=FAST_SAN if fast else None, timeout=900, extra_args=WATCHDOG)
        for n, i in enumerate(idx):
            if res2.get(n) and "obs" in res2[n]:
                pre[i] = res2[n]["obs"]
    execs = []
    for i, acts in enumerate(walks):
        r = res.get(i)
        if r is None:
            raise tla.InfraError("driver gave no result for recorded execution %d (rc=%s): %s" % (i, rc, stderr[-1500:]))
        if "crash" in r or "timeout" in r:
            kind = "crash" if "crash" in r else "timeout"
            k = r[kind].get("step", 0)
            st = acts[k] if 0 <= k < len(acts) else {"a": None}
            ev = [{"a": a_["a"], "arg": a_.get("arg", []), "cls": a_.get("cls"), "obs": o} for a_, o in zip(acts, pre.get(i, []))]
            ev.append({"a": kind, "arg": st.get("arg"), "during": st.get("a"), "cls": st.get("cls"), "obs": r[kind]})
        else:
            ev = [{"a": st["a"], "arg": st.get("arg", []), "cls": st.get("cls"), "obs": o} for st, o in zip(acts, r["obs"])]
        execs.append(ev)
    return execs


def record_and_validate(chk, exe, walks, variant, dims=(3, 1, 2), tag=None, fast=True):
    tag = tag or "c09-trace-" + variant
    execs = record(exe, walks, variant, dims, tag, fast)
    acc, rej, stats = trace.validate(os.path.join(SPEC, "ValueBoxTrace.tla"), os.path.join(SPEC, "ValueBoxTrace.cfg"), execs, tag,
                                     env={"TRACKED": "1" if variant in TRACKED else "0"}, timeout=900)
    chk.cov["traces_validated_against_impl"] += acc + len(rej)
    chk.cov.setdefault("trace_events_validated", 0)
    chk.cov["trace_events_validated"] += stats["events"]
    chk.log("trace validation <%s>: %d executions accepted, %d rejected, %d events, %d TLC run(s), %.1fs"
            % (variant, acc, len(rej), stats["events"], stats["tlc_runs"], stats["wall"]))
    for rj in rej:
        ev = rj["event"]
        act = ev.get("during") or ev.get("a")
        prefix = "Any" if str(act).startswith("Any") else "Optional"
        mm = {"action": act, "cls": ev.get("cls"), "field": "trace-rejected" if ev.get("a") not in ("crash", "timeout") else ev["a"]}
        what = "%s<%s>: recorded execution %d rejected by ValueBoxTrace at event %d: %s" % (prefix, variant, rj["exec"], rj["line"],
                                                                                          json.dumps(ev)[:500])
        rep = {"kind": "trace", "property": chk.pid, "tag": tag, "sig_prefix": prefix, "meta": _meta(variant, dims),
               "actions": walks[rj["exec"]][:rj["line"] + 1], "events": execs[rj["exec"]][:rj["line"] + 1], "rejected_at": rj["line"]}
        chk.violation(sig_of(prefix, mm), what, rep)
    return acc, rej


# ---------------------------------------------------------------------------
def run(chk, replay=None):
    quick = chk.tier == "quick"
    chk.assumptions += [
        "TLC explores the bounded instances completely (3 Optional<T> | 2 Optional<T> + 1 Optional<U> | 2 Any slots, 2 payload values; "
        "model checking with history: 2+1+1 slots, K = 3 state-changing operations including throwing ones%s)"
        % ("" if quick else ", K = 4 without throwing ones"),
        "throwing payload operations: a payload object can be poisoned (taking its value throws whichever way the wrapper transfers "
        "it); exercised with the lifetime-instrumented payload only, on 2 Optional<T> | 1 Optional<T> + 1 Optional<U> | 2 Any slots; "
        "after a failed assignment into an engaged wrapper its value is unconstrained (old value or empty) but has_value() must equal "
        "the number of live payload objects in its storage",
        "the driver maps model values injectively and monotonically to payloads of each type; slots are 64-byte aligned heap blocks of "
        "exactly sizeof(wrapper) bytes",
        "the state of a moved-from wrapper and the results of comparing / printing wrappers that are not both engaged are unconstrained",
        "payload lifetime events are observable only for the instrumented payload type; for the others lifetime errors are visible as "
        "sanitizer aborts or wrong values",
        "the payload of an Optional lives inside the wrapper object (Optional::storage, as anchored in the property record): lifetime "
        "events are attributed to a wrapper by address; an Any keeps its payload on the heap and is checked by live-object counts only",
        "Optional copy-assignment from a non-const lvalue Optional does not compile today (the forwarding operator=(U&&) wins); sources "
        "are passed as const references",
    ]
    if replay:
        return do_replay(chk, replay)

    # 1. design level (runs beside the replay; its result is awaited before the verdict)
    def design():
        what = ("all histories of state-changing operations up to K%s: AgreesWithHistory, Conservation, RefProtocolLegal, "
                "Independence, CopiesEqualSource, NothingGivenByThrow")
        adtcheck.model_check(chk, SPEC, "ValueBoxMC", "ValueBoxMC.cfg", workers=6, what=what % " = 3, with throwing payload operations")
        if not quick:
            adtcheck.model_check(chk, SPEC, "ValueBoxMC", "ValueBoxMC_thorough.cfg", workers=6, what=what % " = 4, no throwing operations")
        for cfg, expected in (("ValueBoxNeg_assign.cfg", "AgreesWithHistory"), ("ValueBoxNeg_movector.cfg", "RefProtocolLegalH")):
            r = tla.run_tlc(os.path.join(SPEC, "ValueBoxNeg.tla"), os.path.join(SPEC, cfg), workers=2, timeout=600)
            if expected not in str(r.violated):
                raise tla.InfraError("negative control %s: expected violation of %s, got violated=%s error=%s" % (cfg, expected, r.violated, r.error))
            chk.cov["models"].append({"module": "ValueBoxNeg/" + cfg, "distinct_states": r.distinct, "states_generated": r.generated,
                                      "wall_s": round(r.wall, 1), "what": "negative control: faulty implementation rejected (%s)" % expected})
            chk.log("TLC negative control %s: %s violated as required" % (cfg, expected))
        return (sim_walks(chk, 6 if quick else 40, chk.seed),
                sim_walks(chk, 4 if quick else 30, chk.seed + 1, cfg="ValueBoxSimThrow.cfg"))

    bg = ThreadPoolExecutor(max_workers=1)
    design_future = bg.submit(design)

    # 2./3. spec -> code
    exe = build.build(DRV, san=SAN)
    plan = [("OptA", 9000 if quick else 300000, 400 if quick else 6000), ("OptB", 13000 if quick else 100000, 400 if quick else 12000),
            ("Any", 9000 if quick else 200000, 300 if quick else 5000), ("Probe", 400, 50),
            ("ThrowA", 25000 if quick else 700000, 600 if quick else 6000), ("ThrowB", 25000, 600 if quick else 8000),
            ("ThrowAny", 25000 if quick else 25000, 400 if quick else 6000)]
    if not quick:
        plan.append(("Full", 3000, 12000))
    nd = 0
    for name, budget, walks in plan:
        hs, info = gen_instance(chk, name, budget, walks, 25, chk.seed, focus=4 if name in THROWING else None)
        chk.count_actions(hs)
        chk.cov["generation_" + name] = info
        variants = ["tracked"] if name in THROWING else VARIANTS
        replay_variants(chk, exe, hs, name, variants)
        nd += adtcheck._nontrivial_distinct(hs, MUTATORS) * len(variants)
        if name in ("OptB", "Any"):
            chk.add_sample({"kind": "history", "instance": name, "steps": [[s["a"], s.get("arg"), s.get("cls")] for s in hs[len(hs) // 2]]})
        check_classes(chk, hs)
    chk.cov["distinct_nontrivial"] += nd
    chk.require_actions(REQUIRED_OPT + REQUIRED_ANY)
    missing = [c for c in REQUIRED_CLS if c not in chk._c09_classes]
    if missing:
        raise tla.InfraError("vacuity guard: argument classes never exercised: %s" % missing)
    need = lambda c: MIN_THROW if c[0] in ("Emplace", "AssignValue", "ValueCtor", "MakeOptional", "AnyValueCtor", "AnyAssignValue") else MIN_THROW_FROM
    few = [(c, chk._c09_classes.get(c, 0), need(c)) for c in REQUIRED_THROW if chk._c09_classes.get(c, 0) < need(c)]
    if few:
        raise tla.InfraError("vacuity guard: throwing steps exercised too rarely (class, count, required): %s" % few)
    chk.cov["throwing_steps"] = {"%s(%s)" % c: chk._c09_classes[c] for c in REQUIRED_THROW}

    # getEnvVar<T> returns Optional<T>
    cases = funcheck.gen_cases(chk, SPEC, "ValueBoxEnv", "ValueBoxEnv.cfg", "c09-env", what="getEnvVar<T>: engaged exactly when set")
    hs = [[c] for c in cases]
    chk.count_actions(hs)
    mms, wall = run_and_compare(exe, hs, "c09-env", _meta("int", (0, 0, 0)), isolate=1)
    report(chk, hs, mms, "getEnvVar", "c09-env", _meta("int", (0, 0, 0)))
    chk.cov["distinct_nontrivial"] += funcheck.distinct_cases(cases)
    chk.require_actions(["GetEnv"])

    # 4. code -> spec
    walks, twalks = design_future.result()
    bg.shutdown()
    for variant in (["tracked", "string"] if quick else VARIANTS):
        record_and_validate(chk, exe, walks, variant)
    record_and_validate(chk, exe, twalks, "tracked", tag="c09-trace-throwing")
    chk.add_sample({"kind": "recorded-walk-prefix", "actions": [[s["a"], s.get("arg")] for s in walks[0][:8]]})
    chk.cov["rule"] = ("histories = paths of TLC's complete state graphs of the bounded instances (all paths up to the budgeted length, one "
                       "path per transition, seeded random walks), each closed by Teardown; non-trivial = contains a state-changing "
                       "action; distinct = distinct (action,argument) sequences, counted per payload variant; getEnvVar cases counted once")


def check_classes(chk, hs):
    seen = getattr(chk, "_c09_classes", None)
    if seen is None:
        seen = chk._c09_classes = {}
    for h in hs:
        for st in h:
            k = (st["a"], st.get("cls"))
            seen[k] = seen.get(k, 0) + 1


def do_replay(chk, path):
    rep = json.load(open(path))
    exe = build.build(DRV, san=SAN)
    meta = rep["meta"]
    dims = (meta["nt"], meta["nu"], meta["na"])
    if rep["kind"] == "history":
        h = rep["history"]
        mms, wall = run_and_compare(exe, [h], "c09-replay", meta, fast=False, isolate=1)
        report(chk, [h], mms, rep["sig_prefix"], "c09-replay", meta)
    else:
        record_and_validate(chk, exe, [rep["actions"]], meta["variant"], dims=dims, tag="c09-replay", fast=False)
    chk.cov["evaluations"] = max(chk.cov["evaluations"], 1)
