"""C20 - Image and trace writers emit decodable files containing exactly the input."""
import json, os, random, shutil, threading, time
from collections import deque
from .. import tla, build, adt, adtcheck, funcheck, trace
from ..core import sig_of
from ..tla import VERIF

LEVEL = "model_checking"
LEVEL_TEXT = ("trace log: TLC model-checks the recorder specification (per-thread event sequences, nesting, thread lifetimes: created / ended, "
              "the ended-before-created relation) together with the laws of the log contract on every reachable bounded state - every log a "
              "correct saveLog may write is accepted (a tid per thread, or one tid shared by threads that never coexisted, in the order they "
              "lived), every log with one deleted / duplicated / altered / swapped relevant entry, with all entries of one thread lost, with "
              "coexisting threads under one tid or a chain in the wrong order is rejected, accepted logs are properly nested per tid, and the "
              "incremental matcher used for trace validation decides exactly the declarative contract; the states of the two generation "
              "instances (all event sequences up to the bound on 1..3 threads living until saveLog; shorter sequences with threads that end "
              "and are followed by or overlap later threads; the empty log; with and without process name) are reached on the real recorder, "
              "one process per history, the file is parsed by a strict JSON reader and the relevant entries per tid are compared with the "
              "admissible contents TLC computed; the same runs and driver-generated long logs (concurrent: exactly one storage chunk, one "
              "more, one less, three chunks, up to 8 threads; sequential: up to 16 threads created one after the other beside a long-lived "
              "thread) are validated by TLC against the trace specification; recorder sessions: several instances of the exported class TraceRecorder, "
              "created, saved and destroyed at different times, with the same threads recording into all of them under names from shared "
              "literals, equal text at other addresses and one scratch buffer whose text differs per recorder - the states of TLC's graph "
              "are replayed on real recorder instances (allocation churn after every destruction, ASan) and seeded random session "
              "executions are validated per recorder by TLC. "
              "images: TLC checks the laws of the index map of each of the six writers on the whole bounded domain (in-bounds, bijection "
              "between payload positions and selected input components, row involution, header channels), enumerates every size of the "
              "domain, and every case is written by the real writer from an exact-size heap block under ASan/UBSan and decoded by an "
              "independent reader (exhaustive over the bounded domain); large images (wide, tall, mid-size, around the 1024 / 2048 / 4096 "
              "boundaries) carry a content defined by a formula in the specification, TLC computes the decoded samples at sampled positions "
              "and two modular sums over every file row, the driver fills the exact-size input from the mirrored formula (cross-checked "
              "against spot values from TLC) and reports the same projections of the decoded file")
LEVEL_NOTE = ("bounded: images - sizes 1..3 x 1..3, 5x2, 1x7, 7x1 (thorough: + 16x9, 2x33, 33x2, 64x3), one injective pixel content per "
              "size (pairwise distinct component codes), exact-size and guard-padded buffers; large images 300x200 and widths {1023, 1024, "
              "1025, 2049, 2600} x heights {1, 3} and their transposes (thorough: {1023, 1024, 1025, 2047, 2048, 2049, 2600, 4097} x {1, 2, 3}) "
              "with a formula-defined content, compared at sampled positions around every 256 / 768 / 1024 / 2048 boundary and both ends and "
              "through two modular sums over all samples of every file row (a difference that cancels in both sums at unsampled "
              "positions would be missed); trace log - all event sequences of total "
              "length <= 5 (thorough 6) on <= 3 threads living until saveLog and of total length <= 3 (thorough 4) with every pattern of "
              "thread lifetimes, nesting depth <= 3, names / categories / counter values chosen by thread and position, "
              "law checking on 2 threads x 3 events (thorough 3 x 3 in creation order and 2 x 4), long logs of 0, 1, 8191, 8192, 8193, 16384, 16385, 24576 events per "
              "thread on 1..8 concurrently recording threads.  sessions: 2 recorders x 2 threads x <= 3 (thorough 4) events for the graph, "
              "4 private recorders + the global one x 3 threads in random executions.  boundary classes: counter values as exact numerals over the whole uint64 range "
              "(neighbourhoods of 2^31, 2^32, 2^53, 2^63, 2^64), names that need JSON escaping (quote, backslash, control characters) or are 15 "
              ".. 65537 characters long, such process names, nesting deeper than 255, 3000 distinct names in one thread, 8 threads "
              "registering at the same instant, saves exactly at a chunk boundary followed by more events, every log of a process written to "
              "one file; images with one side around 2^16, every byte value at first / last positions, floats that are not small dyadics "
              "(-0, subnormal, FLT_MAX, inf, NaN payload), 16 images in a row in one process.  Not covered (not in the statement): one "
              "pointer carrying two texts inside one recorder (documented limitation of the pointer-keyed cache), thread names needing "
              "escaping, time stamps, cpu statistics, thread names, detached threads, endEvent "
              "without a begin, unwritable paths.  Trusted: TLC, the drivers' independent PNM/PFM reader and strict JSON reader, the "
              "injective code <-> byte / float mapping, ASan/UBSan as the observation of out-of-bounds reads, g++/libstdc++")
TECHNIQUE = ("TLA+ ADT specification of the trace recorder + contract laws model-checked by TLC; state-graph histories replayed on the real "
             "recorder (one process per history); TLC trace validation of recorded short and long concurrent logs; TLA+ functional "
             "specification of the image index maps with laws checked by TLC and exhaustive case replay under ASan/UBSan")

SPEC_IMG = os.path.join(VERIF, "spec", "utility")
SPEC_LOG = os.path.join(VERIF, "spec", "tracing")
SAN = "address,undefined"
CHUNK = 8192                      # THREAD_EVENT_CHUNK_SIZE in rkcommon/tracing/Tracing.cpp
RECORDING = {"Begin", "End", "Marker", "Counter"}
WRITERS = ["writePPM", "writePGM", "writePFM_float", "writePFM_vec3f", "writePFM_vec3fa", "writePFM_vec4f"]


def sort_keys(v):
    return json.loads(json.dumps(v, sort_keys=True))


def canon_threads(th):
    """one canonical order for a list of per-thread sequences (sorting only): the log renumbers threads, so the
    expected and the observed list are compared as multisets"""
    return sorted(th, key=lambda x: json.dumps(x, sort_keys=True))


def canon_history(h):
    """SaveLog steps: the list of admissible log contents (exp.alt) is moved beside exp (the driver reports one content, not
    a list) and every list of per-tid sequences is brought into the canonical order"""
    for st in h:
        if st.get("a") in ("SaveLog", "RSave"):
            e = st.get("exp", {})
            if "alt" in e:
                st["alt"] = e.pop("alt")
            if isinstance(e.get("threads"), list):
                e["threads"] = canon_threads(e["threads"])
            if isinstance(st.get("alt"), list):
                st["alt"] = [canon_threads(a) for a in st["alt"]]
    return h


def canon_results(res):
    for r in res.values():
        for o in r.get("obs", []) or []:
            if isinstance(o, dict) and isinstance(o.get("threads"), list):
                o["threads"] = canon_threads(o["threads"])
    return res


def resolve_alternatives(histories, res):
    """deep equality against each admissible content TLC listed: when the observed per-tid sequences equal one of the
    alternatives, that alternative is what the step is compared with; otherwise the tid-per-thread content stays and
    the comparison reports the difference"""
    shared = 0
    for i, h in enumerate(histories):
        obs = (res.get(i) or {}).get("obs") or []
        for k, st in enumerate(h):
            if st.get("a") != "SaveLog" or "alt" not in st or k >= len(obs) or not isinstance(obs[k], dict):
                continue
            o = obs[k].get("threads")
            if o is None:
                continue
            for a in st["alt"]:
                if a == o:
                    if a != st["exp"]["threads"]:
                        shared += 1
                    st["exp"]["threads"] = a
                    break
    return shared


# ---------------------------------------------------------------------------
# running histories, one process each, on several driver processes at a time
# ---------------------------------------------------------------------------
def run_parallel(exe, histories, tag, nproc, meta, timeout_ms=120000, timeout=3000):
    """timeout_ms: the harness watchdog per forked child - generous, so that machine load can never look like a hang"""
    nproc = max(1, min(nproc, len(histories)))
    slices = [list(range(i, len(histories), nproc)) for i in range(nproc)]
    out = [None] * nproc

    def work(i):
        try:
            hs = [histories[j] for j in slices[i]]
            extra = ["--timeout-ms", str(timeout_ms)] if timeout_ms else None
            out[i] = adt.run_driver(exe, hs, "%s-p%d" % (tag, i), isolate=1, meta=meta, extra_args=extra, timeout=timeout)
        except Exception as ex:      # re-raised below
            out[i] = ex
    ths = [threading.Thread(target=work, args=(i,)) for i in range(nproc)]
    t0 = time.time()
    for t in ths:
        t.start()
    for t in ths:
        t.join()
    res, errs, rcs = {}, [], []
    for i, o in enumerate(out):
        if isinstance(o, Exception):
            raise o
        r, rc, err, _ = o
        for k, v in r.items():
            v = dict(v)
            v["id"] = slices[i][k]
            res[slices[i][k]] = v
        rcs.append(rc)
        errs.append(err)
    # sanitizer reports last, so that the tail kept in a replay artefact shows one
    errs.sort(key=lambda e: ("Sanitizer" in e or "runtime error" in e))
    stderr = "\n".join(e[-6000:] for e in errs)
    rc = 0 if all(x == 0 for x in rcs) else [x for x in rcs if x != 0][0]
    return res, rc, stderr, time.time() - t0


def report_mismatches(chk, histories, res, rc, stderr, tag, sig_prefix, meta, exe):
    """the reporting part of adtcheck.replay, for results gathered by run_parallel"""
    if rc not in (0,) and not res:
        raise tla.InfraError("driver %s produced nothing (rc=%s): %s" % (exe, rc, stderr[-2000:]))
    mms = adt.compare(histories, res, rc, stderr)
    for mm in mms:
        if mm["kind"] == "missing":
            raise tla.InfraError("driver %s stopped without result for case %d (rc=%s): %s" % (exe, mm["case"], rc, stderr[-1500:]))
        h = histories[mm["case"]]
        if mm.get("cls") in ESC_CLASSES and str(mm.get("field", "")).startswith("/threads"):
            mm["field"] = "/text"         # one family: a text that needs escaping does not come back as it was recorded
        what = "%s: step %d %s(%s): %s expected %s observed %s" % (
            sig_prefix, mm["step"], mm.get("action"), json.dumps(mm.get("arg"))[:200], mm["field"],
            json.dumps(mm.get("expected"))[:300], json.dumps(mm.get("observed"))[:300])
        r = res.get(mm["case"], {})
        o = (r.get("obs") or [None] * (mm["step"] + 1))[mm["step"]] if mm["kind"] == "value" else None
        if isinstance(o, dict) and o.get("json") == "malformed":
            what += " (%s; file text: %s)" % (o.get("why"), json.dumps(o.get("head")))
        rep = {"kind": "history", "property": chk.pid, "tag": tag, "sig_prefix": sig_prefix, "meta": {k: v for k, v in (meta or {}).items() if k != "tmpdir"},
               "history": h, "mismatch": {k: v for k, v in mm.items() if k != "stderr"}}
        if mm.get("stderr"):
            rep["stderr_tail"] = mm["stderr"][-2500:]
        chk.violation(sig_of(sig_prefix, mm), what, rep)
    chk.cov["evaluations"] += len(histories)
    return len(mms)


# ---------------------------------------------------------------------------
# trace log: histories from TLC's state graph
# ---------------------------------------------------------------------------
def graph_from_edges(chk, cfg, tag, module="TraceLogGen"):
    """TLC's complete state graph of a ...Gen module, exported edge by edge by TLC itself (one JSON line per transition)"""
    d = os.path.join(tla.WORK, "graphs")
    os.makedirs(d, exist_ok=True)
    path = os.path.join(d, "%s-%d.ndjson" % (tag, os.getpid()))
    if os.path.exists(path):
        os.remove(path)
    r = tla.run_tlc(os.path.join(SPEC_LOG, module + ".tla"), os.path.join(SPEC_LOG, cfg), workers=4, timeout=3000, env={"EDGES": path}, tag=tag)
    if not r.ok:
        raise tla.InfraError("generation model " + module + " failed: violated=%s error=%s\n%s" % (r.violated, r.error, r.out[-2000:]))
    ag = adt.AbsGraph()

    def idx(a):
        c = adt._canon(a)
        if c not in ag.index:
            ag.index[c] = len(ag.states)
            ag.states.append(a)
        return ag.index[c]

    seen = set()
    nlines = 0
    with open(path) as f:
        for line in f:
            line = line.strip()
            if not line:
                continue
            nlines += 1
            try:
                j = json.loads(line)
                if isinstance(j, str):      # CSVWrite prints the JSON text as a quoted TLA+ string
                    j = json.loads(j)
            except ValueError:
                raise tla.InfraError("edge export of %s has a damaged line %d" % (module, nlines))
            if "init" in j:
                i = idx(j["init"])
                if i not in ag.init:
                    ag.init.append(i)
                continue
            s_, d_ = idx(j["src"]), idx(j["dst"])
            key = (s_, adt._canon(j["step"]), d_)
            if key in seen:
                continue
            seen.add(key)
            ag.edges.setdefault(s_, []).append((j["step"], d_))
            ag.nedges += 1
    os.remove(path)
    # TLC's workers write the file in no particular order: renumber canonically so that runs are reproducible
    order = sorted(range(len(ag.states)), key=lambda i: adt._canon(ag.states[i]))
    new = {old: k for k, old in enumerate(order)}
    ag.states = [ag.states[i] for i in order]
    ag.index = {adt._canon(a): k for k, a in enumerate(ag.states)}
    ag.init = sorted(new[i] for i in ag.init)
    ag.edges = {new[s_]: [(step, new[d_]) for step, d_ in lst] for s_, lst in ag.edges.items()}
    for s_ in ag.edges:
        ag.edges[s_].sort(key=lambda e: adt._canon(e[0]))
    if not ag.init or ag.nedges == 0:
        raise tla.InfraError(module + " exported no graph")
    if nlines != r.generated:
        raise tla.InfraError("edge export inconsistent with TLC statistics: %d lines, %d states generated" % (nlines, r.generated))
    return ag, r


def settled(st):
    """every created thread has recorded something (a created thread that has not touched the recorder yet is invisible to it)"""
    return all(ph == "new" or rc for ph, rc in zip(st["phase"], st["rec"]))


def histories_from_graph(ag, seed, walks, walk_len, select, all_upto=2, rotate=1):
    """One history per selected abstract state (BFS path to it, then SaveLog): both process-name variants for states with at
    most two recorded events, alternating otherwise; plus seeded random walks (SaveLog in the middle, recording continues)."""
    parent = {}
    dq = deque()
    for s in ag.init:
        parent[s] = None
        dq.append(s)
    while dq:
        s = dq.popleft()
        for step, d in ag.edges.get(s, []):
            if d not in parent:
                parent[d] = (s, step)
                dq.append(d)

    def path_to(s):
        p = []
        while parent[s] is not None:
            ps, step = parent[s]
            p.append(step)
            s = ps
        p.reverse()
        return p

    hs = []
    nsel = 0
    for n, s in enumerate(sorted(parent)):
        if not select(ag.states[s]):
            continue
        nsel += 1
        base = path_to(s)
        saves = [step for step, d in ag.edges.get(s, []) if step["a"] == "SaveLog"]
        if len(saves) < 2:
            raise tla.InfraError("state without its SaveLog transitions")
        pick = saves if sum(1 for st in base if st["a"] in RECORDING) <= all_upto else [saves[(n + j) % len(saves)] for j in range(rotate)]
        for sv in pick:
            hs.append(base + [sv])
    rw = [w for w in adt.random_walks(ag, walks, walk_len, seed) if any(st["a"] == "SaveLog" for st in w)]
    return hs, rw, nsel


def life_lines(o):
    return [{"e": "Thread", "t": e[0], "born": e[1], "died": e[2]} for e in o.get("life", [])]


def lines_of_short(h, obs):
    """format conversion: a replayed history with exactly one SaveLog at its end + the driver's raw log -> trace lines"""
    nthreads = max([st["arg"]["t"] for st in h if st["a"] in RECORDING or st["a"] == "ThreadStart"] or [0])
    lines = [{"e": "Start", "threads": nthreads}] + life_lines(obs[-1])
    kind = {"Begin": "B", "End": "E", "Marker": "i", "Counter": "C"}
    for t in range(1, nthreads + 1):
        for st in h:
            if st["a"] in RECORDING and st["arg"]["t"] == t:
                a = st["arg"]
                lines.append({"e": "Rec", "t": t, "k": kind[st["a"]], "name": a.get("name", ""), "cat": a.get("cat", ""),
                              "val": str(a["val"]) if st["a"] == "Counter" else ""})
    lines.append({"e": "Save", "pname": h[-1]["arg"]["pname"]})
    lines += log_lines(obs[-1])
    return lines


def log_lines(o):
    if o.get("json") != "wellformed":
        return [{"e": "malformed", "why": o.get("why"), "head": o.get("head"), "tail": o.get("tail")}]
    if "log" not in o:
        raise tla.InfraError("driver did not report the raw log")
    return [{"e": "Log", "tid": e[0], "ph": e[1], "name": e[2], "cat": e[3], "val": e[4]} for e in o["log"]] + [{"e": "End"}]


def lines_of_long(acts, r):
    """a recorded execution (RunThreads / RunSequential ..., SaveLog, possibly more of both) -> one list of trace lines per
    SaveLog: each holds everything every thread recorded up to that save, and the log that save wrote"""
    if "crash" in r or "timeout" in r:
        kind = "crash" if "crash" in r else "timeout"
        k = r[kind].get("step", 0)
        return [[{"e": "Start", "threads": 0}, {"e": kind, "during": acts[k]["a"] if 0 <= k < len(acts) else None, "obs": r[kind]}]]
    obs = r["obs"]
    out = []
    recs = []
    for st, o in zip(acts, obs):
        if "unexpected_exception" in o:
            out.append([{"e": "Start", "threads": 0}, {"e": "crash", "during": st["a"], "obs": o}])
            break
        if st["a"] in ("RunThreads", "RunSequential"):
            for t, evs in enumerate(o["rec"]):
                if t < len(recs):
                    recs[t] = recs[t] + evs
                else:
                    recs.append(list(evs))
        elif st["a"] == "SaveLog":
            lines = [{"e": "Start", "threads": len(recs)}] + life_lines(o)
            for t, evs in enumerate(recs, 1):
                for e in evs:
                    lines.append({"e": "Rec", "t": t, "k": e[0], "name": e[1], "cat": e[2], "val": e[3]})
            lines.append({"e": "Save", "pname": st["arg"]["pname"]})
            lines += log_lines(o)
            out.append(lines)
    return out


def sequential_in(lines):
    """two recording threads of which one had ended before the other was created (labelling only)"""
    rec = {ln["t"] for ln in lines if ln["e"] == "Rec"}
    life = [ln for ln in lines if ln["e"] == "Thread" and ln["t"] in rec]
    return any(a["died"] > 0 and a["died"] < b["born"] for a in life for b in life)


ESC_NAMES = {"@quote", "@quote-first", "@quote-last", "@backslash", "@winpath", "@trailing-backslash", "@newline", "@tab", "@ctrl1", "@del", "@utf8", "@slash"}
ESC_CLASSES = ("names=escaping", "pname=escaping")


def cls_of_lines(lines):
    """the class the specification gives the SaveLog of this execution (TraceLog!SaveLog, labelling only)"""
    empty = not any(ln["e"] == "Rec" for ln in lines)
    pn = next((ln["pname"] for ln in lines if ln["e"] == "Save"), "")
    if pn in ESC_NAMES:
        return "pname=escaping"
    if any(ln["e"] == "Rec" and (ln["name"] in ESC_NAMES or ln["cat"] in ESC_NAMES) for ln in lines):
        return "names=escaping"
    return ("log=empty" if empty else "log=nonempty") + (",pname=none" if pn == "" else ",pname=given") + (",threads=sequential" if sequential_in(lines) else "")


def validate_executions(chk, execs, tag, sources, timeout=2400):
    """execs: list of line lists; sources[i]: what to store in the replay artefact for execution i"""
    if not execs:
        return set()
    acc, rej, stats = trace.validate(os.path.join(SPEC_LOG, "TraceLogTrace.tla"), os.path.join(SPEC_LOG, "TraceLogTrace.cfg"),
                                     execs, tag, workers=1, timeout=timeout, reset_key="e", max_rejections=8)
    chk.cov["traces_validated_against_impl"] += acc + len(rej)
    chk.cov.setdefault("trace_events_validated", 0)
    chk.cov["trace_events_validated"] += stats["events"]
    chk.log("trace validation %s: %d executions accepted, %d rejected, %d lines, %d TLC run(s), %.1fs"
            % (tag, acc, len(rej), stats["events"], stats["tlc_runs"], stats["wall"]))
    chk.cov["models"].append({"module": "TraceLogTrace/" + tag, "executions": acc + len(rej), "rejected": len(rej), "lines": stats["events"],
                              "distinct_states": stats["states"], "wall_s": round(stats["wall"], 1),
                              "what": "recorded executions of the real recorder + the parsed log file, validated against the contract"})
    for rj in rej:
        ev = rj["event"]
        lines = execs[rj["exec"]]
        e = ev.get("e")
        field = {"malformed": "json", "crash": "crash", "timeout": "timeout", "Log": "entry-rejected", "End": "events-missing"}.get(e, "trace-rejected")
        action = ev.get("during") or "SaveLog"
        if cls_of_lines(lines) in ESC_CLASSES and field in ("entry-rejected", "events-missing"):
            field = "text"
        cls = cls_of_lines(lines)
        if e in ("crash", "timeout") and isinstance(sources[rj["exec"]], dict) and sources[rj["exec"]].get("name"):
            cls = "run=" + sources[rj["exec"]]["name"].rstrip("0123456789-")      # the process died: what it had recorded is not known
        sig = "tracing/%s(%s)/%s" % (action, cls, field)
        what = "tracing: recorded execution rejected by TraceLogTrace at line %d of %d: %s" % (rj["line"], len(lines), json.dumps(ev)[:400])
        ctx = lines[max(0, rj["line"] - 3):rj["line"] + 1]
        rep = {"kind": "trace", "property": chk.pid, "tag": tag, "source": sources[rj["exec"]], "rejected_at": rj["line"], "context": ctx,
               "lines": lines if len(lines) <= 400 else None}
        chk.violation(sig, what, rep)
    return {rj["exec"] for rj in rej}


def corrupted_trace_control(chk, lines, tag):
    """negative control of the code -> spec direction: copies of one accepted recorded execution with one relevant log entry
    altered / dropped / duplicated / moved to the end must each be rejected by TraceLogTrace (otherwise the validation is vacuous)"""
    rel = [i for i, ln in enumerate(lines) if ln["e"] == "Log" and ln["ph"] in ("B", "E", "i") or (ln["e"] == "Log" and ln["ph"] == "C" and ln["name"] != "cpuUtilization" and not ln["name"].startswith("rkTrace"))]
    named = [i for i in rel if lines[i]["ph"] != "E"]
    if len(named) < 4 or lines[-1]["e"] != "End":
        raise tla.InfraError("corrupted-trace control: execution too small")
    rnd = random.Random(chk.seed)
    variants = []
    i = rnd.choice(named)
    v = [dict(x) for x in lines]
    v[i]["name"] = v[i]["name"] + "x"
    variants.append(("name altered", v))
    i = rnd.choice(rel)
    variants.append(("entry dropped", [dict(x) for k, x in enumerate(lines) if k != i]))
    i = rnd.choice(rel)
    variants.append(("entry duplicated", [dict(x) for x in lines[:i + 1]] + [dict(x) for x in lines[i:]]))
    cs = [k for k in rel if lines[k]["ph"] == "C"]
    if cs:
        i = rnd.choice(cs)
        v = [dict(x) for x in lines]
        v[i]["val"] = str(int(v[i]["val"]) + 1)
        variants.append(("counter value altered", v))
    i = rnd.choice([k for k in rel if k + 1 in rel and lines[k]["tid"] == lines[k + 1]["tid"] and
                    [lines[k][f] for f in ("ph", "name", "cat", "val")] != [lines[k + 1][f] for f in ("ph", "name", "cat", "val")]])
    v = [dict(x) for x in lines]
    v[i], v[i + 1] = v[i + 1], v[i]
    variants.append(("two entries of one tid swapped", v))
    acc, rej, stats = trace.validate(os.path.join(SPEC_LOG, "TraceLogTrace.tla"), os.path.join(SPEC_LOG, "TraceLogTrace.cfg"),
                                     [lines] + [v for _, v in variants], tag, workers=1, timeout=1200, reset_key="e", max_rejections=len(variants) + 2)
    rejected = {r["exec"] for r in rej}
    if 0 in rejected:
        return          # the original itself is rejected: reported by the main validation, nothing to control
    missed = [variants[k - 1][0] for k in range(1, len(variants) + 1) if k not in rejected]
    if missed:
        raise tla.InfraError("corrupted-trace control: TraceLogTrace accepted a corrupted execution (%s)" % ", ".join(missed))
    chk.cov["models"].append({"module": "TraceLogTrace/" + tag, "corrupted_copies_rejected": len(variants), "wall_s": round(stats["wall"], 1),
                              "what": "negative control: " + "; ".join(n for n, _ in variants)})
    chk.log("corrupted-trace control: %d corrupted copies of a recorded execution rejected by TraceLogTrace" % len(variants))


def long_configs(quick, rnd):
    """inputs only: which threads record how many events (the driver draws the events and logs what it called)"""
    def prog(n, **kw):
        p = {"n": n, "seed": rnd.randint(1, 10 ** 6), "maxdepth": rnd.choice([1, 2, 3, 6]), "tname": "", "memuse": 0}
        p.update(kw)
        return p
    cfgs = [
        ("one-chunk", [prog(CHUNK)], ""),
        ("chunk+1", [prog(CHUNK + 1), prog(CHUNK, tname="worker-b")], "proc"),
        ("three-chunks", [prog(3 * CHUNK, memuse=5000), prog(CHUNK - 1), prog(1)], ""),
        ("eight-threads", [prog(rnd.randint(200, 700), tname=("w%d" % i if i % 2 else "")) for i in range(8)], "app"),
        ("named-only", [prog(0, tname="idle"), prog(2)], ""),
        ("empty-named", [prog(0, tname="idle")], ""),
        ("control", [prog(60, maxdepth=3), prog(40, maxdepth=2)], ""),
    ]
    if not quick:
        cfgs.append(("eight-threads-chunks", [prog(CHUNK), prog(CHUNK + 1), prog(3 * CHUNK), prog(CHUNK - 1), prog(1), prog(0, tname="idle"),
                                              prog(2 * CHUNK, memuse=3000), prog(2 * CHUNK + 1)], "proc"))
        for i in range(24):
            cfgs.append(("random-%d" % i, [prog(rnd.choice([0, 1, 2, 3, 17, 100, 1000, 3000])) for _ in range(rnd.randint(1, 8))], rnd.choice(["", "p"])))
    else:
        for i in range(4):
            cfgs.append(("random-%d" % i, [prog(rnd.choice([0, 1, 2, 3, 17, 100, 1000])) for _ in range(rnd.randint(1, 8))], rnd.choice(["", "p"])))
    # boundaries of hidden counters and buffers: nesting deeper than 255, thousands of distinct names in one thread's string cache,
    # names of 15 / 16 / 17 ... 4097 characters, an empty (but not null) process name, and all threads registering at the same moment
    cfgs += [
        ("deep-nesting", [prog(700, maxdepth=300, climb=True), prog(300, maxdepth=129, climb=True)], ""),
        ("many-names", [prog(7000, pool=3000)], ""),
        ("long-names", [prog(400, longnames=True), prog(300, longnames=True)], "proc"),
        ("empty-pname", [prog(5)], "@empty"),
    ]
    for i in range(32 if quick else 200):
        cfgs.append(("registration-race-%d" % i, [prog(rnd.choice([1, 1, 2, 3])) for _ in range(8)], rnd.choice(["", "p"])))
    out = []
    for name, progs, pname in cfgs:
        out.append((name, [{"a": "RunThreads", "arg": {"progs": progs}}, {"a": "SaveLog", "arg": {"pname": pname, "raw": True}}]))
    # a save exactly at a storage-chunk boundary, then more events, then another save (the second log holds everything)
    for name, phases in [("full-chunk-save-one-more", [CHUNK, 1]), ("chunk-1-save-one-save-one", [CHUNK - 1, 1, 1]), ("save-grow-save", [3, CHUNK, 2])]:
        a = []
        for n in phases:
            a += [{"a": "RunThreads", "arg": {"progs": [prog(n), prog(1)]}}, {"a": "SaveLog", "arg": {"pname": "", "raw": True}}]
        out.append((name, a))
    # threads that follow one another (created right after the previous one was joined: the OS recycles the std::thread::id),
    # beside a thread that lives through all of them
    seq = [
        ("sequential-16", prog(40, tname="lead"), [prog(rnd.randint(2, 9), tname=("s%d" % i if i % 3 == 0 else "")) for i in range(16)], ""),
        ("sequential-16-nolead", None, [prog(rnd.randint(1, 6)) for i in range(16)], "proc"),
        ("sequential-chunk-boundary", prog(10), [prog(CHUNK - 150), prog(400), prog(1), prog(CHUNK), prog(3)], ""),
        ("sequential-2", None, [prog(1), prog(1)], ""),
    ]
    if not quick:
        for i in range(12):
            seq.append(("sequential-random-%d" % i, prog(rnd.choice([0, 1, 30, 500])) if rnd.random() < 0.6 else None,
                        [prog(rnd.choice([0, 1, 2, 5, 50, 700])) for _ in range(rnd.randint(2, 16))], rnd.choice(["", "p"])))
    for name, lead, workers, pname in seq:
        out.append((name, [{"a": "RunSequential", "arg": {"lead": lead, "workers": workers}}, {"a": "SaveLog", "arg": {"pname": pname, "raw": True}}]))
    # the empty log through the same path: nothing recorded at all
    out.append(("empty-proc", [{"a": "SaveLog", "arg": {"pname": "proc", "raw": True}}]))
    out.append(("empty-none", [{"a": "SaveLog", "arg": {"pname": "", "raw": True}}]))
    return out


def record_long(chk, exe, cfgs, tag, meta, nproc):
    acts = [c[1] for c in cfgs]
    chk.count_actions(acts)
    res, rc, stderr, wall = run_parallel(exe, acts, tag, nproc, meta, timeout_ms=900000)
    execs, sources, first = [], [], {}
    nev = 0
    for i, a in enumerate(acts):
        r = res.get(i)
        if r is None:
            raise tla.InfraError("driver %s gave no result for recorded execution %d (rc=%s): %s" % (exe, i, rc, stderr[-1500:]))
        parts = lines_of_long(a, r)
        first[cfgs[i][0]] = len(execs)
        for lines in parts:
            execs.append(lines)
            sources.append({"name": cfgs[i][0], "actions": a})
        if parts:
            nev += sum(1 for ln in parts[-1] if ln["e"] == "Rec")
            note_lifetimes(chk, sequential_in(parts[-1]), len({ln["t"] for ln in parts[-1] if ln["e"] == "Rec"}), (r.get("obs") or [{}])[-1])
    chk.log("recorded %d long executions on the real recorder (%d recorded events, %d saved logs) in %.1fs" % (len(acts), nev, len(execs), wall))
    chk.cov["evaluations"] += len(acts)
    return execs, sources, nev, first


def note_lifetimes(chk, sequential, n_recording, o):
    """coverage numbers (observations, never verdicts): executions in which two recording threads did not overlap, in which the
    OS handed a std::thread::id out twice, and in which the log shows fewer tids than recording threads"""
    lt = chk.cov.setdefault("thread_lifetimes", {"executions_with_sequential_recording_threads": 0, "executions_with_recycled_thread_id": 0,
                                                 "executions_with_shared_tid": 0})
    if sequential:
        lt["executions_with_sequential_recording_threads"] += 1
    if isinstance(o, dict):
        if o.get("threads_created", 0) > o.get("thread_ids_distinct", 0):
            lt["executions_with_recycled_thread_id"] += 1
        if o.get("json") == "wellformed" and isinstance(o.get("threads"), list) and 0 < len(o["threads"]) < n_recording:
            lt["executions_with_shared_tid"] += 1


# ---------------------------------------------------------------------------
# recorder sessions (TraceSessions): several TraceRecorder instances, the same threads recording into all of them
# ---------------------------------------------------------------------------
SESSION_REC = {"RMarker", "RCounter", "RBegin", "REnd"}
COUNTER_EDGES = [0, 1, 999999, 1000001, 2 ** 31 - 1, 2 ** 31, 2 ** 31 + 1, 2 ** 32 - 1, 2 ** 32, 2 ** 32 + 1, 2 ** 53 - 1, 2 ** 53 + 1, 2 ** 63 - 1, 2 ** 63,
                 2 ** 63 + 1, 2 ** 64 - 2, 2 ** 64 - 1]


def session_histories(ag, seed, quick):
    """One history per selected abstract state: BFS path to it, then RSave of every open recorder.  Selected: the states in which
    a recorder has been destroyed while another is open (names cached for a recorder that no longer exists; quick: a seeded sample
    of them), and a seeded sample of the other states with an open recorder."""
    parent = {}
    dq = deque()
    for s in ag.init:
        parent[s] = None
        dq.append(s)
    while dq:
        s = dq.popleft()
        for step, d in ag.edges.get(s, []):
            if d not in parent:
                parent[d] = (s, step)
                dq.append(d)

    def path_to(s):
        p = []
        while parent[s] is not None:
            ps, step = parent[s]
            p.append(step)
            s = ps
        p.reverse()
        return p

    hot, rest = [], []
    for s in sorted(parent):
        st = ag.states[s]["rstate"]
        if "open" not in st:
            continue
        (hot if "gone" in st else rest).append(s)
    cap_hot, cap = (1500, 500) if quick else (15000, 5000)
    if len(hot) > cap_hot:
        hot = sorted(random.Random(seed + 1).sample(hot, cap_hot))
    if len(rest) > cap:
        rest = sorted(random.Random(seed).sample(rest, cap))
    hs = []
    for s in hot + rest:
        saves = [step for step, d in ag.edges.get(s, []) if step["a"] == "RSave"]
        if not saves:
            raise tla.InfraError("state with an open recorder but without RSave transition")
        hs.append(path_to(s) + saves)
    return hs, len(hot), len(rest)


def rand_session_actions(rnd, n):
    """inputs only: a random session execution (the guards kept here only keep the input inside the API's preconditions; the
    trace specification checks them again)"""
    acts = []
    created, opened, recorded = 0, [], set()
    depth = {}
    lastsrc = {}

    def rec_action():
        r = rnd.choice(opened + [0] if rnd.random() < 0.85 and opened else [0] + opened)
        t = rnd.randint(1, 3)
        x = rnd.random()
        d = depth.get((r, t), 0)
        if x < 0.12 and d > 0:
            depth[(r, t)] = d - 1
            return {"a": "REnd", "arg": {"r": r, "t": t, "src": "", "csrc": "", "val": 0}}
        src = lastsrc[t] if t in lastsrc and rnd.random() < 0.55 else rnd.choice(["L1", "L2", "D", "BUF"])
        lastsrc[t] = src
        recorded.add(r)
        if x < 0.30 and d < 3:
            depth[(r, t)] = d + 1
            return {"a": "RBegin", "arg": {"r": r, "t": t, "src": src, "csrc": rnd.choice(["", "L1", "L2", "BUF"]), "val": 0}}
        if x < 0.45:
            return {"a": "RCounter", "arg": {"r": r, "t": t, "src": src, "csrc": "", "val": str(rnd.choice(COUNTER_EDGES + [rnd.getrandbits(rnd.randint(1, 64))]))}}
        return {"a": "RMarker", "arg": {"r": r, "t": t, "src": src, "csrc": rnd.choice(["", "", "L2"]), "val": 0}}

    for _ in range(n):
        x = rnd.random()
        if x < 0.10 and created < 4:
            created += 1
            opened.append(created)
            acts.append({"a": "RCreate", "arg": {"r": created}})
        elif x < 0.20 and opened:
            r = rnd.choice(opened)
            if r in recorded:
                opened.remove(r)
                acts.append({"a": "RDestroy", "arg": {"r": r}})
        elif x < 0.32:
            acts.append({"a": "RSave", "arg": {"r": rnd.choice(opened + [0]), "pname": rnd.choice(["", "proc"]), "raw": True}})
        else:
            acts.append(rec_action())
    for r in opened + [0]:
        acts.append({"a": "RSave", "arg": {"r": r, "pname": "", "raw": True}})
    if rnd.random() < 0.5:          # every log of this process is written to one and the same file, longer and shorter ones in turn
        for st in acts:
            if st["a"] == "RSave":
                st["arg"]["samepath"] = True
    return acts


def session_lines(acts, r):
    if "crash" in r or "timeout" in r:
        kind = "crash" if "crash" in r else "timeout"
        k = r[kind].get("step", 0)
        return [{"e": kind, "during": acts[k]["a"] if 0 <= k < len(acts) else None, "obs": r[kind]}]
    lines = []
    kind = {"RBegin": "B", "REnd": "E", "RMarker": "i", "RCounter": "C"}
    for st, o in zip(acts, r["obs"]):
        a, arg = st["a"], st["arg"]
        if "unexpected_exception" in o:
            lines.append({"e": "crash", "during": a, "obs": o})
            break
        if a == "RCreate":
            lines.append({"e": "Create", "r": arg["r"]})
        elif a == "RDestroy":
            lines.append({"e": "Destroy", "r": arg["r"]})
        elif a in SESSION_REC:
            lines.append({"e": "Rec", "r": arg["r"], "t": arg["t"], "k": kind[a], "name": o.get("name", ""), "cat": o.get("cat", ""),
                          "val": str(arg["val"]) if a == "RCounter" else ""})
        elif a == "RSave":
            if o.get("json") != "wellformed":
                lines.append({"e": "malformed", "r": arg["r"], "why": o.get("why"), "head": o.get("head"), "tail": o.get("tail")})
                break
            if "log" not in o:
                raise tla.InfraError("driver did not report the raw log of a session")
            lines.append({"e": "Save", "r": arg["r"], "log": o["log"]})
    return lines


def validate_sessions(chk, execs, acts, tag):
    if not execs:
        return
    acc, rej, stats = trace.validate(os.path.join(SPEC_LOG, "TraceSessionsTrace.tla"), os.path.join(SPEC_LOG, "TraceSessionsTrace.cfg"),
                                     execs, tag, workers=1, timeout=2400, reset_key="e", max_rejections=6)
    chk.cov["traces_validated_against_impl"] += acc + len(rej)
    chk.cov.setdefault("trace_events_validated", 0)
    chk.cov["trace_events_validated"] += stats["events"]
    chk.log("trace validation %s: %d session executions accepted, %d rejected, %d lines, %d TLC run(s), %.1fs"
            % (tag, acc, len(rej), stats["events"], stats["tlc_runs"], stats["wall"]))
    chk.cov["models"].append({"module": "TraceSessionsTrace/" + tag, "executions": acc + len(rej), "rejected": len(rej), "lines": stats["events"],
                              "distinct_states": stats["states"], "wall_s": round(stats["wall"], 1),
                              "what": "seeded random session executions of the real recorders + their parsed log files, validated per recorder"})
    for rj in rej:
        ev = rj["event"]
        e = ev.get("e")
        field = {"malformed": "json", "crash": "crash", "timeout": "timeout", "Save": "log-rejected"}.get(e, "trace-rejected")
        sig = "tracing/%s(sessions=random)/%s" % (ev.get("during") or "RSave", field)
        what = "tracing: session execution rejected by TraceSessionsTrace at line %d of %d: %s" % (rj["line"], len(execs[rj["exec"]]), json.dumps(ev)[:500])
        chk.violation(sig, what, {"kind": "session-trace", "property": chk.pid, "tag": tag, "actions": acts[rj["exec"]], "rejected_at": rj["line"],
                                  "context": execs[rj["exec"]][max(0, rj["line"] - 4):rj["line"] + 1]})


def start_sessions_graph(chk, quick):
    """TLC's state graph of the sessions instance, computed beside the other parts (the thread touches nothing of chk)"""
    box = {}
    gcfg = "TraceSessionsGen.cfg" if quick else "TraceSessionsGen_thorough.cfg"

    def work():
        try:
            box["g"] = graph_from_edges(chk, gcfg, "c20-sessions-gen", module="TraceSessionsGen")
        except Exception as ex:
            box["ex"] = ex
    th = threading.Thread(target=work)
    th.start()
    return th, box, gcfg


def run_sessions(chk, quick, tmp, rnd, pending):
    exe = build.build("drv_tracelog", san=SAN)
    meta = {"tmpdir": tmp}
    th, box, gcfg = pending
    th.join()
    if "ex" in box:
        raise box["ex"]
    ag, r = box["g"]
    chk.add_model("TraceSessionsGen/" + gcfg, r,
                  "recorder sessions: %d abstract states, %d abstract transitions; invariant SessionLaw (a recorder's log is accepted for it, "
                  "another recorder's only when they recorded the same), action properties GSaveAgrees, GRecordAgrees" % (len(ag.states), ag.nedges))
    hs, nhot, nrest = session_histories(ag, chk.seed, quick)
    hs = [canon_history(h) for h in sort_keys(hs)]
    chk.count_actions(hs)
    chk.require_actions(["RCreate", "RDestroy", "RMarker", "RCounter", "RBegin", "REnd", "RSave"])
    classes = {st["cls"] for h in hs for st in h if st["a"] == "RSave"}
    need = {"log=nonempty,sessions=after-destroy", "log=nonempty,sessions=overlapping", "log=nonempty,sessions=single", "log=empty,sessions=after-destroy"}
    if not need <= classes:
        raise tla.InfraError("vacuity guard: RSave classes never exercised: %s" % sorted(need - classes))
    res, rc, stderr, wall = run_parallel(exe, hs, "c20-sessions", 12, meta)
    canon_results(res)
    n = report_mismatches(chk, hs, res, rc, stderr, "c20-sessions", "tracing", meta, exe)
    same = sum((((res.get(i) or {}).get("obs") or [{}])[-1] or {}).get("same_ptr_after_destroy", 0) for i in range(len(hs)))
    chk.log("tracing sessions: %d histories (one process each; %d with a destroyed and an open recorder, %d others) replayed on real "
            "TraceRecorder instances (%d mismatching) in %.1fs" % (len(hs), nhot, nrest, n, wall))
    chk.cov["distinct_nontrivial"] += adtcheck._nontrivial_distinct(hs, SESSION_REC)
    smp = next((h for h in hs if sum(1 for st in h if st["a"] == "RDestroy") == 1 and sum(1 for st in h if st["a"] in SESSION_REC) == 2
                and len({st["arg"]["src"] for st in h if st["a"] == "RMarker"}) == 1 and h[-1]["cls"] == "log=nonempty,sessions=after-destroy"), hs[len(hs) // 2])
    chk.add_sample({"kind": "history", "object": "recorder sessions", "steps": smp}, maxn=12)

    # seeded random session executions, validated by TLC
    nexec = 80 if quick else 1500
    acts = [rand_session_actions(rnd, rnd.randint(20, 60)) for _ in range(nexec)]
    chk.count_actions(acts)
    res, rc, stderr, wall = run_parallel(exe, acts, "c20-sessions-rec", 12, meta)
    execs = []
    for i, a in enumerate(acts):
        rr = res.get(i)
        if rr is None:
            raise tla.InfraError("driver %s gave no result for session execution %d (rc=%s): %s" % (exe, i, rc, stderr[-1500:]))
        execs.append(session_lines(a, rr))
        same += next((o.get("same_ptr_after_destroy", 0) for o in reversed(rr.get("obs") or []) if isinstance(o, dict) and "same_ptr_after_destroy" in o), 0)
    chk.cov["evaluations"] += len(acts)
    chk.cov["distinct_nontrivial"] += len({json.dumps(a, sort_keys=True) for a in acts})
    validate_sessions(chk, execs, acts, "c20-sessions")
    chk.cov["sessions"] = {"state_histories": len(hs), "states_with_destroyed_and_open_recorder": nhot, "other_states_sampled": nrest,
                           "random_executions": len(acts), "events_with_name_pointer_last_used_in_a_destroyed_recorder": same}
    need_same = 40 if quick else 500
    if same < need_same and not chk.violations:
        raise tla.InfraError("vacuity guard: only %d events whose name pointer was the last one the same thread used in an earlier, destroyed "
                             "recorder (need %d)" % (same, need_same))
    chk.log("sessions: %d events recorded with the name pointer the same thread had last used in an earlier, already destroyed recorder" % same)


# ---------------------------------------------------------------------------
def make_tmp(tag):
    d = os.path.join(tla.WORK, "run", "c20-tmp-%s-%d" % (tag, os.getpid()))
    shutil.rmtree(d, ignore_errors=True)
    os.makedirs(d)
    return d


BIG_WHAT = ("PixLaws, index laws on a large size by counting, then one case per writer x size: sampled positions around every block "
            "boundary + per-row sums of every sample")


def gen_big_cases(quick, out, parts=("wide", "tall", "mid", "sweep")):
    """the three independent parts of ImageWritersBigGen, each its own TLC run, beside one another (the threads only run TLC
    and read what it wrote; the bookkeeping is done by the caller)"""
    import glob

    def work(part):
        try:
            cfg = "ImageWritersBigGen_%s%s.cfg" % (part, "" if quick or part == "mid" else "_thorough")
            to = 6000
            d = os.path.join(tla.WORK, "cases", "c20-images-" + part)
            os.makedirs(d, exist_ok=True)
            prefix = os.path.join(d, "cases-%d" % os.getpid())
            for f in glob.glob(prefix + "*"):
                os.remove(f)
            r = tla.run_tlc(os.path.join(SPEC_IMG, "ImageWritersBigGen.tla"), os.path.join(SPEC_IMG, cfg), workers=1, timeout=to,
                            env={"OUT": prefix}, tag="c20-images-" + part)
            if not r.ok:
                raise tla.InfraError("case-generation module ImageWritersBigGen/%s failed: violated=%s error=%s\n%s" % (cfg, r.violated, r.error, r.out[-2500:]))
            cases = []
            for f in sorted(glob.glob(prefix + "*")):
                with open(f) as fh:
                    cases += [json.loads(line) for line in fh if line.strip()]
                os.remove(f)
            if not cases:
                raise tla.InfraError("ImageWritersBigGen/%s emitted no cases" % cfg)
            out[part] = (cfg, r, sort_keys(cases))
        except Exception as ex:
            out[part] = ex
    ths = [threading.Thread(target=work, args=(p,)) for p in parts]
    for t in ths:
        t.start()
    return ths


def run_images(chk, quick, tmp):
    exe = build.build("drv_files", san=SAN)
    cases = sort_keys(funcheck.gen_cases(chk, SPEC_IMG, "ImageWritersGen", "ImageWritersGen.cfg" if quick else "ImageWritersGen_thorough.cfg",
                                         "c20-images", workers=1,
                                         what="index-map laws of the six writers on every size (in-bounds, bijective, row involution, header), "
                                              "negative control for the selection as written in SaveImage.h, then one case per writer x size x buffer"))
    hs = [[c] for c in cases]
    chk.count_actions(hs)
    chk.require_actions(WRITERS)
    meta = {"tmpdir": tmp}
    res, rc, stderr, wall = run_parallel(exe, hs, "c20-images", 4, meta)
    n = report_mismatches(chk, hs, res, rc, stderr, "c20-images", "SaveImage", meta, exe)
    chk.log("SaveImage: %d cases written by the real writers and decoded (%d mismatching) in %.1fs" % (len(hs), n, wall))
    nontrivial = {json.dumps([c["a"], c["arg"]["w"], c["arg"]["h"], c["arg"]["buf"]]) for c in cases if c["arg"]["w"] * c["arg"]["h"] > 1}
    chk.cov["distinct_nontrivial"] += len(nontrivial)
    chk.cov["image_cases"] = len(cases)
    chk.cov["image_cases_by_writer"] = {w: sum(1 for c in cases if c["a"] == w) for w in WRITERS}
    chk.cov["exhaustive_image_domain"] = True
    smp = next(c for c in cases if c["a"] == "writePPM" and c["arg"]["w"] == 2 and c["arg"]["h"] == 2 and c["arg"]["buf"] == "exact")
    chk.add_sample({"kind": "image-case", "case": smp}, maxn=8)
    smp = next(c for c in cases if c["a"] == "writePFM_vec3fa" and c["arg"]["w"] == 1 and c["arg"]["h"] == 2 and c["arg"]["buf"] == "exact")
    chk.add_sample({"kind": "image-case", "case": smp}, maxn=8)

    return cases


def run_large_images(chk, quick, tmp, pending, cases):
    """large images: wide, tall, mid-size, byte sweeps (pattern content, sampled positions + per-row aggregates); TLC computed the
    cases beside everything else"""
    ths, big = pending
    for t in ths:
        t.join()
    exe = build.build("drv_files", san=SAN)
    meta = {"tmpdir": tmp}
    bcases = collect_big(chk, big, ("wide", "tall", "mid", "sweep"))
    run_big_images(chk, exe, bcases, "c20-images-big", meta)
    specials = [c for c in cases if "values=special" in c.get("cls", "")]
    if len({v for c in specials for v in c["arg"]["pix"]}) < 16:
        raise tla.InfraError("vacuity guard: not every special float value occurs in a case")
    sweep = {c["arg"]["pat"] - 100 for c in bcases if c["arg"]["pat"] >= 100}
    for v in (0, 10, 13, 26, 127, 128, 255):
        if v not in sweep:
            raise tla.InfraError("vacuity guard: byte value %d is not swept through the first / last positions" % v)
    chk.cov["image_value_classes"] = {"special_float_cases": len(specials), "byte_values_swept": len(sweep)}
    # HISTORY: the same writers called again and again in ONE process, wide and narrow images in turn (anything a writer keeps between
    # two calls - a static or thread-local row buffer, a cached size - is now in play); expectations are the cases' own
    rnd = random.Random(chk.seed)
    pool = [c for c in bcases if c["arg"]["w"] * c["arg"]["h"] <= 20000] + [c for c in cases if c["arg"]["buf"] == "exact"]
    rnd.shuffle(pool)
    batches = [pool[i:i + 16] for i in range(0, len(pool), 16)]
    res, rc, stderr, wall = run_parallel(exe, batches, "c20-images-seq", 6, meta)
    n = report_mismatches(chk, batches, res, rc, stderr, "c20-images-seq", "SaveImage", meta, exe)
    chk.log("SaveImage: %d sequences of 16 images each written one after the other in one process (%d mismatching) in %.1fs" % (len(batches), n, wall))
    chk.cov["image_sequences"] = {"sequences": len(batches), "images": len(pool)}


def collect_big(chk, big, parts):
    bcases = []
    for part in parts:
        if isinstance(big.get(part), Exception):
            raise big[part]
        cfg, r, cs = big[part]
        chk.cov["models"].append({"module": "ImageWritersBigGen/" + cfg, "cases_emitted": len(cs), "wall_s": round(r.wall, 1), "what": BIG_WHAT})
        chk.cov["states"] += 1
        chk.cov["transitions"] += 1
        chk.log("TLC ImageWritersBigGen/%s: laws checked, %d cases emitted in %.1fs" % (cfg, len(cs), r.wall))
        bcases += cs
    return bcases


def run_huge_images(chk, quick, tmp, pending):
    """one dimension around 2^16, images of about 2^16 pixels: TLC computed these cases beside everything else"""
    ths, big = pending
    for t in ths:
        t.join()
    exe = build.build("drv_files", san=SAN)
    hcases = collect_big(chk, big, ("huge",))
    run_big_images(chk, exe, hcases, "c20-images-huge", {"tmpdir": tmp}, guard=False)
    for w in WRITERS:
        if not any(c["a"] == w and c["arg"]["w"] > 65536 for c in hcases) or not any(c["a"] == w and c["arg"]["h"] > 65536 for c in hcases):
            raise tla.InfraError("vacuity guard: no image wider / taller than 65536 for %s" % w)


def run_big_images(chk, exe, bcases, tag, meta, guard=True):
    hs = [[c] for c in bcases]
    chk.count_actions(hs)
    res, rc, stderr, wall = run_parallel(exe, hs, tag, 6, meta)
    # harness self-check: the driver's mirror of Pix must reproduce the spot values TLC computed (else the inputs are not the
    # specification's inputs and nothing observed means anything)
    compared = {w: {"w>1024": 0, "w>2048": 0, "h>1024": 0, "h>2048": 0} for w in WRITERS}
    for i, c in enumerate(bcases):
        r = res.get(i) or {}
        o = (r.get("obs") or [None])[0]
        if isinstance(o, dict) and "spots" in o:
            if o["spots"] != c["arg"]["spots"]:
                raise tla.InfraError("the driver's pattern formula disagrees with the specification's Pix: case %s %dx%d pattern %d: TLC %s, driver %s"
                                     % (c["a"], c["arg"]["w"], c["arg"]["h"], c["arg"]["pat"], c["arg"]["spots"], o["spots"]))
        if isinstance(o, dict) and o.get("decodable") and "rowsum" in o:
            for k, v in (("w>1024", c["arg"]["w"] > 1024), ("w>2048", c["arg"]["w"] > 2048), ("h>1024", c["arg"]["h"] > 1024), ("h>2048", c["arg"]["h"] > 2048)):
                if v:
                    compared[c["a"]][k] += 1
    n = report_mismatches(chk, hs, res, rc, stderr, tag, "SaveImage", meta, exe)
    chk.log("SaveImage: %d large images (wide / tall / mid-size) written by the real writers and decoded (%d mismatching) in %.1fs" % (len(hs), n, wall))
    if not chk.is_replay and guard:
        for w in WRITERS:
            for k in ("w>1024", "w>2048", "h>1024", "h>2048"):
                if compared[w][k] == 0 and n == 0:
                    raise tla.InfraError("vacuity guard: no decoded case with %s for %s" % (k, w))
    chk.cov["distinct_nontrivial"] += len({json.dumps([c["a"], c["arg"]["w"], c["arg"]["h"]]) for c in bcases})
    chk.cov["large_image_cases" if guard else "huge_image_cases"] = {"cases": len(bcases), "compared_by_writer": compared,
                                    "samples_in_row_aggregates": sum(c["arg"]["w"] * c["arg"]["h"] * len(c["exp"]["samples"][0][0]) for c in bcases),
                                    "sampled_positions": sum(len(c["arg"]["rows"]) * len(c["arg"]["cols"]) for c in bcases)}
    smp = next((c for c in bcases if c["a"] == "writePGM" and c["arg"]["w"] == 1025 and c["arg"]["h"] == 1), None)
    if smp:
        chk.add_sample({"kind": "large-image-case", "case": smp}, maxn=10)


def run_tracelog(chk, quick, tmp, rnd):
    exe = build.build("drv_tracelog", san=SAN)
    meta = {"tmpdir": tmp}
    # 1. design level, beside the rest (independent of it)
    mc = {}

    def run_mc():
        try:
            cfg = "TraceLogMC.cfg" if quick else "TraceLogMC_thorough.cfg"
            mc["r"] = tla.run_tlc(os.path.join(SPEC_LOG, "TraceLogMC.tla"), os.path.join(SPEC_LOG, cfg), workers=6, timeout=3000, tag="c20-mc")
            if not quick:
                mc["r2"] = tla.run_tlc(os.path.join(SPEC_LOG, "TraceLogMC.tla"), os.path.join(SPEC_LOG, "TraceLogMC_thorough2.cfg"), workers=6,
                                       timeout=3000, tag="c20-mc2")
            mc["neg"] = tla.run_tlc(os.path.join(SPEC_LOG, "TraceLogMC.tla"), os.path.join(SPEC_LOG, "TraceLogMC_neg.cfg"), workers=2, timeout=900,
                                    tag="c20-mc-neg")
            mc["neg2"] = tla.run_tlc(os.path.join(SPEC_LOG, "TraceLogMC.tla"), os.path.join(SPEC_LOG, "TraceLogMC_neg2.cfg"), workers=2, timeout=900,
                                     tag="c20-mc-neg2")
        except Exception as ex:
            mc["ex"] = ex
    th = threading.Thread(target=run_mc)
    th.start()

    # 2. spec -> code: the states of the two generation instances, one process per history
    #    (a) every thread alive until saveLog, longer sequences; (b) threads that end and are followed by others, shorter sequences
    hs, rw = [], []
    geninfo = {}
    for gcfg, select, what in [
        ("TraceLogGen.cfg" if quick else "TraceLogGen_thorough.cfg", settled, "all threads live until saveLog"),
        ("TraceLogGenLife.cfg" if quick else "TraceLogGenLife_thorough.cfg", lambda st: settled(st) and "done" in st["phase"],
         "threads end, later threads are created after them or beside them"),
        ("TraceLogGenNames.cfg", settled, "first event with a name that needs care in JSON or has a length around a buffer size; such process names"),
    ]:
        ag, r = graph_from_edges(chk, gcfg, "c20-gen")
        chk.add_model("TraceLogGen/" + gcfg, r,
                      "generation instance (%s): %d abstract states (per-thread event sequences, thread phases, ended-before-created "
                      "relation), %d abstract transitions; action properties GSaveAgrees, GLifeAgrees, GRecordAgrees" % (what, len(ag.states), ag.nedges))
        names = gcfg == "TraceLogGenNames.cfg"
        h1, w1, nsel = histories_from_graph(ag, chk.seed, 0 if names else (300 if quick else 3000), 14, select,
                                            all_upto=-1 if names else 2, rotate=2 if names else 1)
        geninfo[gcfg] = {"abstract_states": len(ag.states), "abstract_transitions": ag.nedges, "states_with_history": nsel,
                         "state_histories": len(h1), "random_walks_with_save": len(w1), "walk_len": 14}
        hs += h1
        rw += w1
    hs = [canon_history(h) for h in sort_keys(hs)]
    rw = [canon_history(h) for h in sort_keys(rw)]
    allh = hs + rw
    chk.count_actions(allh)
    chk.require_actions(["ThreadStart", "ThreadExit", "Begin", "End", "Marker", "Counter", "SaveLog"])
    classes = {st["cls"] for h in allh for st in h if st["a"] == "SaveLog"}
    need = {"log=empty,pname=none", "log=empty,pname=given", "log=nonempty,pname=none", "log=nonempty,pname=given",
            "log=nonempty,pname=none,threads=sequential", "log=nonempty,pname=given,threads=sequential",
            "names=escaping", "pname=escaping", "log=nonempty,pname=none,names=long", "log=nonempty,pname=given,names=long"}
    if not need <= classes:
        raise tla.InfraError("vacuity guard: SaveLog classes never exercised: %s" % sorted(need - classes))
    chk.cov["generation_TraceLog"] = geninfo
    res, rc, stderr, wall = run_parallel(exe, allh, "c20-log", 12, meta)
    canon_results(res)
    shared = resolve_alternatives(allh, res)
    n = report_mismatches(chk, allh, res, rc, stderr, "c20-log", "tracing", meta, exe)
    chk.log("tracing: %d histories (one process each) replayed on the real recorder (%d mismatching; %d observed logs in which threads "
            "that never coexisted share a tid) in %.1fs" % (len(allh), n, shared, wall))
    for i, h in enumerate(allh):
        o = ((res.get(i) or {}).get("obs") or [{}])[-1]
        seq = any("threads=sequential" in st.get("cls", "") for st in h if st["a"] == "SaveLog")
        note_lifetimes(chk, seq, len({st["arg"]["t"] for st in h if st["a"] in RECORDING}), o if h[-1]["a"] == "SaveLog" else None)
    chk.cov["distinct_nontrivial"] += adtcheck._nontrivial_distinct(allh, RECORDING)
    chk.add_sample({"kind": "history", "object": "trace recorder", "steps": hs[len(hs) // 3]}, maxn=8)
    smp = next((h for h in hs if "threads=sequential" in h[-1].get("cls", "") and len(h[-1].get("alt", [])) >= 2), None)
    if smp:
        chk.add_sample({"kind": "history", "object": "trace recorder, threads that follow one another", "steps": smp}, maxn=8)

    # 3. code -> spec: the same runs (raw logs) ...
    idx = [i for i, h in enumerate(hs) if i in res and "obs" in res[i] and len(res[i]["obs"]) == len(h)]
    if len(idx) > (3500 if quick else 12000):
        idx = sorted(random.Random(chk.seed).sample(idx, 3500 if quick else 12000))
    execs = [lines_of_short(hs[i], res[i]["obs"]) for i in idx]
    validate_executions(chk, execs, "c20-short", [{"history": hs[i]} for i in idx])
    # ... and long concurrent logs across the storage-chunk boundary
    cfgs = long_configs(quick, rnd)
    execs, sources, nev, first = record_long(chk, exe, cfgs, "c20-long", meta, 4)
    chk.require_actions(["RunThreads", "RunSequential"])
    sizes = sorted({p["n"] for c in cfgs if not c[0].startswith(("full-chunk", "chunk-1-save", "save-grow")) for st in c[1] if st["a"] == "RunThreads"
                    for p in st["arg"]["progs"]})
    for must in (CHUNK - 1, CHUNK, CHUNK + 1, 3 * CHUNK, 0, 1):
        if must not in sizes:
            raise tla.InfraError("vacuity guard: no thread recorded exactly %d events" % must)
    chk.cov["long_logs"] = {"executions": len(cfgs), "recorded_events": nev, "events_per_thread": sizes,
                            "max_threads": max(len(st["arg"]["progs"]) for c in cfgs for st in c[1] if st["a"] == "RunThreads")}
    rejected = validate_executions(chk, execs, "c20-long", sources)
    lt = chk.cov["thread_lifetimes"]
    if lt["executions_with_sequential_recording_threads"] == 0:
        raise tla.InfraError("vacuity guard: no executed history had two recording threads of which one ended before the other was created")
    if lt["executions_with_recycled_thread_id"] == 0:
        chk.note("infrastructure: the OS never handed a std::thread::id out twice in this run (%d executions with threads that follow one "
                 "another): what the recorder does with a recycled id was not exercised" % lt["executions_with_sequential_recording_threads"])
    chk.log("thread lifetimes: %d executions with recording threads that follow one another, %d in which a std::thread::id was recycled, "
            "%d in which threads share a tid in the log" % (lt["executions_with_sequential_recording_threads"],
                                                             lt["executions_with_recycled_thread_id"], lt["executions_with_shared_tid"]))
    ctl = first["control"]
    if rejected and (ctl in rejected or ctl > max(rejected)):
        chk.note("corrupted-trace control skipped: the control execution itself was rejected or not reached")
    else:
        corrupted_trace_control(chk, execs[ctl], "c20-control")
    chk.cov["distinct_nontrivial"] += sum(1 for e in execs if any(ln["e"] == "Rec" for ln in e))
    big = first["chunk+1"]
    chk.add_sample({"kind": "recorded-execution", "actions": sources[big]["actions"], "first_lines": execs[big][:3] + execs[big][CHUNK + 1:CHUNK + 4],
                    "lines": len(execs[big])}, maxn=8)

    th.join()
    if "ex" in mc:
        raise mc["ex"]
    chk.require_model_ok("TraceLogMC/" + ("TraceLogMC.cfg" if quick else "TraceLogMC_thorough.cfg"), mc["r"],
                         "recorder + lifetime invariants, AcceptLaw, RejectLaw (incl. lost thread, coexisting threads under one tid, "
                         "wrong chain order), NestLaw, EquivLaw, AltLaw, EmptyLaw in every reachable state")
    if "r2" in mc:
        chk.require_model_ok("TraceLogMC/TraceLogMC_thorough2.cfg", mc["r2"], "the same laws, 2 threads x 4 events, every creation order")
    if mc["neg"].violated != "RetagAlwaysRejected":
        raise tla.InfraError("negative control TraceLogMC_neg.cfg did not fail as expected: violated=%s error=%s" % (mc["neg"].violated, mc["neg"].error))
    chk.cov["models"].append({"module": "TraceLogMC/TraceLogMC_neg.cfg", "expected_violation": "RetagAlwaysRejected",
                              "what": "negative control: tids are identified only up to renaming"})
    if mc["neg2"].violated != "OneTidPerThread":
        raise tla.InfraError("negative control TraceLogMC_neg2.cfg did not fail as expected: violated=%s error=%s" % (mc["neg2"].violated, mc["neg2"].error))
    chk.cov["models"].append({"module": "TraceLogMC/TraceLogMC_neg2.cfg", "expected_violation": "OneTidPerThread",
                              "what": "negative control: threads that never coexisted may share a tid"})


def run(chk, replay=None):
    quick = chk.tier == "quick"
    rnd = random.Random(chk.seed)
    chk.assumptions += [
        "TLC explores the bounded instances completely; the image domain is enumerated completely by TLC (one injective content per size)",
        "component codes: RGBA8 component k of a uint32 pixel is (pixel >> 8k) & 255; code c of a float component is (c - 100) / 4; the "
        "one-channel formats select the last component of the pixel (alpha for PGM, the only float for writePFM<float>)",
        "a file is decodable when magic, width, height and maxval / scale parse, one whitespace byte follows and the payload holds all "
        "samples; PFM samples are decoded as the scale token says (sign = byte order, magnitude = factor); bytes after the payload are ignored",
        "out-of-bounds reads are observed through AddressSanitizer on a heap block of exactly width*height pixels",
        "large images: the driver's C++ mirror of Pix(pat, x, y, k) is the specification's function (checked on six spot values per case; "
        "a disagreement is an infrastructure error)",
        "a recording thread is a joinable std::thread created and joined by the driver's main thread, which stamps both on one logical "
        "clock; threads of which one was joined before the other was created may share a tid in the log (the OS recycles std::thread::id), "
        "their sequences then follow one another in that order; threads alive at the same time must have different tids; which tid a "
        "thread gets is not constrained; entries with ph = M and counters whose name no recorded counter uses are ignored; for end "
        "entries only the kind is constrained",
        "sessions: inside one recorder a name pointer always carries one text (the documented precondition of the recorder's pointer-keyed "
        "string cache); across recorders the same pointer may carry different texts; a dangling name is observed through AddressSanitizer",
        "a counter value is compared as the exact decimal numeral of the number the JSON token denotes (1e3 = 1000.0 = 1000); names that "
        "need care are symbols in the specification ('@quote', '@len256', ...) which the driver maps injectively to the texts and back; "
        "one stable pointer per distinct name text",
    ]
    if replay:
        return do_replay(chk, replay)
    tmp = make_tmp("run")
    try:
        pending = start_sessions_graph(chk, quick)
        big = {}
        bpending = (gen_big_cases(quick, big, parts=("wide", "tall", "mid", "sweep", "huge")), big)
        cases = run_images(chk, quick, tmp)
        run_tracelog(chk, quick, tmp, rnd)
        run_sessions(chk, quick, tmp, rnd, pending)
        run_large_images(chk, quick, tmp, bpending, cases)
        run_huge_images(chk, quick, tmp, bpending)
    finally:
        shutil.rmtree(tmp, ignore_errors=True)
    chk.cov["rule"] = ("image cases: TLC enumerates writer x size x buffer kind after checking the index-map laws; a case is non-trivial when the "
                       "image has more than one pixel; distinct = distinct (writer, width, height, buffer); large images: one case per writer x "
                       "size, all non-trivial.  trace-log histories: one shortest "
                       "path of TLC's complete state graph to every abstract state in which every created thread has recorded (second instance: "
                       "and some thread has ended), followed by SaveLog (both process-name variants up to two "
                       "events, alternating beyond), plus seeded random walks containing a SaveLog; one process per history; non-trivial = "
                       "records at least one event; distinct = distinct (action, argument) sequences.  recorded executions: the short "
                       "histories' raw logs and seeded long concurrent logs, each validated by TLC; counted non-trivial when at least one "
                       "event was recorded")


def do_replay(chk, path):
    rep = json.load(open(path))
    tmp = make_tmp("replay")
    try:
        meta = dict(rep.get("meta") or {})
        meta["tmpdir"] = tmp
        if rep["kind"] == "history":
            img = rep["sig_prefix"] == "SaveImage"
            exe = build.build("drv_files" if img else "drv_tracelog", san=SAN)
            h = [canon_history(rep["history"])]
            res, rc, stderr, wall = run_parallel(exe, h, "replay", 1, meta)
            canon_results(res)
            resolve_alternatives(h, res)
            report_mismatches(chk, h, res, rc, stderr, "replay", rep["sig_prefix"], meta, exe)
        elif rep["kind"] == "session-trace":
            exe = build.build("drv_tracelog", san=SAN)
            acts = rep["actions"]
            res, rc, stderr, wall = run_parallel(exe, [acts], "replay", 1, meta)
            if 0 not in res:
                raise tla.InfraError("no result on replay: %s" % stderr[-1500:])
            validate_sessions(chk, [session_lines(acts, res[0])], [acts], "replay")
        else:
            exe = build.build("drv_tracelog", san=SAN)
            src = rep["source"]
            if "actions" in src:
                acts = src["actions"]
                res, rc, stderr, wall = run_parallel(exe, [acts], "replay", 1, meta, timeout_ms=900000)
                if 0 not in res:
                    raise tla.InfraError("no result on replay: %s" % stderr[-1500:])
                parts = lines_of_long(acts, res[0])
            else:
                h = src["history"]
                res, rc, stderr, wall = run_parallel(exe, [h], "replay", 1, meta)
                if 0 not in res:
                    raise tla.InfraError("no result on replay: %s" % stderr[-1500:])
                r = res[0]
                parts = [lines_of_short(h, r["obs"])] if "obs" in r and len(r["obs"]) == len(h) else lines_of_long(h, r)
            validate_executions(chk, parts, "replay", [src] * len(parts))
    finally:
        shutil.rmtree(tmp, ignore_errors=True)
    chk.cov["evaluations"] = max(chk.cov["evaluations"], 1)
