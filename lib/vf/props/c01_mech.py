"""Mechanism models of the Internal tasking backend (enkiTS scheduler, lock-free pipe) used by C01 and C02,
and the conformance run of the real LockLessMultiReadPipe against PipeContract."""
import json, os, subprocess
from concurrent.futures import ThreadPoolExecutor
from .. import tla, build, trace
from ..tla import VERIF, WORK, InfraError

SPEC = os.path.join(VERIF, "spec", "tasking")


def _run(module, cfg, workers=4, timeout=2400):
    return tla.run_tlc(os.path.join(SPEC, module + ".tla"), os.path.join(SPEC, cfg), workers=workers, timeout=timeout, tag=cfg.replace(".cfg", ""))


def run_models(chk, quick, which=("sched", "pipe")):
    jobs = []
    if "sched" in which:
        jobs += [
            ("EnkiTS", "EnkiTS_full.cfg", "holds", "2 threads, pipe capacity 1 with a foreign entry queued (pipe-full branch), 5 indices"),
            ("EnkiTS", "EnkiTS_withF.cfg", "holds", "2 threads, a schedule() task before the parallel_for: no touch after release"),
            ("EnkiTS", "EnkiTS_neg_split.cfg", "refuted", "negative control: pipe-full branch compares m_RangeToRun with the requested split (code as pinned) -> NoOob"),
            ("EnkiTS", "EnkiTS_neg_free.cfg", "refuted", "negative control: schedule() task deletes itself inside ExecuteRange (code as pinned) -> NoUaf"),
        ]
        jobs += [("EnkiTS", "EnkiTS_cuts_2_5.cfg", "holds", "2 threads, 5 indices, no pipe-full branch: every Exec range is a partition of EnkiCuts (ExecAtCuts)"),
                 ("EnkiTS", "EnkiTS_cuts_3_7.cfg", "holds", "3 threads, 7 indices: ExecAtCuts, NoFullBranch")]
        if not quick:
            jobs += [("EnkiTS", "EnkiTS_cuts_3_13.cfg", "holds", "3 threads, 13 indices (ranges of 2): ExecAtCuts, NoFullBranch")]
        if not quick:
            jobs += [("EnkiTS", "EnkiTS_3t.cfg", "holds", "3 threads, capacity 2, 6 indices"),
                     ("EnkiTS", "EnkiTS_3t_full.cfg", "holds", "3 threads, capacity 1 + foreign entry, schedule() task, 5 indices")]
    if "pipe" in which:
        # coverage beyond the listed properties: the multi-writer intrusive list behind enkiTS's pinned tasks (not reachable
        # through rkcommon's public tasking API).  TLC refutes NoLoss (a reader that finds the writer between its exchange of
        # the head and the store of the link drops the rest of the list); recorded as a note, no property is attached to it.
        jobs += [("IntrusiveList", "IntrusiveList.cfg", "note", "enkiTS LocklessMultiWriteIntrusiveList, 2 writers x 2 nodes: NoDup, OnlyAdded, NoLoss")]
        jobs += [("Pipe", "Pipe_q.cfg" if quick else "Pipe_t.cfg", "holds", "2 slots, writer ops %d, 2 readers: NoDup, OnlyWritten, NoLoss" % (3 if quick else 4)),
                 ("Pipe", "Pipe_neg.cfg", "refuted", "negative control: reader CAS split into load and store -> NoDup")]

    def one(j):
        return _run(j[0], j[1], workers=6)

    with ThreadPoolExecutor(max_workers=3) as ex:
        res = list(ex.map(one, jobs))
    for (module, cfg, expect, what), r in zip(jobs, res):
        if r.error:
            raise InfraError("TLC error in %s/%s: %s" % (module, cfg, r.error[:1500]))
        if expect == "holds":
            chk.require_model_ok(module + "/" + cfg, r, what)
        elif expect == "note":
            chk.add_model(module + "/" + cfg, r, what + " -> " + ("holds" if r.ok else "refuted (%s): design-level observation outside the listed properties" % r.violated))
        else:
            if r.ok:
                raise InfraError("non-vacuity: TLC did not refute the negative control %s" % cfg)
            chk.add_model(module + "/" + cfg, r, what + " -> refuted as required (%s)" % r.violated)


def _pipe_exec(exe, seed, execs, ops, readers, log2, tag):
    d = os.path.join(WORK, "run", tag)
    os.makedirs(d, exist_ok=True)
    outp = os.path.join(d, "pipe-%d.ndjson" % os.getpid())
    p = subprocess.run([exe, "--out", outp, "--seed", str(seed), "--execs", str(execs), "--ops", str(ops), "--readers", str(readers),
                        "--slotslog2", str(log2)], stdout=subprocess.PIPE, stderr=subprocess.STDOUT, timeout=600)
    if p.returncode != 0:
        raise InfraError("pipe driver failed rc=%s: %s" % (p.returncode, p.stdout.decode()[-800:]))
    out = [json.loads(l)["events"] for l in open(outp) if l.strip()]
    os.remove(outp)
    return out


def run_pipe_conformance(chk, quick):
    exe = build.build("drv_pipe", backend="Internal")
    total = 0
    for log2, readers in ((1, 3), (2, 3), (1, 1)):
        execs = _pipe_exec(exe, chk.seed + log2 * 10 + readers, 150 if quick else 1500, 60, readers, log2, "c01-pipe")
        got = sum(1 for e in execs for x in e if x["ev"] == "Got")
        full = sum(1 for e in execs for x in e if x["ev"] == "WRet" and not x["ok"])
        acc, rej, st = trace.validate(os.path.join(SPEC, "PipeContract.tla"), os.path.join(SPEC, "PipeContract.cfg"), execs,
                                      "c01-pipe-%d-%d" % (log2, readers), reset_key="ev", max_rejections=3)
        chk.cov["traces_validated_against_impl"] += acc + len(rej)
        chk.cov["evaluations"] += len(execs)
        chk.cov["distinct_nontrivial"] += len({json.dumps(e) for e in execs})
        total += st["events"]
        chk.log("real LockLessMultiReadPipe<%d slots>, %d readers: %d executions (%d items handed out, %d writes refused because full), "
                "%d accepted / %d rejected by PipeContract" % (1 << log2, readers, len(execs), got, full, acc, len(rej)))
        if got == 0 or full == 0:
            raise InfraError("vacuity guard: pipe executions never filled the pipe or never read (got=%d full=%d)" % (got, full))
        for rj in rej:
            ev = execs[rj["exec"]]
            e = ev[rj["line"]]
            field = {"Got": "item-handed-out-twice-or-never-written", "End": "item-lost", "WRet": "failed-write-was-read"}.get(e["ev"], e["ev"])
            chk.violation("Internal/LockLessMultiReadPipe<%d>(readers=%d)/%s" % (1 << log2, readers, field),
                          "real pipe with %d slots: event %d %s is not allowed by PipeContract" % (1 << log2, rj["line"], json.dumps(e)),
                          {"kind": "pipe", "slotslog2": log2, "readers": readers, "events": ev, "rejected_at": rj["line"]})
    chk.cov["pipe_events_validated"] = total
    # coverage beyond the listed properties: the real LocklessMultiWriteIntrusiveList against the same exactly-once
    # contract (3 writers, 1 reader, 2 CPUs).  It is not reachable through rkcommon's public API, so a rejection is
    # reported as a note that binds the IntrusiveList.tla counter-example to the code - never as a VIOLATION of C01.
    d = os.path.join(WORK, "run", "c01-ilist")
    os.makedirs(d, exist_ok=True)
    outp = os.path.join(d, "ilist-%d.ndjson" % os.getpid())
    p = subprocess.run([exe, "--out", outp, "--seed", str(chk.seed), "--execs", "60" if quick else "400", "--ops", "40", "--list", "3", "--cpus", "2"],
                       stdout=subprocess.PIPE, stderr=subprocess.STDOUT, timeout=600)
    if p.returncode == 0 and os.path.exists(outp):
        execs = [json.loads(l)["events"] for l in open(outp) if l.strip()]
        os.remove(outp)
        acc, rej, st = trace.validate(os.path.join(SPEC, "PipeContract.tla"), os.path.join(SPEC, "PipeContract.cfg"), execs,
                                      "c01-ilist", reset_key="ev", max_rejections=6)
        chk.cov["intrusive_list_extra"] = {"executions": len(execs), "rejected_at_least": len(rej)}
        chk.note("coverage beyond the listed properties: enkiTS LocklessMultiWriteIntrusiveList (pinned-task list, not reachable through "
                 "rkcommon's API): at least %d of %d real executions lose nodes (rejected by PipeContract at End; validation stops after 6 "
                 "rejections), as TLC's counter-example to NoLoss on IntrusiveList.tla predicts" % (len(rej), len(execs)))


def replay_pipe(chk, rep):
    # a concurrent trace is itself the evidence: it is re-validated, not re-executed
    acc, rej, st = trace.validate(os.path.join(SPEC, "PipeContract.tla"), os.path.join(SPEC, "PipeContract.cfg"), [rep["events"]],
                                  "c01-pipe-replay", reset_key="ev")
    chk.cov["evaluations"] += 1
    for rj in rej:
        chk.violation("Internal/LockLessMultiReadPipe<%d>(readers=%d)/replay" % (1 << rep["slotslog2"], rep["readers"]),
                      "replayed pipe trace rejected at %d" % rj["line"], rep)
