"""C13 - the configured tasking thread count is reported and never exceeded."""
import json, os, random, re, subprocess, time
from concurrent.futures import ThreadPoolExecutor
from .. import tla, build, adt
from ..tla import VERIF, WORK, InfraError

LEVEL = "model_checking"
LEVEL_TEXT = ("The contract TaskingInit (state: initialised?, count in force; Init(n), Query -> r, Loop -> order of body entries and exits) is "
              "model-checked by TLC on a bounded instance per backend kind: the rule recorded loops are judged by (largest prefix sum of the "
              "entry/exit order <= count in force) is shown equal to 'at no moment more threads inside bodies than the count' on loops unfolded "
              "into single entries and exits, the contract's state agrees with the declarative reading of the statement over every history of "
              "initialisations, and the allowed answers obey the laws of the statement (0 before initialisation; exactly n - 1 when serial - "
              "after the latest positive n; positive for the default; never exceeded by an allowed loop).  ALL histories of Init / Query / Loop "
              "of length 2 (quick) / 3 (thorough) over the arguments -1, 0, 1, 2, 3, 8, 2H, issuing thread = initialising thread or a second "
              "std::thread, flat and nested loops - taken as paths of TLC's complete state graph - plus one history per transition, a seeded sample "
              "of all histories one step longer and long seeded random walks over every n in -2..2H+1 are executed on the real initTaskingSystem / "
              "numTaskingThreads / parallel_for of all four backends, each history in a fresh process; exact answers are compared with the values "
              "TLC computed and every execution (answers, and the entry/exit order of the loop bodies stamped by one atomic counter) is validated "
              "by TLC against the contract.  A boundary instance of the specification adds the corners of the quantifier: counts H-1, H, H+1, "
              "2H-1, 2H and far negative ones, initialisation from another thread / with flushDenormals, a thread that exists before the first "
              "initialisation, loop sizes computed by the specification from the count in force (0, 1, n-1, n, n+1, 4n, 4n+1, 1025, 4097; thorough "
              "65537), every index type and loop API, bursts of 255 / 256 / 257 (thorough also 4096 / 65536 +-1) re-initialisations or loops as "
              "single macro actions (TLC checks that a burst is the iteration of single steps and that a concatenated recording is judged like its "
              "parts), two loops issued at the same moment by two threads; every option of that alphabet is executed after 'count set' and 'count "
              "replaced' (thorough: one history per transition of its graph).")
LEVEL_NOTE = ("the observed concurrency is a sound lower bound (bodies whose entry..exit stamp intervals overlap were really inside at the same "
              "time); a loop that over-subscribes without the recorder seeing the overlap is missed, never the converse; schedules are whatever the "
              "backend runtime produces (perturbed by loop size, lingering and body cost drawn from the seed), not enumerated; one thread acts at a "
              "time except in LoopPair (two simultaneous calls, each call bounded on its own; not run on the Internal backend, whose scheduler is "
              "single-producer per thread slot); counts above 2H+1, throwing loop bodies and re-initialisation while a loop is running are outside "
              "the statement's quantifier and not explored; bursts of 65536 re-initialisations are not run on the Internal backend (minutes per "
              "history); trusted: TLC, the atomic stamp counter, fork() of a parent that never touched the tasking system as 'fresh process'")
TECHNIQUE = ("TLA+ contract + TLC model checking (summary rule = momentary rule, declarative reading, laws of allowed answers); state-graph histories "
             "executed in fresh processes on 4 backends; TLC trace validation of every recorded execution")

SPEC = os.path.join(VERIF, "spec", "tasking")
BACKENDS = ["TBB", "OpenMP", "Internal", "Debug"]
FIELD = {"Query": "r", "Loop": "maxConcurrent", "LoopBurst": "maxConcurrent", "LoopPair": "maxConcurrent", "Init": "void", "InitBurst": "void"}
LOOPLIKE = ("Loop", "LoopBurst", "LoopPair")
DECOR = ("mult", "patience", "work")


# ---------------------------------------------------------------------------
def hw_of(exe):
    p = subprocess.run([exe, "--hw"], stdout=subprocess.PIPE, stderr=subprocess.STDOUT, timeout=300)
    try:
        j = json.loads(p.stdout.decode())
        return int(j["hw"]), j["backend"]
    except Exception:
        raise InfraError("driver --hw failed: %s" % p.stdout.decode()[-500:])


def decorate(h, rnd, thorough):
    """Adds the binding's free input choices (lingering patience, body cost; loop size multiplier >= 4 for loops whose task count
    the specification did not fix) to loop steps.  They are inputs of the real execution drawn from the seed, not part of what
    the contract constrains."""
    out = []
    for st in h:
        st = dict(st)
        if st["a"] in LOOPLIKE:
            arg = dict(st["arg"])
            if "k" not in arg:
                arg["mult"] = rnd.choice([4, 4, 5, 6, 9] if thorough else [4, 4, 5])
            arg["patience"] = rnd.choice([1000, 2000, 4000] if thorough else [1000, 2000])
            if st["a"] == "Loop":
                arg["work"] = rnd.choice([0, 0, 20, 200]) if arg.get("k", 0) <= 2000 else 0
            st["arg"] = arg
        out.append(st)
    return out


def run_driver(exe, histories, tag, par=6, timeout=3000):
    d = os.path.join(WORK, "run", tag)
    os.makedirs(d, exist_ok=True)
    inp = os.path.join(d, "hist-%d.ndjson" % os.getpid())
    outp = os.path.join(d, "obs-%d.ndjson" % os.getpid())
    with open(inp, "w") as f:
        for i, h in enumerate(histories):
            f.write(json.dumps({"id": i, "h": [{"a": st["a"], "arg": st["arg"]} for st in h]}, separators=(",", ":")) + "\n")
    if os.path.exists(outp):
        os.remove(outp)
    t0 = time.time()
    try:
        p = subprocess.run([exe, "--in", inp, "--out", outp, "--par", str(par), "--timeout-s", "600"],
                           stdout=subprocess.PIPE, stderr=subprocess.STDOUT, timeout=timeout)
    except subprocess.TimeoutExpired:
        raise InfraError("driver %s did not finish %d histories within %ss" % (exe, len(histories), timeout))
    if p.returncode != 0:
        raise InfraError("driver %s failed rc=%s: %s" % (exe, p.returncode, p.stdout.decode(errors="replace")[-1500:]))
    res = {}
    with open(outp) as f:
        for line in f:
            line = line.strip()
            if line:
                j = json.loads(line)
                res[j["id"]] = j
    for pth in (inp, outp):
        try:
            os.remove(pth)
        except OSError:
            pass
    return res, time.time() - t0


def to_events(backend, h, r):
    """One execution -> trace lines for TaskingInitTrace (format conversion only).  Returns (events, exact_mismatches)."""
    if r is None:
        raise InfraError("no result for a history on %s" % backend)
    if r.get("backend") != backend:
        raise InfraError("driver built for %s answered as %s" % (backend, r.get("backend")))
    if "timeout" in r:
        raise InfraError("history did not finish within the driver's watchdog (step %s) on %s: %s" % (r["timeout"].get("step"), backend, json.dumps(h)[:400]))
    if "crash" in r:
        k = int(r["crash"].get("step", 0))
        k = min(max(k, 0), len(h) - 1)
        # what the steps before the crash returned is lost with the child: the crash itself is the event
        return [{"a": "crash", "arg": h[k]["arg"], "during": h[k]["a"], "obs": r["crash"], "step": k}], []
    evs, mm = [], []
    for k, (st, o) in enumerate(zip(h, r["obs"])):
        if "unexpected_exception" in o:
            evs.append({"a": "exception", "arg": st["arg"], "during": st["a"], "obs": o, "step": k})
            break
        if st["a"] in LOOPLIKE:
            if o.get("malformed"):
                raise InfraError("recorder: entry/exit table incomplete after parallel_for returned (bodies still running or more bodies than tasks; "
                                 "that is property C01's subject) on %s: %s" % (backend, json.dumps(st)))
            obs = {"d1": o["d1"], "d2": o["d2"]} if st["a"] == "LoopPair" else {"deltas": o["deltas"]}
            evs.append({"a": st["a"], "arg": st["arg"], "obs": obs})
        elif st["a"] == "Query":
            evs.append({"a": "Query", "arg": st["arg"], "obs": {"r": o["r"]}})
            exp = st.get("exp") or {}
            if "r" in exp and exp["r"] != o["r"]:
                mm.append((k, exp["r"], o["r"]))
        elif st["a"] in ("Init", "InitBurst"):
            evs.append({"a": st["a"], "arg": st["arg"], "obs": {"void": True}})
        else:
            raise InfraError("unknown action in a history: %s" % st["a"])
    return evs, mm


_REJ = re.compile(r'"TRACE-REJECTED-LINE",\s*(\d+),\s*"CLS",\s*"([^"]*)"')
_END = re.compile(r'"TRACE-END-REACHED",\s*(\d+)')


def validate(backend, executions, tag, timeout=1800):
    """TLC decides which recorded executions are behaviours of the contract.  Returns (rejections, stats);
    rejections: list of (execution index, line within the execution, cls computed by the specification)."""
    d = os.path.join(WORK, "traces", tag)
    os.makedirs(d, exist_ok=True)
    path = os.path.join(d, "trace-%d.ndjson" % os.getpid())
    owner = []
    with open(path, "w") as f:
        for ei, evs in enumerate(executions):
            if ei:
                f.write('{"a":"Reset"}\n')
                owner.append((ei, -1))
            for k, ev in enumerate(evs):
                f.write(json.dumps({"a": ev["a"], "arg": ev["arg"], "obs": ev["obs"]}, separators=(",", ":")) + "\n")
                owner.append((ei, k))
    r = tla.run_tlc(os.path.join(SPEC, "TaskingInitTrace.tla"), os.path.join(SPEC, "TaskingInitTrace.cfg"), workers=1, timeout=timeout,
                    env={"TRACE": path, "BACKEND": backend}, tag="trace-" + tag)
    m = _END.search(r.out)
    if not r.ok or not m or int(m.group(1)) != len(owner):
        raise InfraError("trace validation %s did not reach the end of the trace (%d lines): violated=%s error=%s\n%s"
                         % (tag, len(owner), r.violated, r.error, r.out[-2500:]))
    rej = []
    seen = set()
    for m in _REJ.finditer(r.out):
        ln = int(m.group(1)) - 1
        if ln in seen:
            continue
        seen.add(ln)
        ei, k = owner[ln]
        rej.append((ei, k, m.group(2)))
    os.remove(path)
    return rej, {"lines": len(owner), "states": r.distinct, "wall": r.wall}


def sig_of(backend, a, cls, field):
    return "%s/%s(%s)/%s" % (backend, a, cls, field)


def peak_of(deltas):
    """Only for log texts / samples (the verdict is TLC's)."""
    c = p = 0
    for x in deltas:
        c += x
        p = max(p, c)
    return p


def graph(backend, cfgname, hw, tag):
    """TLC dumps the complete state graph of a generation instance (backend kind and H from the environment)."""
    os.makedirs(os.path.join(WORK, "graphs"), exist_ok=True)
    dot = os.path.join(WORK, "graphs", "%s-%d.dot" % (tag, os.getpid()))
    r = tla.run_tlc(os.path.join(SPEC, "TaskingInitGen.tla"), os.path.join(SPEC, cfgname), workers=2, timeout=1200, dump_dot=dot, tag=tag,
                    env={"HW": str(hw), "BACKEND": backend})
    if not r.ok:
        raise InfraError("generation model %s[%s] failed: violated=%s error=%s\n%s" % (cfgname, backend, r.violated, r.error, r.out[-2000:]))
    g = tla.parse_dot(dot)
    os.remove(dot)
    return adt.collapse(g), r


def execute(backend, exe, hists, tag, par):
    """Run histories (fresh process each) on the real code, convert the observations to trace lines, let TLC validate them.
    Touches no shared state (several backends run concurrently); judge() reports."""
    res, wall = run_driver(exe, hists, tag, par=par)
    execs, mismatches = [], []
    for i, h in enumerate(hists):
        evs, mms = to_events(backend, h, res.get(i))
        execs.append(evs)
        mismatches += [(i, k, e, o) for (k, e, o) in mms]
    rej, stats = validate(backend, execs, tag)
    return {"res": res, "execs": execs, "mismatches": mismatches, "rej": rej, "wall": wall, "stats": stats}


def judge(chk, backend, hw, hists, out):
    """Report what TLC rejected (and exact answers that differ from the values TLC computed) as violations."""
    res, execs = out["res"], out["execs"]
    for (i, k, e, o) in out["mismatches"]:
        h = hists[i]
        st = h[k]
        chk.violation(sig_of(backend, st["a"], st.get("cls", ""), "r"),
                      "%s backend (H=%d): step %d of %s: numTaskingThreads() from the %s returned %s, the specification computes %s"
                      % (backend, hw, k, brief(h), st["arg"]["from"], o, e),
                      {"kind": "history", "property": "C13", "backend": backend, "hw": hw, "history": h, "observed": slim(res[i]["obs"]),
                       "failed_step": k, "field": "r", "expected": e, "got": o})
    for (ei, k, cls) in out["rej"]:
        h, ev = hists[ei], execs[ei][k]
        kk = ev.get("step", k)
        st = h[kk]
        a = ev.get("during") or ev["a"]
        field = ev["a"] if ev["a"] in ("crash", "exception") else FIELD[a]
        cls = cls or st.get("cls", "")
        if ev["a"] in LOOPLIKE:
            pk = max(peak_of(ev["obs"]["d1"]), peak_of(ev["obs"]["d2"])) if ev["a"] == "LoopPair" else peak_of(ev["obs"]["deltas"])
            what = ("%s backend (H=%d): step %d of %s: %s (%s, issued by the %s) had %d bodies of one call inside at the same time by the stamp "
                    "order; the contract allows %s" % (backend, hw, kk, brief(h), ev["a"], loop_desc(st["arg"]), st["arg"]["from"], pk,
                                                       json.dumps(st.get("exp"))))
        elif ev["a"] == "Query":
            what = "%s backend (H=%d): step %d of %s: numTaskingThreads() from the %s returned %s; the contract allows %s" % (
                backend, hw, kk, brief(h), st["arg"]["from"], ev["obs"]["r"], json.dumps(st.get("exp")))
        else:
            what = "%s backend (H=%d): step %d of %s: %s during %s: %s" % (backend, hw, kk, brief(h), ev["a"], a, json.dumps(ev["obs"]))
        obs = res[ei].get("obs")
        chk.violation(sig_of(backend, a, cls, field), what,
                      {"kind": "history", "property": "C13", "backend": backend, "hw": hw, "history": h, "observed": slim(obs) if obs else res[ei],
                       "failed_step": kk, "field": field, "rejected_event": slim([ev["obs"]])[0] if ev["a"] in LOOPLIKE else ev})
    chk.cov["evaluations"] += len(hists)
    chk.cov["traces_validated_against_impl"] += len(hists)
    chk.cov["trace_events_validated"] = chk.cov.get("trace_events_validated", 0) + sum(len(e) for e in execs)
    chk.cov["loops_recorded"] = chk.cov.get("loops_recorded", 0) + sum(1 for e in execs for x in e if x["a"] in LOOPLIKE)


def loop_desc(arg):
    return ",".join(str(arg[k]) for k in ("shape", "size", "api", "cnt") if k in arg) + (",k=%s" % arg["k"] if "k" in arg else "")


def brief(h):
    out = []
    for st in h:
        arg = st["arg"]
        if st["a"] == "Init":
            out.append("Init(%d%s%s)" % (arg["n"], ",fz" if arg.get("fz") else "", "" if arg.get("from", "init-thread") == "init-thread" else "," + arg["from"][:4]))
        elif st["a"] == "InitBurst":
            out.append("InitBurst(%dx..,%d)" % (arg["cnt"], arg["n"]))
        elif st["a"] == "Query":
            out.append("Query[%s]" % arg["from"][:4])
        else:
            out.append("%s[%s,%s]" % (st["a"], arg["from"][:4], loop_desc(arg)))
    return " ".join(out)


def slim(obs):
    out = []
    for o in obs:
        if isinstance(o, dict):
            o = dict(o)
            for key in ("deltas", "d1", "d2"):
                if key in o:
                    o["peak_by_stamps(info)/" + key] = peak_of(o[key])
                    if len(o[key]) > 120:
                        o[key] = o[key][:120] + ["..."]
        out.append(o)
    return out


def step_key(st):
    return [st["a"], {k: v for k, v in st["arg"].items() if k not in DECOR}]


def nontrivial_distinct(hists):
    return len({json.dumps([step_key(st) for st in h], sort_keys=True) for h in hists if any(st["a"] in ("Init", "InitBurst") for st in h)})


# ---------------------------------------------------------------------------
# histories from the boundary instance (paths of TLC's graph, selected by their labels)
def follow(ag, preds):
    """The path from the initial state whose i-th step satisfies preds[i] (first matching edge).  Returns (steps, state) or None."""
    s = ag.init[0]
    path = []
    for p in preds:
        nxt = [(st, d) for st, d in ag.edges.get(s, []) if p(st)]
        if not nxt:
            return None
        path.append(nxt[0][0])
        s = nxt[0][1]
    return path, s


def is_(a, **kw):
    return lambda st: st["a"] == a and all(st["arg"].get(k) == v for k, v in kw.items())


def boundary_histories(agb, hw, thorough):
    """Option cover of the boundary alphabet: every non-Init option after 'a positive count set' and 'a positive count replaced'
    (thorough: also before any initialisation and with the default), every Init / InitBurst option followed by queries from the
    three threads and a loop, shrinking and growing re-initialisations across the hardware boundary with loops in between."""
    main = "init-thread"
    init = lambda n: is_("Init", n=n, **{"from": main, "fz": False})
    x4 = is_("Loop", shape="flat", size="x4", api="for:int", **{"from": main})
    prefixes = {"set": [init(3)], "replaced": [init(hw + 1), init(2)], "none": [], "default": [init(0)]}
    hs = []
    for cls, pre in prefixes.items():
        got = follow(agb, pre)
        if got is None:
            raise InfraError("boundary graph has no path for prefix class %s" % cls)
        steps, s = got
        for st, _ in agb.edges.get(s, []):
            if st["a"] in ("Init", "InitBurst"):
                continue
            if cls in ("none", "default") and not thorough:
                if st["a"] == "Loop" and not (st["arg"]["shape"] == "flat" and st["arg"]["api"] == "for:int" and st["arg"]["size"] in ("zero", "x4", "b1025")):
                    continue
            hs.append(steps + [st])
    tail = [is_("Query", **{"from": main}), is_("Query", **{"from": "second-thread"}), x4, is_("Query", **{"from": "early-thread"})]
    for pre in ([], [init(hw + 1)]):
        steps, s = follow(agb, pre)
        for st, d in agb.edges.get(s, []):
            if st["a"] not in ("Init", "InitBurst"):
                continue
            # continue from the state this option leads to
            path, cur = [], d
            for p in tail:
                nxt = [(e, dd) for e, dd in agb.edges.get(cur, []) if p(e)]
                if not nxt:
                    raise InfraError("boundary graph: no continuation after %s" % json.dumps(st))
                path.append(nxt[0][0])
                cur = nxt[0][1]
            hs.append(steps + [st] + path)
    lo = max(hw - 1, 1)
    for a, b in ((hw + 1, lo), (lo, hw + 1), (2 * hw, 1), (1, 2 * hw), (hw, 2), (3, hw)):
        for f in ("init-thread", "early-thread"):
            lp = is_("Loop", shape="flat", size="x4", api="for:int", **{"from": f})
            got = follow(agb, [init(a), lp, init(b), lp, is_("Query", **{"from": f})])
            if got:
                hs.append(got[0])
    return hs


def reinit_loop_histories(ag):
    """From the base graph: Init(a) Loop Init(b) Loop for all positive a # b and both issuing threads (the same loop site runs under
    two settings)."""
    hs = []
    pos = sorted({st["arg"]["n"] for st, _ in ag.edges.get(ag.init[0], []) if st["a"] == "Init" and st["arg"]["n"] > 0})
    for a in pos:
        for b in pos:
            if a == b:
                continue
            for f1 in ("init-thread", "second-thread"):
                for f2 in ("init-thread", "second-thread"):
                    got = follow(ag, [is_("Init", n=a), is_("Loop", shape="flat", **{"from": f1}), is_("Init", n=b), is_("Loop", shape="flat", **{"from": f2})])
                    if got is None:
                        raise InfraError("base graph lacks Init(%d) Loop Init(%d) Loop" % (a, b))
                    hs.append(got[0])
    return hs


def affordable(agb, thorough, backend):
    """The boundary graph without the edges that are too expensive to execute from every state (selection of inputs only):
    bursts of loops are kept where a small positive count is in force (elsewhere one representative in the thorough tier) -
    a loop with 16 and more threads costs milliseconds on an oversubscribed machine -, the bursts of thousands of loops /
    initialisations once, and nothing that the backend does not support (Internal: two threads issuing loops at once;
    65536 re-creations of its scheduler take minutes)."""
    g = adt.AbsGraph()
    g.states, g.index, g.init = agb.states, agb.index, agb.init
    for s, es in agb.edges.items():
        lim, inited = agb.states[s]["limit"], agb.states[s]["inited"]
        kept = []
        for st, d in es:
            a, arg = st["a"], st["arg"]
            ok = True
            if a == "LoopBurst":
                main = arg["from"] == "init-thread"
                if arg["cnt"] > 1000:
                    ok = thorough and lim == 3
                elif 1 <= lim <= 3:
                    ok = thorough or lim == 3 or (arg["cnt"] == 256 and main)
                else:
                    ok = thorough and arg["cnt"] == 256 and main
            elif a == "InitBurst" and arg["cnt"] > 1000:
                ok = thorough and backend != "Internal" and not inited
            elif a == "LoopPair":
                ok = backend != "Internal"
            elif a == "Loop" and arg.get("size") == "b65537":
                ok = lim == 3 or not inited
            if ok:
                kept.append((st, d))
        g.edges[s] = kept
        g.nedges += len(kept)
    return g


def option_keys(ag):
    """Every distinct (action, argument) label of a graph: the alphabet that must have been executed (vacuity guard)."""
    return {opt_key(st) for s in ag.edges for st, _ in ag.edges[s]}


def opt_key(st):
    """An option of the alphabet: action and arguments without what the specification derives from the state (k, outer)."""
    return json.dumps([st["a"], {k: v for k, v in st["arg"].items() if k not in DECOR + ("k", "outer")}], sort_keys=True)


# ---------------------------------------------------------------------------
def run(chk, replay=None):
    quick = chk.tier == "quick"
    rnd = random.Random(chk.seed)
    chk.assumptions += [
        "each history runs in a child forked from a parent process that never used the tasking system (= fresh process)",
        "one thread acts at a time (main thread, a std::thread created for the step and joined, or a thread created before the first action), except "
        "for LoopPair: two calls released together by a spin barrier, each judged on its own (the statement bounds a parallel_for, not the process)",
        "concurrency is measured from entry/exit stamps of one atomic counter: a lower bound; over-subscription that never shows as overlapping "
        "stamp intervals in any executed loop is missed",
        "H (hardware threads) is what std::thread::hardware_concurrency() reports on this machine; counts above 2H+1 are not explored",
    ]
    if replay:
        return do_replay(chk, replay)

    exes = {}
    for b in BACKENDS:
        exes[b] = build.build("drv_tasking_init", backend=b)
        if hw_of(exes[b])[1] != b:
            raise InfraError("driver for %s reports backend %s" % (b, hw_of(exes[b])[1]))
    hw, _ = hw_of(exes["Debug"])
    K = 2 if quick else 3
    n_sample, n_walks, walk_len = (150, 30, 8) if quick else (200, 100, 12)

    # 1. the contract itself, per backend kind (runs concurrently with 2.)
    def mc(b):
        return tla.run_tlc(os.path.join(SPEC, "TaskingInitMC.tla"), os.path.join(SPEC, "TaskingInitMC.cfg" if quick else "TaskingInitMC_thorough.cfg"),
                           workers=2, timeout=3000, env={"BACKEND": b}, tag="c13-mc-" + b)

    # 2. spec -> code and code -> spec, per backend: histories from TLC's state graphs, executed in fresh processes, validated by TLC
    def pipeline(b):
        rnd = random.Random(chk.seed * 1009 + BACKENDS.index(b))
        ag, r = graph(b, "TaskingInitGen.cfg", hw, "c13-gen-" + b)
        agw, rw = graph(b, "TaskingInitGenWide.cfg", hw, "c13-genw-" + b)
        allK = adt.all_paths(ag, K, 10 ** 6)
        nextK = adt.all_paths(ag, K + 1, 10 ** 6)
        have = {json.dumps(h, sort_keys=True) for h in allK}
        cover = [h for h in adt.edge_cover(ag) if json.dumps(h, sort_keys=True) not in have]      # one shortest history per transition not yet among them
        sample = rnd.sample(nextK, min(len(nextK), n_sample))
        walks = adt.random_walks(agw, n_walks, walk_len, chk.seed * 7919 + BACKENDS.index(b))
        # boundary instance: the corners of the quantifier (see TaskingInitGen.tla)
        agb_all, rb = graph(b, "TaskingInitGenB.cfg" if quick else "TaskingInitGenB_thorough.cfg", hw, "c13-genb-" + b)
        agb = affordable(agb_all, not quick, b)
        bnd = boundary_histories(agb, hw, not quick) + reinit_loop_histories(ag)
        if not quick:
            bnd += adt.edge_cover(agb) + adt.random_walks(agb, 80, 8, chk.seed * 104729 + BACKENDS.index(b))
        seen, uniq = set(), []
        for h in bnd:
            key = json.dumps([step_key(st) for st in h], sort_keys=True)
            if key not in seen:
                seen.add(key)
                uniq.append(h)
        bnd = uniq
        plain = allK + cover + sample + walks + bnd
        hists = [decorate(h, rnd, not quick) for h in plain]
        out = execute(b, exes[b], hists, "c13-" + b, par=4)
        # vacuity guard: every option of the boundary alphabet was executed on this backend
        done = {opt_key(st) for h in hists for st in h}
        missing = [k for k in option_keys(agb) if k not in done]
        if missing:
            raise InfraError("vacuity guard: %d options of the boundary alphabet never executed on %s, e.g. %s" % (len(missing), b, missing[:3]))
        out.update({"ag": ag, "r": r, "agw": agw, "rw": rw, "agb": agb, "rb": rb, "hists": hists,
                    "parts": (len(allK), len(cover), len(sample), len(nextK), len(walks), len(bnd))})
        return out

    cls_counts = {}
    with ThreadPoolExecutor(max_workers=8) as ex:
        # the contract distinguishes backends only as serial / threaded: the quick tier checks one instance of each kind
        mc_kinds = ["TBB", "Debug"] if quick else BACKENDS
        fm = {b: ex.submit(mc, b) for b in mc_kinds}
        fp = {b: ex.submit(pipeline, b) for b in BACKENDS}
        for b in mc_kinds:
            chk.require_model_ok("TaskingInitMC[%s]" % b, fm[b].result(), "summary rule = momentary rule; declarative reading; laws of allowed answers")
        outs = {b: fp[b].result() for b in BACKENDS}
    for b in BACKENDS:
        out = outs[b]
        hists, res = out["hists"], out["res"]
        ag, agw = out["ag"], out["agw"]
        chk.add_model("TaskingInitGen[%s]" % b, out["r"], "generation instance: %d abstract states, %d abstract transitions" % (len(ag.states), ag.nedges))
        chk.add_model("TaskingInitGenWide[%s]" % b, out["rw"], "wide generation instance (every n in -2..2H+1): %d abstract states, %d abstract transitions"
                      % (len(agw.states), agw.nedges))
        agb = out["agb"]
        chk.add_model("TaskingInitGenB[%s]" % b, out["rb"], "boundary generation instance: %d abstract states, %d abstract transitions, %d options"
                      % (len(agb.states), agb.nedges, len(option_keys(agb))))
        chk.count_actions(hists)
        for h in hists:
            for st in h:
                for dim in ("size", "api", "from", "fz", "cnt"):
                    if dim in st["arg"]:
                        key = "%s.%s=%s" % (st["a"], dim, st["arg"][dim])
                        cls_counts[key] = cls_counts.get(key, 0) + 1
        judge(chk, b, hw, hists, out)
        chk.cov["distinct_nontrivial"] += nontrivial_distinct(hists)
        nall, ncov, nsam, nnext, nwalk, nbnd = out["parts"]
        chk.cov["generation_" + b] = {"all_histories_len": K, "all_histories": nall, "transition_cover": ncov, "sampled_histories_len": K + 1,
                                      "sampled_histories": nsam, "of": nnext, "random_walks_wide": nwalk, "walk_len": walk_len,
                                      "boundary_histories": nbnd, "boundary_options": len(option_keys(agb)), "rejected_executions": len(out["rej"])}
        chk.log("%s: %d histories (all of length %d: %d, cover %d, sample of length %d: %d of %d, wide walks %d, boundary %d) executed in fresh processes in %.1fs; "
                "TLC validated %d trace lines in %.1fs, rejected %d execution(s)"
                % (b, len(hists), K, nall, ncov, K + 1, nsam, nnext, nwalk, nbnd, out["wall"], out["stats"]["lines"], out["stats"]["wall"], len(out["rej"])))
        # a sample: the first history with a loop after Init(3)
        for i, h in enumerate(hists):
            if len(h) >= 3 and h[0]["a"] == "Init" and h[0]["arg"]["n"] == 3 and any(st["a"] == "Loop" for st in h) and "obs" in res[i]:
                chk.add_sample({"kind": "recorded-execution", "backend": b, "history": [{"a": st["a"], "arg": st["arg"], "exp": st.get("exp")} for st in h],
                                "observed": slim(res[i]["obs"])}, maxn=4)
                break
    chk.require_actions(["Init", "Query", "Loop", "InitBurst", "LoopBurst", "LoopPair"])
    chk.cov["boundary_class_counts"] = dict(sorted(cls_counts.items()))
    need = (["Loop.size=" + x for x in ("zero", "one", "below", "equal", "above", "x4", "x4p1", "b1025", "b4097")]
            + ["Loop.api=" + x for x in ("for:int", "for:size_t", "for:u8", "for:short", "for:i64", "for:int:lvalue", "blocks", "foreach")]
            + ["Loop.from=early-thread", "Query.from=early-thread", "Init.from=second-thread", "Init.from=early-thread", "Init.fz=True",
               "InitBurst.cnt=255", "InitBurst.cnt=256", "InitBurst.cnt=257", "LoopBurst.cnt=255", "LoopBurst.cnt=256", "LoopBurst.cnt=257"]
            + ([] if quick else ["Loop.size=b65537", "InitBurst.cnt=65535", "InitBurst.cnt=65536", "InitBurst.cnt=65537", "LoopBurst.cnt=4097"]))
    lacking = [x for x in need if not cls_counts.get(x)]
    if lacking:
        raise InfraError("vacuity guard: boundary classes never exercised: %s" % lacking)
    chk.cov["hardware_threads"] = hw
    chk.cov["rule"] = ("one execution per (history, backend), each in a fresh process; histories = paths of TLC's complete state graph of TaskingInitGen "
                       "(all of length K, one shortest path per transition, a seeded sample of all of length K+1) and seeded random walks over the wide "
                       "instance; evaluations = histories executed; distinct non-trivial = distinct (action, argument) sequences containing an Init, "
                       "counted per backend; every execution is also a trace validated by TLC")


def do_replay(chk, path):
    rep = json.load(open(path))
    b = rep["backend"]
    exe = build.build("drv_tasking_init", backend=b)
    hw, _ = hw_of(exe)
    h = rep["history"]
    n = 30 if any(st["a"] == "Loop" for st in h) else 3
    hists = [h] * n
    out = execute(b, exe, hists, "c13-replay", par=2)
    judge(chk, b, hw, hists, out)
    chk.log("replay on %s: %s executed %d times (fresh process each): %d rejected by the contract" % (b, brief(h), n, len(out["rej"])))
