"""C13 - the configured tasking thread count is reported and never exceeded."""
import json, os, random, re, subprocess, time
from concurrent.futures import ThreadPoolExecutor
from .. import tla, build, adt
from ..tla import VERIF, WORK, InfraError

LEVEL = "model_checking"
LEVEL_TEXT = ("The contract TaskingInit (state: initialised?, count in force; Init(n), Query -> r, Loop -> order of body entries and exits) is "
              "model-checked by TLC on a bounded instance per backend kind: the rule recorded loops are judged by (largest prefix sum of the "
              "entry/exit order <= count in force) is shown equal to 'at no moment more threads inside bodies than the count' on loops unfolded "
              "into single entries and exits, the contract's state agrees with the declarative reading of the statement over every history of "
              "initialisations, and the allowed answers obey the laws of the statement (0 before initialisation; exactly n - 1 when serial - "
              "after the latest positive n; positive for the default; never exceeded by an allowed loop).  ALL histories of Init / Query / Loop "
              "of length 2 (quick) / 3 (thorough) over the arguments -1, 0, 1, 2, 3, 8, 2H, issuing thread = initialising thread or a second "
              "std::thread, flat and nested loops - taken as paths of TLC's complete state graph - plus one history per transition, a seeded sample "
              "of all histories one step longer and long seeded random walks over every n in -2..2H+1 are executed on the real initTaskingSystem / "
              "numTaskingThreads / parallel_for of all four backends, each history in a fresh process; exact answers are compared with the values "
              "TLC computed and every execution (answers, and the entry/exit order of the loop bodies stamped by one atomic counter) is validated "
              "by TLC against the contract.")
LEVEL_NOTE = ("the observed concurrency is a sound lower bound (bodies whose entry..exit stamp intervals overlap were really inside at the same "
              "time); a loop that over-subscribes without the recorder seeing the overlap is missed, never the converse; schedules are whatever the "
              "backend runtime produces (perturbed by loop size, lingering and body cost drawn from the seed), not enumerated; Init is always issued "
              "by the main thread; trusted: TLC, the atomic stamp counter, fork() of a parent that never touched the tasking system as 'fresh process'")
TECHNIQUE = ("TLA+ contract + TLC model checking (summary rule = momentary rule, declarative reading, laws of allowed answers); state-graph histories "
             "executed in fresh processes on 4 backends; TLC trace validation of every recorded execution")

SPEC = os.path.join(VERIF, "spec", "tasking")
BACKENDS = ["TBB", "OpenMP", "Internal", "Debug"]
FIELD = {"Query": "r", "Loop": "maxConcurrent", "Init": "void"}


# ---------------------------------------------------------------------------
def hw_of(exe):
    p = subprocess.run([exe, "--hw"], stdout=subprocess.PIPE, stderr=subprocess.STDOUT, timeout=300)
    try:
        j = json.loads(p.stdout.decode())
        return int(j["hw"]), j["backend"]
    except Exception:
        raise InfraError("driver --hw failed: %s" % p.stdout.decode()[-500:])


def decorate(h, rnd, thorough):
    """Adds the binding's free input choices (loop size multiplier >= 4, lingering patience, body cost) to Loop steps.
    They are inputs of the real execution drawn from the seed, not part of what the contract constrains."""
    out = []
    for st in h:
        st = dict(st)
        if st["a"] == "Loop":
            arg = dict(st["arg"])
            arg["mult"] = rnd.choice([4, 4, 5, 6, 9] if thorough else [4, 4, 5])
            arg["patience"] = rnd.choice([1000, 2000, 4000] if thorough else [1000, 2000])
            arg["work"] = rnd.choice([0, 0, 20, 200])
            st["arg"] = arg
        out.append(st)
    return out


def run_driver(exe, histories, tag, par=6, timeout=3000):
    d = os.path.join(WORK, "run", tag)
    os.makedirs(d, exist_ok=True)
    inp = os.path.join(d, "hist-%d.ndjson" % os.getpid())
    outp = os.path.join(d, "obs-%d.ndjson" % os.getpid())
    with open(inp, "w") as f:
        for i, h in enumerate(histories):
            f.write(json.dumps({"id": i, "h": [{"a": st["a"], "arg": st["arg"]} for st in h]}, separators=(",", ":")) + "\n")
    if os.path.exists(outp):
        os.remove(outp)
    t0 = time.time()
    try:
        p = subprocess.run([exe, "--in", inp, "--out", outp, "--par", str(par), "--timeout-s", "600"],
                           stdout=subprocess.PIPE, stderr=subprocess.STDOUT, timeout=timeout)
    except subprocess.TimeoutExpired:
        raise InfraError("driver %s did not finish %d histories within %ss" % (exe, len(histories), timeout))
    if p.returncode != 0:
        raise InfraError("driver %s failed rc=%s: %s" % (exe, p.returncode, p.stdout.decode(errors="replace")[-1500:]))
    res = {}
    with open(outp) as f:
        for line in f:
            line = line.strip()
            if line:
                j = json.loads(line)
                res[j["id"]] = j
    for pth in (inp, outp):
        try:
            os.remove(pth)
        except OSError:
            pass
    return res, time.time() - t0


def to_events(backend, h, r):
    """One execution -> trace lines for TaskingInitTrace (format conversion only).  Returns (events, exact_mismatches)."""
    if r is None:
        raise InfraError("no result for a history on %s" % backend)
    if r.get("backend") != backend:
        raise InfraError("driver built for %s answered as %s" % (backend, r.get("backend")))
    if "timeout" in r:
        raise InfraError("history did not finish within the driver's watchdog (step %s) on %s: %s" % (r["timeout"].get("step"), backend, json.dumps(h)[:400]))
    if "crash" in r:
        k = int(r["crash"].get("step", 0))
        k = min(max(k, 0), len(h) - 1)
        # what the steps before the crash returned is lost with the child: the crash itself is the event
        return [{"a": "crash", "arg": h[k]["arg"], "during": h[k]["a"], "obs": r["crash"], "step": k}], []
    evs, mm = [], []
    for k, (st, o) in enumerate(zip(h, r["obs"])):
        if "unexpected_exception" in o:
            evs.append({"a": "exception", "arg": st["arg"], "during": st["a"], "obs": o, "step": k})
            break
        if st["a"] == "Loop":
            if o.get("malformed"):
                raise InfraError("recorder: entry/exit table incomplete after parallel_for returned (bodies still running or more bodies than tasks; "
                                 "that is property C01's subject) on %s: %s" % (backend, json.dumps(st)))
            evs.append({"a": "Loop", "arg": {"from": st["arg"]["from"], "shape": st["arg"]["shape"]}, "obs": {"deltas": o["deltas"]}})
        elif st["a"] == "Query":
            evs.append({"a": "Query", "arg": st["arg"], "obs": {"r": o["r"]}})
            exp = st.get("exp") or {}
            if "r" in exp and exp["r"] != o["r"]:
                mm.append((k, exp["r"], o["r"]))
        else:
            evs.append({"a": "Init", "arg": st["arg"], "obs": {"void": True}})
    return evs, mm


_REJ = re.compile(r'"TRACE-REJECTED-LINE",\s*(\d+),\s*"CLS",\s*"([^"]*)"')
_END = re.compile(r'"TRACE-END-REACHED",\s*(\d+)')


def validate(backend, executions, tag, timeout=1800):
    """TLC decides which recorded executions are behaviours of the contract.  Returns (rejections, stats);
    rejections: list of (execution index, line within the execution, cls computed by the specification)."""
    d = os.path.join(WORK, "traces", tag)
    os.makedirs(d, exist_ok=True)
    path = os.path.join(d, "trace-%d.ndjson" % os.getpid())
    owner = []
    with open(path, "w") as f:
        for ei, evs in enumerate(executions):
            if ei:
                f.write('{"a":"Reset"}\n')
                owner.append((ei, -1))
            for k, ev in enumerate(evs):
                f.write(json.dumps({"a": ev["a"], "arg": ev["arg"], "obs": ev["obs"]}, separators=(",", ":")) + "\n")
                owner.append((ei, k))
    r = tla.run_tlc(os.path.join(SPEC, "TaskingInitTrace.tla"), os.path.join(SPEC, "TaskingInitTrace.cfg"), workers=1, timeout=timeout,
                    env={"TRACE": path, "BACKEND": backend}, tag="trace-" + tag)
    m = _END.search(r.out)
    if not r.ok or not m or int(m.group(1)) != len(owner):
        raise InfraError("trace validation %s did not reach the end of the trace (%d lines): violated=%s error=%s\n%s"
                         % (tag, len(owner), r.violated, r.error, r.out[-2500:]))
    rej = []
    seen = set()
    for m in _REJ.finditer(r.out):
        ln = int(m.group(1)) - 1
        if ln in seen:
            continue
        seen.add(ln)
        ei, k = owner[ln]
        rej.append((ei, k, m.group(2)))
    os.remove(path)
    return rej, {"lines": len(owner), "states": r.distinct, "wall": r.wall}


def sig_of(backend, a, cls, field):
    return "%s/%s(%s)/%s" % (backend, a, cls, field)


def peak_of(deltas):
    """Only for log texts / samples (the verdict is TLC's)."""
    c = p = 0
    for x in deltas:
        c += x
        p = max(p, c)
    return p


def graph(backend, cfgname, hw, tag):
    """TLC dumps the complete state graph of a generation instance (backend kind and H from the environment)."""
    os.makedirs(os.path.join(WORK, "graphs"), exist_ok=True)
    dot = os.path.join(WORK, "graphs", "%s-%d.dot" % (tag, os.getpid()))
    r = tla.run_tlc(os.path.join(SPEC, "TaskingInitGen.tla"), os.path.join(SPEC, cfgname), workers=2, timeout=1200, dump_dot=dot, tag=tag,
                    env={"HW": str(hw), "BACKEND": backend})
    if not r.ok:
        raise InfraError("generation model %s[%s] failed: violated=%s error=%s\n%s" % (cfgname, backend, r.violated, r.error, r.out[-2000:]))
    g = tla.parse_dot(dot)
    os.remove(dot)
    return adt.collapse(g), r


def execute(backend, exe, hists, tag, par):
    """Run histories (fresh process each) on the real code, convert the observations to trace lines, let TLC validate them.
    Touches no shared state (several backends run concurrently); judge() reports."""
    res, wall = run_driver(exe, hists, tag, par=par)
    execs, mismatches = [], []
    for i, h in enumerate(hists):
        evs, mms = to_events(backend, h, res.get(i))
        execs.append(evs)
        mismatches += [(i, k, e, o) for (k, e, o) in mms]
    rej, stats = validate(backend, execs, tag)
    return {"res": res, "execs": execs, "mismatches": mismatches, "rej": rej, "wall": wall, "stats": stats}


def judge(chk, backend, hw, hists, out):
    """Report what TLC rejected (and exact answers that differ from the values TLC computed) as violations."""
    res, execs = out["res"], out["execs"]
    for (i, k, e, o) in out["mismatches"]:
        h = hists[i]
        st = h[k]
        chk.violation(sig_of(backend, st["a"], st.get("cls", ""), "r"),
                      "%s backend (H=%d): step %d of %s: numTaskingThreads() from the %s returned %s, the specification computes %s"
                      % (backend, hw, k, brief(h), st["arg"]["from"], o, e),
                      {"kind": "history", "property": "C13", "backend": backend, "hw": hw, "history": h, "observed": slim(res[i]["obs"]),
                       "failed_step": k, "field": "r", "expected": e, "got": o})
    for (ei, k, cls) in out["rej"]:
        h, ev = hists[ei], execs[ei][k]
        kk = ev.get("step", k)
        st = h[kk]
        a = ev.get("during") or ev["a"]
        field = ev["a"] if ev["a"] in ("crash", "exception") else FIELD[a]
        cls = cls or st.get("cls", "")
        if ev["a"] == "Loop":
            what = ("%s backend (H=%d): step %d of %s: parallel_for (%s, issued by the %s) had %d bodies inside at the same time by the stamp order; "
                    "the contract allows %s" % (backend, hw, kk, brief(h), st["arg"]["shape"], st["arg"]["from"], peak_of(ev["obs"]["deltas"]),
                                                json.dumps(st.get("exp"))))
        elif ev["a"] == "Query":
            what = "%s backend (H=%d): step %d of %s: numTaskingThreads() from the %s returned %s; the contract allows %s" % (
                backend, hw, kk, brief(h), st["arg"]["from"], ev["obs"]["r"], json.dumps(st.get("exp")))
        else:
            what = "%s backend (H=%d): step %d of %s: %s during %s: %s" % (backend, hw, kk, brief(h), ev["a"], a, json.dumps(ev["obs"]))
        obs = res[ei].get("obs")
        chk.violation(sig_of(backend, a, cls, field), what,
                      {"kind": "history", "property": "C13", "backend": backend, "hw": hw, "history": h, "observed": slim(obs) if obs else res[ei],
                       "failed_step": kk, "field": field, "rejected_event": slim([ev["obs"]])[0] if ev["a"] == "Loop" else ev})
    chk.cov["evaluations"] += len(hists)
    chk.cov["traces_validated_against_impl"] += len(hists)
    chk.cov["trace_events_validated"] = chk.cov.get("trace_events_validated", 0) + sum(len(e) for e in execs)
    chk.cov["loops_recorded"] = chk.cov.get("loops_recorded", 0) + sum(1 for e in execs for x in e if x["a"] == "Loop")


def brief(h):
    out = []
    for st in h:
        if st["a"] == "Init":
            out.append("Init(%d)" % st["arg"]["n"])
        elif st["a"] == "Query":
            out.append("Query[%s]" % st["arg"]["from"][:4])
        else:
            out.append("Loop[%s,%s]" % (st["arg"]["from"][:4], st["arg"]["shape"]))
    return " ".join(out)


def slim(obs):
    out = []
    for o in obs:
        if isinstance(o, dict) and "deltas" in o:
            o = dict(o)
            o["peak_by_stamps(info)"] = peak_of(o["deltas"])
            if len(o["deltas"]) > 120:
                o["deltas"] = o["deltas"][:120] + ["..."]
        out.append(o)
    return out


def nontrivial_distinct(hists):
    return len({json.dumps([[st["a"], st["arg"].get("n"), st["arg"].get("from"), st["arg"].get("shape")] for st in h]) for h in hists
                if any(st["a"] == "Init" for st in h)})


# ---------------------------------------------------------------------------
def run(chk, replay=None):
    quick = chk.tier == "quick"
    rnd = random.Random(chk.seed)
    chk.assumptions += [
        "each history runs in a child forked from a parent process that never used the tasking system (= fresh process)",
        "initTaskingSystem is always called by the main thread; queries and loops come from the main thread or from one additional std::thread "
        "(created for that step and joined, the main thread idle meanwhile); loops issued concurrently from several threads are not explored",
        "concurrency is measured from entry/exit stamps of one atomic counter: a lower bound; over-subscription that never shows as overlapping "
        "stamp intervals in any executed loop is missed",
        "H (hardware threads) is what std::thread::hardware_concurrency() reports on this machine; counts above 2H+1 are not explored",
    ]
    if replay:
        return do_replay(chk, replay)

    exes = {}
    for b in BACKENDS:
        exes[b] = build.build("drv_tasking_init", backend=b)
        if hw_of(exes[b])[1] != b:
            raise InfraError("driver for %s reports backend %s" % (b, hw_of(exes[b])[1]))
    hw, _ = hw_of(exes["Debug"])
    K = 2 if quick else 3
    n_sample, n_walks, walk_len = (150, 30, 8) if quick else (600, 120, 12)

    # 1. the contract itself, per backend kind (runs concurrently with 2.)
    def mc(b):
        return tla.run_tlc(os.path.join(SPEC, "TaskingInitMC.tla"), os.path.join(SPEC, "TaskingInitMC.cfg" if quick else "TaskingInitMC_thorough.cfg"),
                           workers=2, timeout=3000, env={"BACKEND": b}, tag="c13-mc-" + b)

    # 2. spec -> code and code -> spec, per backend: histories from TLC's state graphs, executed in fresh processes, validated by TLC
    def pipeline(b):
        rnd = random.Random(chk.seed * 1009 + BACKENDS.index(b))
        ag, r = graph(b, "TaskingInitGen.cfg", hw, "c13-gen-" + b)
        agw, rw = graph(b, "TaskingInitGenWide.cfg", hw, "c13-genw-" + b)
        allK = adt.all_paths(ag, K, 10 ** 6)
        nextK = adt.all_paths(ag, K + 1, 10 ** 6)
        have = {json.dumps(h, sort_keys=True) for h in allK}
        cover = [h for h in adt.edge_cover(ag) if json.dumps(h, sort_keys=True) not in have]      # one shortest history per transition not yet among them
        sample = rnd.sample(nextK, min(len(nextK), n_sample))
        walks = adt.random_walks(agw, n_walks, walk_len, chk.seed * 7919 + BACKENDS.index(b))
        plain = allK + cover + sample + walks
        hists = [decorate(h, rnd, not quick) for h in plain]
        out = execute(b, exes[b], hists, "c13-" + b, par=4)
        out.update({"ag": ag, "r": r, "agw": agw, "rw": rw, "hists": hists, "parts": (len(allK), len(cover), len(sample), len(nextK), len(walks))})
        return out

    with ThreadPoolExecutor(max_workers=8) as ex:
        fm = {b: ex.submit(mc, b) for b in BACKENDS}
        fp = {b: ex.submit(pipeline, b) for b in BACKENDS}
        for b in BACKENDS:
            chk.require_model_ok("TaskingInitMC[%s]" % b, fm[b].result(), "summary rule = momentary rule; declarative reading; laws of allowed answers")
        outs = {b: fp[b].result() for b in BACKENDS}
    for b in BACKENDS:
        out = outs[b]
        hists, res = out["hists"], out["res"]
        ag, agw = out["ag"], out["agw"]
        chk.add_model("TaskingInitGen[%s]" % b, out["r"], "generation instance: %d abstract states, %d abstract transitions" % (len(ag.states), ag.nedges))
        chk.add_model("TaskingInitGenWide[%s]" % b, out["rw"], "wide generation instance (every n in -2..2H+1): %d abstract states, %d abstract transitions"
                      % (len(agw.states), agw.nedges))
        chk.count_actions(hists)
        judge(chk, b, hw, hists, out)
        chk.cov["distinct_nontrivial"] += nontrivial_distinct(hists)
        nall, ncov, nsam, nnext, nwalk = out["parts"]
        chk.cov["generation_" + b] = {"all_histories_len": K, "all_histories": nall, "transition_cover": ncov, "sampled_histories_len": K + 1,
                                      "sampled_histories": nsam, "of": nnext, "random_walks_wide": nwalk, "walk_len": walk_len,
                                      "rejected_executions": len(out["rej"])}
        chk.log("%s: %d histories (all of length %d: %d, cover %d, sample of length %d: %d of %d, wide walks %d) executed in fresh processes in %.1fs; "
                "TLC validated %d trace lines in %.1fs, rejected %d execution(s)"
                % (b, len(hists), K, nall, ncov, K + 1, nsam, nnext, nwalk, out["wall"], out["stats"]["lines"], out["stats"]["wall"], len(out["rej"])))
        # a sample: the first history with a loop after Init(3)
        for i, h in enumerate(hists):
            if len(h) >= 3 and h[0]["a"] == "Init" and h[0]["arg"]["n"] == 3 and any(st["a"] == "Loop" for st in h) and "obs" in res[i]:
                chk.add_sample({"kind": "recorded-execution", "backend": b, "history": [{"a": st["a"], "arg": st["arg"], "exp": st.get("exp")} for st in h],
                                "observed": slim(res[i]["obs"])}, maxn=4)
                break
    chk.require_actions(["Init", "Query", "Loop"])
    chk.cov["hardware_threads"] = hw
    chk.cov["rule"] = ("one execution per (history, backend), each in a fresh process; histories = paths of TLC's complete state graph of TaskingInitGen "
                       "(all of length K, one shortest path per transition, a seeded sample of all of length K+1) and seeded random walks over the wide "
                       "instance; evaluations = histories executed; distinct non-trivial = distinct (action, argument) sequences containing an Init, "
                       "counted per backend; every execution is also a trace validated by TLC")


def do_replay(chk, path):
    rep = json.load(open(path))
    b = rep["backend"]
    exe = build.build("drv_tasking_init", backend=b)
    hw, _ = hw_of(exe)
    h = rep["history"]
    n = 30 if any(st["a"] == "Loop" for st in h) else 3
    hists = [h] * n
    out = execute(b, exe, hists, "c13-replay", par=2)
    judge(chk, b, hw, hists, out)
    chk.log("replay on %s: %s executed %d times (fresh process each): %d rejected by the contract" % (b, brief(h), n, len(out["rej"])))
