"""C14 - Aligned allocation returns aligned, usable, correctly released memory."""
import json, os, random, re, time
from concurrent.futures import ThreadPoolExecutor
from .. import tla, build, adt, adtcheck, trace
from ..tla import VERIF

LEVEL = "model_checking"
LEVEL_TEXT = ("a TLA+ contract of an aligned heap (an allocation answer is null, or aligned, inside the address space and disjoint from every "
              "live block; frees only of live bases; the pattern written through the full extent of a live block reads back intact) is "
              "model-checked by TLC over a small address space with a nondeterministic allocator: every allocator obeying the contract keeps "
              "live blocks disjoint, aligned and intact under all interleavings of allocations and frees, and four faulty allocators "
              "(ignores alignment, overlaps, under-allocates, unreserved header) plus an unguarded element-count multiplication are refuted; "
              "the same contract, instantiated with 64-bit limb arithmetic whose laws TLC checks against integers, validates every recorded "
              "call of the real alignedMalloc / alignedFree (returned pointers, pattern read-back, leak detector, resident-set growth) for "
              "both back ends; AlignedVector is a TLA+ sequence model (every way elements get copied: push_back of lvalue / rvalue / own "
              "element, insert, resize, assign, reallocation, copy construction and assignment of whole vectors, swap) whose state-graph "
              "histories are replayed on the real vectors for twenty element types - sizes 1/3/4/8/12/32/64, element types given by (sizeof, alignof) "
              "alone: 63/65 and 127/128/129 around the alignment and its double, 72/96/160/200 above it and not powers of two, alignas(128) > 64 "
              "(ESize / EAlign are parameters of the specification; max_size(), the requests that must succeed and the usable bytes are formulas "
              "in them, with 64-bit limb arithmetic TLC checks against integers), the allocator rebound to OTHER types (rebind_alloc<U>, U of "
              "1/24/72/96/200/128-aligned bytes) under the same laws and under the alignedMalloc contract, a self-recursive node type and "
              "std::vector<Any> (list-initialisation differs from copy), a lifetime-instrumented type (exactly-once construction / destruction "
              "accounting) - comparing contents, sizes, data() mod 64, the accounting and length_error of allocate beyond max_size(), and "
              "whose recorded long random executions are validated by TLC")
LEVEL_NOTE = ("bounded: model address space 1..8 (thorough 1..12), sizes 0..3 (0..4), alignments 1/2/4, 3 live blocks (plus 1..6 / 2 blocks with "
              "stale content after free); size_t model of 8 bits for the overflow guard; vectors of <= 3 elements over 2 (thorough 3) values for "
              "the model, over 1 value + the default for exhaustive histories; real executions: sizes {0,1,7,8,63,64,65,4095,4096,4097,2^20}, 29 further "
              "size-class / 8- / 16-bit boundaries (2..2^20+1), 2^31 and 2^32 +-1 (touched at both edges, disjointness decides) and 5 huge sizes x the "
              "13 alignments 1..4096, through alignedMalloc, its typed overload and aligned_allocator<T>::allocate, from three threads (allocating "
              "and freeing thread differ), bursts of 256 / 257 / 65536 (thorough 65537) simultaneously live blocks, <= 26 other live blocks, seeded random; vectors up to ~150 elements of char, int, double (incl. -0.0), "
              "12- and 64-byte structs, a self-recursive node, std::vector<Any>, a lifetime-instrumented type (quick: all on the ASan build, a "
              "subset on the other two). "
              "Back ends: TBB scalable allocator (not interposable: no sanitizer inside it, an under-allocation there is only visible as a "
              "corrupted neighbour), _mm_malloc -> glibc, _mm_malloc -> ASan allocator (ASan/UBSan/LSan observe overruns and unreleased blocks "
              "there).  Allocator internals are observed, not modelled.  'Released' is observed as: no unreachable freed block (LSan, ASan "
              "build) and bounded resident-set growth over alloc/free cycles (plain builds).  Vector histories include lengths 127..4097 and 65535..65537 around each boundary, aliasing arguments "
              "(v.push_back(v[0]), insert(begin(), back()), resize(n, v[0])), self-assignment, move assignment, throwing element copies (strong "
              "guarantee calls only), the allocate(n, hint) overload, a rebound allocator, the allocator type std::vector itself allocates "
              "through (allocator_traits::rebind_alloc<T>) and the allocator rebound to six other types (rebind_to; exp.ty / exp.rty: sizeof, alignof, "
              "max_size(), n, bytes written).  Element types e63 e65 e72 e96 e127 e128 e129 e160 e200 a128 (quick: two on the ASan build, four each on "
              "TBB / _mm_malloc; a128 never on the UBSan build: 64-aligned storage is what the statement promises, not alignof(T) = 128); heap world: "
              "element sizes 63..200 through the typed overload, aligned_allocator<T> and rebind_alloc<T>, whose requests below 16 MiB must be answered.  "
              "Not covered: node-based containers themselves (node addresses are not observable as data()), alignments above 4096, move-only "
              "element types (aligned_allocator::construct copies, they do not compile), the typed "
              "alignedMalloc<T>(n) overload for element counts whose byte size overflows, allocators rebound to another alignment.  "
              "Trusted: TLC, the driver's pattern fill / byte comparison and pointer-to-limb conversion, LSan, /proc/self/statm, g++/libstdc++")
TECHNIQUE = ("TLA+ contract specification parameterised over address arithmetic + TLC (invariants, negative controls); TLC trace validation of "
             "recorded executions of the real allocator over limb arithmetic; TLA+ ADT specification with state-graph histories replayed on "
             "the real AlignedVector and trace validation of recorded random executions")

SPEC_MEM = os.path.join(VERIF, "spec", "memory")
SPEC_CON = os.path.join(VERIF, "spec", "containers")

SIZES = [0, 1, 7, 8, 63, 64, 65, 4095, 4096, 4097, 1 << 20]
ALIGNS = [1, 2, 4, 8, 16, 32, 64, 128, 256, 512, 1024, 2048, 4096]
HUGE = [(1 << 64) - 1, (1 << 64) - 4096, 1 << 63, (1 << 62) + 1, 1 << 48]
# further boundaries of size classes, counters and casts (allocator bins, page size, 16-bit), each with every alignment once
SIZES_MORE = [2, 3, 9, 15, 16, 17, 24, 127, 128, 129, 255, 256, 257, 511, 512, 513, 1023, 1024, 1025, 8128, 8129,
              65535, 65536, 65537, 131071, 131072, 131073, (1 << 20) - 1, (1 << 20) + 1,
              72, 96, 160, 200, 7200]      # multiples of the element sizes above 64 that are not powers of two
# element sizes of the allocator routes of the heap world (= C14_HEAP_SIZES of the driver): typed alignedMalloc<T>,
# aligned_allocator<T>::allocate, and the allocator REBOUND to T from another type
ES_LIST = (1, 3, 4, 12, 64, 63, 65, 72, 96, 127, 129, 160, 200)
# requests around 2^31 and 2^32 bytes: the block is touched at both 4 KiB edges only; what decides is that the whole
# requested extent is disjoint from the blocks allocated while it is held
BIG = [(1 << 31) - 1, 1 << 31, (1 << 31) + 1, (1 << 32) - 1, 1 << 32, (1 << 32) + 1]
BURSTS_QUICK = [(256, 64, 64), (257, 1, 1), (65536, 24, 256)]
BURSTS_MORE = [(65537, 0, 128), (65536, 65, 128), (255, 4097, 4096), (1025, 3, 2)]
# element types of the vector part -> which instance of AlignedVec describes them (byte: sizeof(T) = 1, no request exceeds
# max_size(); life: the type reports its construction / destruction accounting)
VARIANTS = {"c1": "byte", "i4": "plain", "f8": "plain", "b3": "plain", "s12": "plain", "a32": "plain", "s64": "plain", "nest": "plain",
            "vany": "plain", "trk": "life"}
# (sizeof, alignof) of the element types: the instance of the specification (ESize, EAlign) that describes them
ETYPE = {"c1": (1, 1), "i4": (4, 4), "f8": (8, 8), "b3": (3, 1), "s12": (12, 4), "a32": (32, 32), "s64": (64, 4), "nest": (32, 8),
         "vany": (24, 8), "trk": (4, 4)}
# element types given by size and alignment only (= C14_BLOB_TYPES of the driver; one line per type): sizes just around the
# 64-byte alignment and its double, sizes above it that are not powers of two, an over-aligned type (alignof 128 > 64)
BLOBS = {"e63": (63, 1), "e65": (65, 1), "e72": (72, 8), "e96": (96, 32), "e127": (127, 1), "e128": (128, 8), "e129": (129, 1),
         "e160": (160, 32), "e200": (200, 8), "a128": (128, 128)}
for _k, _v in BLOBS.items():
    VARIANTS[_k] = "plain"
    ETYPE[_k] = _v
# alignof(T) = 128 > 64: the blocks are 64-aligned as the statement promises, every second element is then not aligned for
# its own type - UBSan stops at the first such element, so this type only runs on the builds without sanitizer
NO_SANITIZER = {"a128"}
# the types an allocator is rebound to in recorded executions (= RebindTypes of AlignedVec.tla)
REBIND_TO = [(1, 1), (24, 8), (72, 8), (96, 32), (200, 8), (128, 128)]
GEN_ETYPE = (8, 8)                  # ESize / EAlign of AlignedVecGen.cfg
GEN_CFG = "AlignedVecGen.cfg"       # one generation instance (wide element type, lifetime accounting); see histories_for()
TRACE_CFG = {"plain": "AlignedVecTrace.cfg", "byte": "AlignedVecTrace_byte.cfg", "life": "AlignedVecTrace_life.cfg"}
VEC_MUT = {"PushBack", "PushBackRv", "PushBackOwn", "PopBack", "Resize", "ResizeVal", "ResizeValOwn", "Assign", "AssignFrom", "CopyCtor",
           "MoveAssign", "Swap", "Clear", "Insert", "InsertMid", "InsertOwn"}
VEC_ACTIONS = ["PushBack", "PushBackRv", "PushBackOwn", "PopBack", "Resize", "ResizeVal", "ResizeValOwn", "Reserve", "ShrinkToFit", "Assign",
               "AssignFrom", "CopyCtor", "MoveAssign", "SelfAssign", "Swap", "Clear", "Insert", "InsertMid", "InsertOwn", "Allocate"]
STRONG_OPS = ["PushBack", "PushBackRv", "PushBackOwn", "Reserve", "ShrinkToFit", "CopyCtor"]   # = StrongOps of AlignedVec.tla
# vector lengths at which a reallocation crosses a boundary of the byte size (element sizes 1..64)
LEN_BOUNDS = [127, 128, 129, 255, 256, 257, 511, 512, 513, 1023, 1024, 1025, 4095, 4096, 4097]
LEN_BOUNDS_16 = [65535, 65536, 65537]

ASAN_ENV = {"ASAN_OPTIONS": "detect_leaks=1:leak_check_at_exit=0:abort_on_error=0:exitcode=97:allocator_may_return_null=1:"
                            "detect_stack_use_after_return=0"}
DRIVER_TIMEOUT_MS = "900000"     # watchdog of the forked children: generous, never a verdict
# vacuity guards that depend on what the code under test did (not on the inputs): collected here and raised at the end of a
# run in which the specification rejected nothing - a defect that makes a guard fire must be reported as the violation it is
GUARDS = []


# ---------------------------------------------------------------------------
# format helpers (data movement only)
# ---------------------------------------------------------------------------
def limbs(v):
    return [(v >> (16 * k)) & 0xFFFF for k in (3, 2, 1, 0)]


def unlimbs(l):
    v = 0
    for x in l:
        v = (v << 16) | x
    return v


def size_class(size_limbs):
    """argument class of a request size for signatures (one finding = one family of sizes)"""
    s = unlimbs(size_limbs)
    return ("0" if s == 0 else "1..63" if s < 64 else "64..4097" if s <= 4097 else "4098..2^20" if s <= (1 << 20) + 1
            else "2..4GiB" if s <= (1 << 33) else "huge")


def backends(chk):
    """(label, backend, sanitizer, env) of the allocator variants under test"""
    return [("TBB", "TBB", "", None),
            ("Internal", "Internal", "", None),
            ("Internal+asan", "Internal", "address,undefined", ASAN_ENV)]


# ---------------------------------------------------------------------------
# call sequences for the heap driver (inputs only; every answer is judged by HeapTrace)
# ---------------------------------------------------------------------------
def alloc(h, size, align, es=0, via=None, t=0):
    """es: typed overload alignedMalloc<T>; via="alloc": aligned_allocator<T>::allocate (always 64-byte alignment);
    t: 0 the driver's thread, 1 a long-lived worker thread, 2 a thread created for this call"""
    a = {"h": h, "size": limbs(size), "align": 64 if via else align}
    if es:
        a["es"] = es
    if via:
        a["via"] = via
    if t:
        a["t"] = t
    return {"a": "Alloc", "arg": a}


def free(h, t=0):
    return {"a": "Free", "arg": {"h": h, "t": t} if t else {"h": h}}


def es_for(size, rnd, also_none=True):
    c = [e for e in ES_LIST if size and size % e == 0]
    return rnd.choice(c + ([0] if also_none else [])) if c else 0


def light_execution(size, rnd):
    """every alignment once with this size (plain, typed or through aligned_allocator, from one of three threads), half
    of the blocks freed (by another thread) and re-allocated, all freed"""
    acts = []
    for k, al in enumerate(ALIGNS):
        es = es_for(size, rnd)
        via = rnd.choice(["alloc", "rebind"]) if es and al == 64 else None
        acts.append(alloc(k + 1, size, al, es=es if (via or es != 1) else 0, via=via, t=k % 3))
    acts.append(act("CheckAll"))
    for k in range(0, len(ALIGNS), 2):
        acts.append(free(k + 1, t=(k + 1) % 3))
    acts.append(act("CheckAll"))
    for k in range(0, len(ALIGNS), 2):
        acts.append(alloc(k + 1, size, ALIGNS[(k + 7) % len(ALIGNS)], t=(k + 2) % 3))
    acts.append(act("CheckAll"))
    for k in range(len(ALIGNS)):
        acts.append(free(k + 1, t=(k * 2) % 3))
    acts.append(act("LeakCheck"))
    return acts


def big_execution(rnd, sizes):
    """one block of about 2 / 4 GiB at a time, with small and medium blocks allocated while it is held"""
    acts = []
    for n, size in enumerate(sizes):
        al = (64, 4096, 1, 16)[n % 4]
        es = 64 if size % 64 == 0 else 4 if size % 4 == 0 else 3 if size % 3 == 0 else 1
        via = "alloc" if n % 2 == 0 else None
        acts.append(alloc(1, size, al, es=es if via else 0, via=via))
        for k in range(12):
            acts.append(alloc(2 + k, rnd.choice([64, 4097, 65536, 1 << 20]), rnd.choice(ALIGNS)))
        acts.append(act("CheckAll"))
        for k in range(13):
            acts.append(free(1 + k))
    acts.append(act("LeakCheck"))
    return acts


def rebind_execution(rnd):
    """every element size of the allocator routes: blocks of 1, 2, 57 and 100 elements through the allocator rebound to that
    type (and one through the plain allocator), all held at once per size, checked, freed by another thread"""
    acts = []
    for k, es in enumerate(ES_LIST):
        ns = [1, 2, 57, 100]
        for j, n in enumerate(ns):
            acts.append(alloc(j + 1, n * es, 64, es=es, via="rebind", t=(k + j) % 3))
        acts.append(alloc(5, 3 * es, 64, es=es, via="alloc"))
        acts.append(alloc(6, 5 * es, 128, es=es))             # the typed overload alignedMalloc<T>(5, 128)
        acts.append(act("CheckAll"))
        acts += [free(2, t=(k + 1) % 3), free(4)]
        acts.append(alloc(2, 64 * es, 64, es=es, via="rebind"))
        acts.append(act("CheckAll"))
        acts += [free(j + 1, t=j % 3) for j in range(6) if j != 3]
    acts.append(act("LeakCheck"))
    return acts


def burst_execution(bursts):
    acts = [alloc(1, 4097, 64), alloc(2, 65, 16)]
    for k, (n, size, al) in enumerate(bursts):
        acts.append({"a": "Burst", "arg": {"n": n, "size": limbs(size), "align": al, "t": k % 3}})
        acts.append(act("CheckAll"))
    acts += [free(1), free(2), act("LeakCheck")]
    return acts


def act(a, **arg):
    return {"a": a, "arg": arg}


def grid_execution(size, rnd):
    """every alignment with this size, two blocks each; free half, re-allocate with other alignments, free all"""
    acts = []
    es_of = [e for e in ES_LIST[2:] if size and size % e == 0]
    for k, al in enumerate(ALIGNS):
        acts.append(alloc(2 * k + 1, size, al))
        acts.append(alloc(2 * k + 2, size, al, es=rnd.choice(es_of) if es_of else 0))
    acts.append(act("CheckAll"))
    for k in range(len(ALIGNS)):
        acts.append(act("Free", h=2 * k + 1))
        if k % 4 == 0:
            acts.append(act("Check", h=2 * k + 2))
    acts.append(act("CheckAll"))
    for k, al in enumerate(ALIGNS):
        acts.append(alloc(2 * k + 1, size, ALIGNS[(k + 5) % len(ALIGNS)]))
    acts.append(act("CheckAll"))
    order = list(range(1, 2 * len(ALIGNS) + 1))
    rnd.shuffle(order)
    for n, h in enumerate(order):
        acts.append(act("Free", h=h))
        if n % 9 == 4:
            acts.append(act("CheckAll"))
    acts.append(act("LeakCheck"))
    return acts


def huge_execution():
    acts = [alloc(1, 64, 64), alloc(2, 4097, 4096)]
    for s in HUGE:
        for al in (1, 64, 4096):
            acts.append(alloc(3, s, al))
            acts.append(act("Check", h=3))
            acts.append(act("Free", h=3))
    acts += [act("CheckAll"), act("Free", h=1), act("Free", h=2), act("LeakCheck")]
    return acts


def random_execution(rnd, n, nslots=20):
    acts = []
    used = set()       # the generator's guess (an allocation may return null): only steers the mix of calls
    for _ in range(n):
        x = rnd.random()
        h = rnd.randint(1, nslots)
        if x < 0.46:
            if h in used and rnd.random() < 0.9:
                empty = [s for s in range(1, nslots + 1) if s not in used]
                if empty:
                    h = rnd.choice(empty)
            size = rnd.choice(SIZES + SIZES_MORE) if rnd.random() < 0.6 else rnd.choice(SIZES)
            es_of = [e for e in (0, 0) + ES_LIST[1:] if e == 0 or (size and size % e == 0)]
            es = rnd.choice(es_of)
            acts.append(alloc(h, size, rnd.choice(ALIGNS), es=es, via=rnd.choice(["alloc", "rebind"]) if es and rnd.random() < 0.4 else None,
                              t=rnd.choice([0, 0, 1, 2])))
            used.add(h)
        elif x < 0.76:
            if h not in used and used and rnd.random() < 0.9:
                h = rnd.choice(sorted(used))
            acts.append(free(h, t=rnd.choice([0, 0, 1, 2])))
            used.discard(h)
        elif x < 0.92:
            if h not in used and used and rnd.random() < 0.9:
                h = rnd.choice(sorted(used))
            acts.append(act("Check", h=h))
        elif x < 0.985:
            acts.append(act("CheckAll"))
        else:
            acts.append(act("LeakCheck"))
    acts.append(act("CheckAll"))
    for h in range(1, nslots + 1):
        acts.append(act("Free", h=h))
    acts.append(act("LeakCheck"))
    return acts


def churn_execution():
    return [alloc(1, 4097, 64), alloc(2, 1 << 20, 4096), alloc(3, 65, 1),
            act("Churn", size_kb=1024, cycles=512), act("CheckAll"),
            act("Churn", size_kb=64, cycles=4096), act("CheckAll"),
            act("Free", h=2), act("Churn", size_kb=4096, cycles=128), act("CheckAll"),
            act("Free", h=1), act("Free", h=3)]


# ---------------------------------------------------------------------------
# running the driver and validating with TLC
# ---------------------------------------------------------------------------
def record(exe, executions, tag, meta, env):
    """perform the action lists on the real code; returns one event list per execution"""
    res, rc, stderr, wall = adt.run_driver(exe, executions, tag + "-rec", isolate=4, meta=meta, env=env,
                                           extra_args=["--timeout-ms", DRIVER_TIMEOUT_MS], timeout=3000)
    execs = []
    for i, acts in enumerate(executions):
        r = res.get(i)
        if r is None:
            raise tla.InfraError("driver %s gave no result for execution %d (rc=%s): %s" % (exe, i, rc, stderr[-1500:]))
        if "timeout" in r:
            raise tla.InfraError("driver %s: watchdog fired in execution %d (%s) - machine too slow, not a verdict" % (exe, i, r))
        if "crash" in r:
            k = r["crash"].get("step", 0)
            st = acts[k] if 0 <= k < len(acts) else {"a": None}
            execs.append([{"a": "crash", "during": st["a"], "arg": st.get("arg"), "obs": r["crash"]}])
        else:
            execs.append([{"a": st["a"], "arg": st.get("arg") or {}, "obs": o} for st, o in zip(acts, r["obs"])])
    return execs, stderr, wall


def type_env(var):
    """the instance of the vector specification for an element type: ESize / EAlign of AlignedVecTrace"""
    return {"C14_ESIZE": str(ETYPE[var][0]), "C14_EALIGN": str(ETYPE[var][1])}


def why(spec_dir, module, cfg, events, tag, env=None):
    """re-validate one rejected execution on its own and fetch the clause TLC names (this is also the
    re-check of the artefact before it is reported)"""
    d = os.path.join(tla.WORK, "traces", tag)
    os.makedirs(d, exist_ok=True)
    path = os.path.join(d, "why-%d.ndjson" % os.getpid())
    with open(path, "w") as f:
        for ev in events:
            f.write(json.dumps(ev, separators=(",", ":")) + "\n")
    r = tla.run_tlc(os.path.join(spec_dir, module + ".tla"), os.path.join(spec_dir, cfg), workers=1, timeout=900,
                    env=dict(env or {}, TRACE=path), tag="why-" + tag)
    os.remove(path)
    rej = re.search(r'TRACE-REJECTED-AT-LINE",\s*(\d+)', r.out)
    if r.ok or not rej:
        return None, None          # not reproducible: do not report
    m = re.search(r'"C14-REASON",\s*\d+,\s*"([^"]*)"(?:,\s*"([^"]*)")?', r.out)
    return int(rej.group(1)) - 1, ((m.group(1), m.group(2)) if m else ("no-such-action", None))


def validate_start(pool, spec_dir, module, cfg, executions, execs, tag, sig_prefix, meta, cls_of, env=None):
    """TLC validates the recorded executions (in a worker thread: TLC is an external process); finish with validate_finish"""
    fut = pool.submit(trace.validate, os.path.join(spec_dir, module + ".tla"), os.path.join(spec_dir, cfg), execs, tag, workers=1, timeout=1800,
                      env=env)
    return (fut, spec_dir, module, cfg, executions, execs, tag, sig_prefix, meta, cls_of, env)


def validate_finish(chk, job):
    fut, spec_dir, module, cfg, executions, execs, tag, sig_prefix, meta, cls_of, env = job
    acc, rej, stats = fut.result()
    chk.cov["traces_validated_against_impl"] += acc + len(rej)
    chk.cov.setdefault("trace_events_validated", 0)
    chk.cov["trace_events_validated"] += stats["events"]
    chk.log("trace validation %s: %d executions accepted, %d rejected, %d events, %d TLC run(s), %.1fs"
            % (tag, acc, len(rej), stats["events"], stats["tlc_runs"], stats["wall"]))
    for rj in rej:
        evs = execs[rj["exec"]]
        line, reason = why(spec_dir, module, cfg, evs, tag, env)
        if line is None:
            raise tla.InfraError("rejection of execution %d of %s was not reproduced on re-validation" % (rj["exec"], tag))
        ev = evs[line]
        reason, cls = reason                     # the violated clause and (vector) the argument class, both named by TLC
        if ev.get("a") == "crash":
            reason = "crash"
        action = ev.get("during") or ev.get("a")
        sig = "%s/%s(%s)/%s" % (sig_prefix, action, cls if cls is not None else cls_of(ev), reason)
        what = "%s: recorded execution %d rejected by %s at event %d (%s): %s" % (sig_prefix, rj["exec"], module, line, reason, json.dumps(ev)[:400])
        rep = {"kind": "trace", "property": chk.pid, "tag": tag, "sig_prefix": sig_prefix, "meta": meta, "module": module, "cfg": cfg,
               "actions": executions[rj["exec"]], "events": evs, "rejected_at": line, "reason": reason}
        chk.violation(sig, what, rep)
    return acc, rej


def replay_compare(chk, exe, histories, res, rc, stderr, tag, sig_prefix, meta):
    """the comparison / reporting half of adtcheck.replay (the driver run itself happened in a worker thread):
    deep-equality of the observables TLC computed (exp) with the observed ones, step by step"""
    from ..core import sig_of
    if rc not in (0,) and not res:
        raise tla.InfraError("driver %s produced nothing (rc=%s): %s" % (exe, rc, stderr[-2000:]))
    mms = adt.compare(histories, res, rc, stderr)
    for mm in mms:
        if mm["kind"] == "timeout":
            raise tla.InfraError("driver %s: watchdog fired in history %d - machine too slow, not a verdict" % (exe, mm["case"]))
        if mm["kind"] == "missing":
            if "Sanitizer" in stderr or "runtime error" in stderr:
                mm["kind"] = "crash"
                mm["field"] = "crash"
                h = histories[mm["case"]]
                mm["action"] = h[-1]["a"] if h else None
            else:
                raise tla.InfraError("driver %s stopped without result for case %d (rc=%s): %s" % (exe, mm["case"], rc, stderr[-1500:]))
        h = histories[mm["case"]]
        what = "%s: step %d %s(%s): %s expected %s observed %s" % (
            sig_prefix, mm["step"], mm.get("action"), json.dumps(mm.get("arg")), mm["field"],
            json.dumps(mm.get("expected"))[:300], json.dumps(mm.get("observed"))[:300])
        rep = {"kind": "history", "property": chk.pid, "tag": tag, "sig_prefix": sig_prefix, "meta": meta, "history": h,
               "mismatch": {k: v for k, v in mm.items() if k != "stderr"}}
        if mm.get("stderr"):
            rep["stderr_tail"] = mm["stderr"][-2500:]
        chk.violation(sig_of(sig_prefix, mm), what, rep)
    chk.cov["evaluations"] += len(histories)
    return len(mms)


def heap_cls(ev):
    arg = ev.get("arg") or {}
    a = ev.get("during") or ev.get("a")
    if a == "Alloc" and "size" in arg:
        how = (",rebind_alloc(es=%s)" % arg.get("es") if arg.get("via") == "rebind" else ",aligned_allocator" if arg.get("via")
               else ",typed" if arg.get("es") else "")
        return "size=%s,align=%s%s" % (size_class(arg["size"]), arg.get("align"), how)
    if a == "Burst" and "size" in arg:
        return "n=%s,size=%s,align=%s" % (arg.get("n"), size_class(arg["size"]), arg.get("align"))
    return ""


def vec_cls(ev):
    return ""                  # the class of a vector step is named by the specification (last.cls)


def heap_stats(execs):
    """coverage counters (never a verdict): non-null answers per size, address reuse after free, detector availability"""
    st = {"alloc": 0, "nonnull": 0, "null": 0, "free": 0, "check": 0, "reuse_of_freed_base": 0, "leakcheck_active": 0,
          "nonnull_by_size": {}, "churn": 0, "crash": 0, "bursts": 0, "burst_answers": 0, "largest_burst": 0, "through_allocator": 0,
          "typed_overload": 0, "freed_by_other_thread": 0, "big_nonnull": 0, "through_rebound_allocator": 0, "nonnull_rebound_by_es": {},
          "nonnull_typed_by_es": {}}
    for evs in execs:
        freed = set()
        owner = {}
        for ev in evs:
            a, o = ev["a"], ev.get("obs") or {}
            arg = ev.get("arg") or {}
            if a == "crash":
                st["crash"] += 1
            elif a == "Alloc" and not o.get("skipped"):
                st["alloc"] += 1
                p = tuple(o["p"])
                if any(p):
                    st["nonnull"] += 1
                    owner[arg["h"]] = arg.get("t", 0)
                    st["through_allocator"] += 1 if arg.get("via") else 0
                    if o.get("route") == "rebind":
                        st["through_rebound_allocator"] += 1
                        st["nonnull_rebound_by_es"][str(arg["es"])] = st["nonnull_rebound_by_es"].get(str(arg["es"]), 0) + 1
                    elif arg.get("es") and not arg.get("via"):
                        st["nonnull_typed_by_es"][str(arg["es"])] = st["nonnull_typed_by_es"].get(str(arg["es"]), 0) + 1
                    st["typed_overload"] += 1 if (arg.get("es") and not arg.get("via")) else 0
                    st["big_nonnull"] += 1 if unlimbs(arg["size"]) >= (1 << 31) - 1 and unlimbs(arg["size"]) <= (1 << 33) else 0
                    c = str(unlimbs(ev["arg"]["size"]))
                    st["nonnull_by_size"][c] = st["nonnull_by_size"].get(c, 0) + 1
                    if p in freed:
                        st["reuse_of_freed_base"] += 1
                        freed.discard(p)
                else:
                    st["null"] += 1
            elif a == "Free" and not o.get("skipped"):
                st["free"] += 1
                freed.add(tuple(o["p"]))
                st["freed_by_other_thread"] += 1 if owner.get(arg["h"], 0) != arg.get("t", 0) else 0
            elif a == "Check" and not o.get("skipped"):
                st["check"] += 1
            elif a == "CheckAll":
                st["check"] += len(o.get("blocks", []))
            elif a == "LeakCheck" and o.get("leaked") in (0, 1):
                st["leakcheck_active"] += 1
            elif a == "Churn":
                st["churn"] += 1
            elif a == "Burst":
                st["bursts"] += 1
                st["burst_answers"] += len(o.get("ps", []))
                st["largest_burst"] = max(st["largest_burst"], len(o.get("ps", [])))
    return st


# ---------------------------------------------------------------------------
# model checking
# ---------------------------------------------------------------------------
def expect_refuted(chk, r, module, cfg, expect, what):
    """negative / positive controls: TLC must refute `expect` (an invariant, an action property or an assumption)"""
    got = r.violated or ""
    if r.error and "Assumption" in r.error:
        got = "assumption"
    if r.ok or expect not in got:
        raise tla.InfraError("control %s/%s: expected TLC to refute %s, got ok=%s violated=%s error=%s" % (module, cfg, expect, r.ok, r.violated, (r.error or "")[:300]))
    chk.cov["models"].append({"module": module + "/" + cfg, "distinct_states": r.distinct, "states_generated": r.generated, "depth": r.depth,
                              "wall_s": round(r.wall, 1), "what": "control, refuted as required (%s): %s" % (got, what)})
    chk.cov.setdefault("controls_refuted", 0)
    chk.cov["controls_refuted"] += 1
    return r


def model_checks_start(pool, quick):
    jobs = [
        ("mc", SPEC_MEM, "HeapLimbsMC", "HeapLimbsMC.cfg", "limb arithmetic = integer arithmetic (add, <=, in-space, alignment) on base 4 x 3 limbs; spot checks at base 2^16"),
        ("mc", SPEC_MEM, "HeapMC", "HeapMC.cfg" if quick else "HeapMC_thorough.cfg",
         "every contract-obeying allocator: blocks pairwise disjoint, aligned, in space, intact over the full extent; steps touch only their own block"),
        ("mc", SPEC_MEM, "HeapMC", "HeapMC_why.cfg",
         "Free may leave stale content (address space 1..6, 2 live blocks): still intact; the clause names of reports agree with the contract predicates"),
        ("mc", SPEC_MEM, "HeapMC", "HeapMC_burst.cfg",
         "the linear burst contract (sorted answers, each block ends before the next starts) = the answers given one after the other"),
        ("neg", SPEC_MEM, "HeapMC", "HeapMC_neg_noalign.cfg", "AllAligned", "allocator that ignores the alignment argument"),
        ("neg", SPEC_MEM, "HeapMC", "HeapMC_neg_overlap.cfg", "Intact", "allocator that ignores live blocks"),
        ("neg", SPEC_MEM, "HeapMC", "HeapMC_neg_underalloc.cfg", "Intact", "allocator that reserves size-1 bytes"),
        ("neg", SPEC_MEM, "HeapMC", "HeapMC_neg_header.cfg", "Intact", "allocator that writes an unreserved header before the block"),
        ("neg", SPEC_MEM, "HeapMC", "HeapMC_reuse.cfg", "NoReuseStep", "positive control: freed addresses can be handed out again"),
        ("mc", SPEC_CON, "AllocGuardMC", "AllocGuardMC.cfg", "8-bit size_t: n > max_size() <=> n*sizeof(T) overflows; symbolic request classes agree with arithmetic"),
        ("neg", SPEC_CON, "AllocGuardMC", "AllocGuardMC_neg_unguarded.cfg", "assumption", "allocate without the max_size() guard serves fewer bytes than requested"),
        ("mc", SPEC_CON, "AllocGuardMC", "AllocGuardMC_wide.cfg", "12-bit size_t, element sizes 1..200 (63/64/65, 72, 96, 127/128/129, 160, 200): the guard, the symbolic "
         "request classes, and the limb formulas for max_size() / the request (used at base 2^16 for the real size_t) agree with integer arithmetic"),
        ("neg", SPEC_CON, "AllocGuardMC", "AllocGuardMC_neg_unguarded_wide.cfg", "assumption", "the same for element sizes up to 200"),
        ("mc", SPEC_CON, "AlignedVec", "AlignedVecMC.cfg" if quick else "AlignedVecMC_thorough.cfg",
         "sequence semantics: prefix kept by append/truncate/storage operations, other vector untouched, swap, insert shift, length_error iff beyond max_size()"),
    ]

    def run(j):
        w = 6 if j[0] == "mc" and j[3].split(".")[0] in ("HeapMC", "HeapMC_thorough", "AlignedVecMC", "AlignedVecMC_thorough") else 2
        return tla.run_tlc(os.path.join(j[1], j[2] + ".tla"), os.path.join(j[1], j[3]), workers=w, timeout=2400, tag=j[0] + "-" + j[3])

    return [(j, pool.submit(run, j)) for j in jobs]


def model_checks_finish(chk, started):
    for j, fut in started:
        r = fut.result()
        if j[0] == "mc":
            chk.require_model_ok(j[2] + "/" + j[3], r, j[4])
        else:
            expect_refuted(chk, r, j[2], j[3], j[4], j[5])


# ---------------------------------------------------------------------------
# the heap: code -> spec
# ---------------------------------------------------------------------------
def heap_part(chk, pool, quick, rnd, exes):
    n_rand = 12 if quick else 60
    jobs = []
    started = []
    for label, backend, san, env in backends(chk):
        executions = [grid_execution(s, rnd) for s in SIZES] + [huge_execution()]
        executions += [light_execution(s, rnd) for s in SIZES_MORE]
        executions += [big_execution(rnd, BIG if not quick else [BIG[1], BIG[4], BIG[5]])]
        executions += [burst_execution(BURSTS_QUICK if quick else BURSTS_QUICK + BURSTS_MORE)]
        executions += [rebind_execution(rnd)]
        executions += [random_execution(rnd, 300) for _ in range(n_rand)]
        if not san:
            executions.append(churn_execution())
        tag = "c14-heap-" + label.replace("+", "-")
        started.append((label, san, executions, tag, pool.submit(record, exes[label], executions, tag, {"world": "heap"}, env)))
    for label, san, executions, tag, fut in started:
        chk.count_actions(executions)
        execs, stderr, wall = fut.result()
        st = heap_stats(execs)
        chk.cov.setdefault("heap", {})[label] = st
        chk.log("alignedMalloc[%s]: %d executions recorded in %.1fs: %d allocations (%d non-null, %d null), %d frees, %d block checks, "
                "%d re-used freed bases, %d active leak checks" % (label, len(execs), wall, st["alloc"], st["nonnull"], st["null"], st["free"],
                                                                    st["check"], st["reuse_of_freed_base"], st["leakcheck_active"]))
        jobs.append(validate_start(pool, SPEC_MEM, "HeapTrace", "HeapTrace.cfg", executions, execs, tag, "alignedMalloc[%s]" % label,
                                   {"world": "heap", "label": label}, heap_cls))
        chk.cov["evaluations"] += len(executions)
        chk.cov["distinct_nontrivial"] += len({json.dumps(e, sort_keys=True) for e in executions})
        # vacuity guards: the contract allows null for every request, the evidence must not rest on nulls
        if not st["crash"]:
            missing = [str(s) for s in SIZES + SIZES_MORE if s and not st["nonnull_by_size"].get(str(s))]
            if missing:
                GUARDS.append("vacuity guard: alignedMalloc[%s] never returned memory for sizes %s" % (label, missing))
            if san and not st["leakcheck_active"]:
                GUARDS.append("vacuity guard: the leak detector was not active in the %s build" % label)
            if not san and not st["churn"]:
                GUARDS.append("vacuity guard: no Churn observation in the %s build" % label)
            if st["largest_burst"] < 65536 or not st["through_allocator"] or not st["typed_overload"] or not st["freed_by_other_thread"]:
                GUARDS.append("vacuity guard: alignedMalloc[%s]: burst of 65536 / allocator route / typed overload / cross-thread free "
                                     "not exercised: %s" % (label, {k: st[k] for k in ("largest_burst", "through_allocator", "typed_overload", "freed_by_other_thread")}))
            norebind = [str(e) for e in ES_LIST if not st["nonnull_rebound_by_es"].get(str(e))]
            if norebind:
                GUARDS.append("vacuity guard: alignedMalloc[%s]: the allocator rebound to element sizes %s never returned memory" % (label, norebind))
            notyped = [str(e) for e in ES_LIST[5:] if not st["nonnull_typed_by_es"].get(str(e))]
            if notyped:
                GUARDS.append("vacuity guard: alignedMalloc[%s]: the typed overload never returned memory for element sizes %s" % (label, notyped))
            if not st["big_nonnull"]:
                chk.note("alignedMalloc[%s] answered null to every request of 2..4 GiB on this machine: the 2^31 / 2^32 boundaries are not exercised" % label)
        if label == "TBB":
            chk.add_sample({"kind": "recorded-trace-prefix", "object": "alignedMalloc[TBB]", "events": execs[5][:4]})
    chk.require_actions(["Alloc", "Free", "Check", "CheckAll", "LeakCheck", "Churn", "Burst"])
    return jobs


# ---------------------------------------------------------------------------
# AlignedVector: spec -> code and code -> spec
# ---------------------------------------------------------------------------
def rand_vec_actions(rnd, n, byte_sized, fuses=False):
    acts = []
    for _ in range(n):
        x = rnd.random()
        i = rnd.randint(1, 2)
        v = rnd.randint(1, 9)
        if x < 0.17: a = act("PushBack", i=i, x=v)
        elif x < 0.26: a = act("PushBackRv", i=i, x=v)
        elif x < 0.30: a = act("PushBackOwn", i=i)                   # guarded below: needs a non-empty vector
        elif x < 0.33: a = act("PopBack", i=i)                       # guarded below
        elif x < 0.36: a = act("InsertOwn", i=i)                     # guarded below
        elif x < 0.39: a = act("ResizeValOwn", i=i, n=rnd.choice([0, 1, 6, 20, 66]))   # guarded below
        elif x < 0.46: a = act("Resize", i=i, n=rnd.choice([0, 1, 3, 8, 17, 33, 64, 90]))
        elif x < 0.51: a = act("ResizeVal", i=i, n=rnd.choice([0, 2, 9, 31, 65]), x=v)
        elif x < 0.58: a = act("Reserve", i=i, n=rnd.choice([0, 1, 16, 100, 257]))
        elif x < 0.64: a = act("ShrinkToFit", i=i)
        elif x < 0.68: a = act("Assign", i=i, n=rnd.choice([0, 1, 5, 40, 70]), x=v)
        elif x < 0.72: a = act("AssignFrom", i=i)
        elif x < 0.76: a = act("CopyCtor", i=i)
        elif x < 0.79: a = act("MoveAssign", i=i)
        elif x < 0.81: a = act("SelfAssign", i=i)
        elif x < 0.85: a = {"a": "Swap", "arg": []}
        elif x < 0.87: a = act("Clear", i=i)
        elif x < 0.90: a = act("Insert", i=i, pos=0, x=v)             # position 0 is always legal
        elif x < 0.95: a = act("InsertMid", i=i, x=v)
        else:
            rel = rnd.choice(["abs", "abs", "max", "ovf"])
            if rel == "abs": d = rnd.choice([0, 1, 5, 1000])
            elif rel == "max": d = rnd.choice([-1, 0] if byte_sized else [-1, 0, 1, 2, 7])
            else: d = rnd.choice([-1, 0] if byte_sized else [1, 2, 3])
            if rel == "ovf" and d <= 0:
                rel = "max"
            how = rnd.choice(["plain", "hint", "rebind", "traits", "rebind_to", "rebind_to"])
            if how == "rebind_to":
                to = rnd.choice(REBIND_TO)
                if to[0] == 1 or byte_sized:                     # the request is written relative to max_size() of the TARGET type
                    rel, d = rnd.choice([("abs", 3), ("abs", 0), ("max", 0), ("max", -1)] if to[0] == 1 else [("abs", 2), ("max", 1), ("ovf", 2), ("max", 0)])
                a = act("Allocate", how=how, to={"size": to[0], "align": to[1]}, rel=rel, d=d)
            else:
                a = act("Allocate", how=how, rel=rel, d=d)
        if fuses and a["a"] in STRONG_OPS and rnd.random() < 0.35:
            a["arg"]["fuse"] = rnd.choice([1, 1, 2, 3, 5, 17])       # the k-th element copy inside this call throws
        acts.append(a)
    # pop_back / v[0] / back() on an empty vector is undefined behaviour: guard them with a PushBack on the same vector
    out = []
    for a in acts:
        if a["a"] in ("PopBack", "PushBackOwn", "InsertOwn", "ResizeValOwn"):
            out.append(act("PushBack", i=a["arg"]["i"], x=7))
        out.append(a)
    return out


def boundary_vec_actions(rnd, bounds, fuses=False):
    """vectors grown to, across and back from lengths at which the byte size of a reallocation crosses a boundary"""
    acts = []
    for n in bounds:
        i = rnd.randint(1, 2)
        v = rnd.randint(1, 9)
        acts += [act("Clear", i=i), act("ShrinkToFit", i=i),
                 act("ResizeVal", i=i, n=n - 1, x=v),               # exactly n-1 elements in a fresh block
                 act("PushBack", i=i, x=rnd.randint(1, 9)),         # n: reallocation with n-1 survivors
                 act("PushBackOwn", i=i),                           # n+1, the argument aliases element 0
                 act("ShrinkToFit", i=i),
                 act("InsertMid", i=i, x=rnd.randint(1, 9)),
                 act("CopyCtor", i=3 - i),
                 act("Reserve", i=3 - i, n=2 * n + 1),
                 act("Resize", i=i, n=n),
                 act("Assign", i=3 - i, n=n + 1, x=rnd.randint(1, 9)),
                 {"a": "Swap", "arg": []},
                 act("MoveAssign", i=i)]
        if fuses:
            acts += [dict(act("Reserve", i=i, n=4 * n), arg={"i": i, "n": 4 * n, "fuse": n // 2 + 1}),
                     dict(act("PushBack", i=i, x=3), arg={"i": i, "x": 3, "fuse": 1})]
    return acts


def rebind_vec_actions(byte_sized):
    """the allocator of the vectors rebound to every other type of the specification, and the allocator type the vector itself
    allocates through: requests that must succeed (1, 100, 1000 elements), max_size() itself and one element beyond it"""
    acts = [act("PushBack", i=1, x=3)]
    for to in REBIND_TO:
        for rel, d in [("abs", 1), ("abs", 100), ("abs", 1000), ("max", 0)] + ([] if to[0] == 1 else [("max", 1), ("ovf", 1)]):
            acts.append(act("Allocate", how="rebind_to", to={"size": to[0], "align": to[1]}, rel=rel, d=d))
        acts.append(act("PushBackOwn", i=1))
    for how in ("traits", "rebind", "hint", "plain"):
        for rel, d in [("abs", 1), ("abs", 100), ("abs", 1000), ("max", 0)] + ([] if byte_sized else [("max", 1), ("ovf", 1)]):
            acts.append(act("Allocate", how=how, rel=rel, d=d))
    return acts


def vec_stats(execs):
    st = {"steps": 0, "storage_moved": 0, "max_len": 0, "allocate_len_err": 0, "allocate_ok": 0, "allocate_bad_alloc": 0, "copy_threw": 0,
          "fuse_armed": 0, "rebind_to_ok": {}, "rebind_to_len_err": 0, "traits_ok": 0, "type": None}
    for evs in execs:
        for ev in evs:
            o = ev.get("obs") or {}
            st["steps"] += 1
            st["storage_moved"] += sum(1 for m in o.get("moved", []) if m)
            st["max_len"] = max([st["max_len"]] + list(o.get("sizes", [])))
            st["copy_threw"] += 1 if o.get("ret") == "threw" else 0
            st["fuse_armed"] += 1 if isinstance(ev.get("arg"), dict) and ev["arg"].get("fuse") else 0
            if ev["a"] == "Allocate":
                r = o.get("ret")
                how = ev["arg"].get("how")
                if how == "rebind_to":
                    k = "%d/%d" % (ev["arg"]["to"]["size"], ev["arg"]["to"]["align"])
                    st["rebind_to_ok"][k] = st["rebind_to_ok"].get(k, 0) + (1 if r == "ok" else 0)
                    st["rebind_to_len_err"] += 1 if r == "length_error" else 0
                else:
                    st["traits_ok"] += 1 if (how == "traits" and r == "ok") else 0
                    if o.get("ty"):
                        st["type"] = [o["ty"].get("size"), o["ty"].get("align")]
                if r == "length_error": st["allocate_len_err"] += 1
                elif r == "ok": st["allocate_ok"] += 1
                elif r == "bad_alloc": st["allocate_bad_alloc"] += 1
    return st


def vec_gen_start(chk, pool, quick):
    budget = 9000 if quick else 60000
    return pool.submit(adtcheck.gen_histories, chk, SPEC_CON, "AlignedVec", GEN_CFG, budget, 6, walks=600 if quick else 6000, walk_len=40,
                       seed=chk.seed, mutators=VEC_MUT, tag="c14-vec-gen")


def histories_for(hs, kind, same_type=False):
    """regrouping of the histories TLC generated for the widest instance: an element type of size 1 gets the histories all of
    whose steps the specification marked byte_ok; a type that cannot report the lifetime accounting is compared on the
    expected observables without the `life` record"""
    """; exp.ty (sizeof / alignof / max_size() / request of the generation instance's own element type) is kept for the element
    types that have that sizeof / alignof (same_type) - exp.rty, about the types an allocator is rebound to, is kept for all"""
    drop = set(() if kind == "life" else ("life",)) | set(() if same_type else ("ty",))
    out = []
    for h in hs:
        if kind == "byte" and not all(st.get("byte_ok", True) for st in h):
            continue
        out.append([dict(st, exp={k: v for k, v in st["exp"].items() if k not in drop}) for st in h])
    return out


def vec_part(chk, pool, quick, rnd, exes, gf):
    hs, info, ag = gf.result()
    chk.cov["generation_AlignedVec"] = info
    chk.count_actions(hs)
    if info["all_histories_len"] < 2:
        raise tla.InfraError("vacuity guard: the generation budget no longer covers all histories of length 2")
    flavour = {var: (VARIANTS[var], ETYPE[var] == GEN_ETYPE) for var in VARIANTS}
    gens = {fl: histories_for(hs, fl[0], fl[1]) for fl in sorted(set(flavour.values()))}
    if not any(same for _, same in gens):
        raise tla.InfraError("vacuity guard: no element type has the sizeof / alignof of the generation instance")
    nreb = sum(1 for h in hs for st in h if st["a"] == "Allocate" and st["arg"].get("how") == "rebind_to" and "rty" in st["exp"])
    if not nreb:
        raise tla.InfraError("vacuity guard: no rebind_to step in the generated histories")
    chk.cov["generated_rebind_to_steps"] = nreb
    if not (0 < len(gens[("byte", False)]) < len(gens[("plain", False)])):
        raise tla.InfraError("vacuity guard: byte_ok did not select a proper, non-empty subset of the histories")
    chk.require_actions(VEC_ACTIONS)
    chk.add_sample({"kind": "history", "object": "AlignedVector", "steps": gens[("life", False)][len(gens[("life", False)]) // 2]})
    nexec = 6 if quick else 40
    combos = [(lab, var) for lab in ("Internal+asan", "TBB", "Internal") for var in VARIANTS if not (var in NO_SANITIZER and "asan" in lab)]
    if quick:
        # what an element type adds is independent of the back end, what a back end adds is the alignment of its blocks:
        # every type on the instrumented build, the non-trivial ones and two sizes on TBB, two sizes on plain _mm_malloc
        # the size / alignment-only types: sizes above 64 that are not powers of two on every back end, the sizes around 64 / 128 spread
        keep = {"Internal+asan": (set(VARIANTS) - set(BLOBS)) | {"e65", "e72"},
                "TBB": {"c1", "a32", "nest", "trk", "e96", "e127", "e129", "a128"}, "Internal": {"b3", "s64", "e63", "e128", "e160", "e200"}}
        combos = [c for c in combos if c[1] in keep[c[0]]]
    envs = {lab: env for lab, _, _, env in backends(chk)}
    moved_total = 0
    jobs = []

    def drive(lab, var, executions):
        """external processes only: the driver follows the TLC histories and performs the random executions"""
        tag = "c14-vec-%s-%s" % (var, lab.replace("+", "-"))
        meta = {"world": "vec", "variant": var}
        rr = adt.run_driver(exes[lab], gens[flavour[var]], tag, isolate=500, meta=meta, env=envs[lab], timeout=3000,
                            extra_args=["--timeout-ms", DRIVER_TIMEOUT_MS])
        rec = record(exes[lab], executions, tag, meta, envs[lab])
        return rr, rec

    started = []
    for lab, var in combos:
        life = VARIANTS[var] == "life"
        executions = [rand_vec_actions(rnd, 250, VARIANTS[var] == "byte", fuses=life) for _ in range(nexec)]
        executions.append(boundary_vec_actions(rnd, LEN_BOUNDS if not quick else rnd.sample(LEN_BOUNDS[:12], 4) + [rnd.choice(LEN_BOUNDS[12:])], fuses=life))
        if var in ("c1", "i4") and lab == "Internal+asan" or (not quick and var in ("c1", "i4", "trk")):
            executions.append(boundary_vec_actions(rnd, LEN_BOUNDS_16 if not quick else [rnd.choice(LEN_BOUNDS_16)], fuses=life))
        executions.append(rebind_vec_actions(VARIANTS[var] == "byte"))
        started.append((lab, var, executions, pool.submit(drive, lab, var, executions)))
    for lab, var, executions, fut in started:
        byte_sized = VARIANTS[var] == "byte"
        hs = gens[flavour[var]]
        prefix = "AlignedVector<%s>[%s]" % (var, lab)
        tag = "c14-vec-%s-%s" % (var, lab.replace("+", "-"))
        meta = {"world": "vec", "variant": var}
        (res, rc, stderr, wall), (execs, stderr2, wall2) = fut.result()
        n = replay_compare(chk, exes[lab], hs, res, rc, stderr, tag, prefix, meta)
        chk.log("%s: %d histories replayed (%d mismatching) in %.1fs" % (prefix, len(hs), n, wall))
        chk.cov["distinct_nontrivial"] += adtcheck._nontrivial_distinct(hs, VEC_MUT)
        chk.count_actions(executions)
        st = vec_stats(execs)
        moved_total += st["storage_moved"]
        chk.cov.setdefault("vector", {})[prefix] = st
        jobs.append(validate_start(pool, SPEC_CON, "AlignedVecTrace", TRACE_CFG[VARIANTS[var]],
                                   executions, execs, tag, prefix, dict(meta, label=lab), vec_cls, env=type_env(var)))
        chk.cov["evaluations"] += len(executions)
        beyond = sum(1 for e in executions for a in e if a["a"] == "Allocate" and a["arg"]["rel"] in ("max", "ovf") and a["arg"]["d"] > 0)
        if not byte_sized and not beyond:
            raise tla.InfraError("vacuity guard: no allocate() request beyond max_size() in the random executions for %s" % prefix)
        crashed = any(ev["a"] == "crash" for evs in execs for ev in evs)
        if VARIANTS[var] == "life" and not crashed and not st["copy_threw"]:
            GUARDS.append("vacuity guard: no element copy threw in the recorded executions of %s (%d fuses armed)" % (prefix, st["fuse_armed"]))
        if not crashed:
            noreb = [k for k in ("%d/%d" % t for t in REBIND_TO) if not st["rebind_to_ok"].get(k)]
            if noreb or not st["traits_ok"] or not st["rebind_to_len_err"]:
                GUARDS.append("vacuity guard: %s: allocator rebound to %s never returned memory / traits route %d / length_error of a rebound "
                              "allocator %d" % (prefix, noreb, st["traits_ok"], st["rebind_to_len_err"]))
            if st["type"] is None:
                GUARDS.append("vacuity guard: %s: the driver never reported sizeof / alignof of its element type" % prefix)
            elif st["type"] != list(ETYPE[var]):
                raise tla.InfraError("the driver's element type %s has sizeof / alignof %s, the table says %s" % (var, st["type"], ETYPE[var]))
        if not crashed and st["max_len"] < 4095:
            GUARDS.append("vacuity guard: the vectors of %s never reached 4095 elements" % prefix)
    if not chk.violations and moved_total < 100:
        GUARDS.append("vacuity guard: storage moved only %d times in the recorded vector executions" % moved_total)
    return jobs


# ---------------------------------------------------------------------------
def run(chk, replay=None):
    quick = chk.tier == "quick"
    rnd = random.Random(chk.seed)
    chk.assumptions += [
        "TLC explores the bounded model instances completely (address space 1..8 / 1..12, 3 live blocks; vectors of <= 3 elements)",
        "the limb arithmetic used for 64-bit addresses is the one TLC checked against integers on a small base (same definitions, other constants)",
        "the driver's pattern fill / compare touches exactly the requested extent [p, p+size) (both 4 KiB edges only for requests above 2^28 bytes)",
        "TBB's scalable allocator is not instrumented: overruns inside its blocks are only visible as corrupted neighbours, not as sanitizer reports",
        "'released' is observed through LeakSanitizer (ASan build) and resident-set growth (plain builds), with a one-sided bound of a quarter of the churned bytes + 64 MiB",
    ]
    if replay:
        return do_replay(chk, replay)
    del GUARDS[:]
    # TLC runs and builds are external processes: they are started from worker threads and joined in a fixed order
    with ThreadPoolExecutor(max_workers=10) as pool:
        bf = {lab: pool.submit(build.build, "drv_heap", backend=be, san=san) for lab, be, san, _ in backends(chk)}
        gf = vec_gen_start(chk, pool, quick)
        mc = model_checks_start(pool, quick)
        exes = {lab: f.result() for lab, f in bf.items()}
        jobs = heap_part(chk, pool, quick, rnd, exes)
        jobs += vec_part(chk, pool, quick, rnd, exes, gf)
        model_checks_finish(chk, mc)
        for j in jobs:
            validate_finish(chk, j)
    if GUARDS and not chk.violations and not chk.known_hits:
        raise tla.InfraError("; ".join(GUARDS))
    chk.cov["rule"] = ("heap: evaluations = recorded executions of the real allocator validated by HeapTrace (per size: all 13 alignments twice, "
                       "partial free, re-allocation; huge sizes; seeded random 300-call executions with <= 20 live blocks; alloc/free churn), per back end; "
                       "vector: histories = paths of TLC's complete state graph (all paths up to the budgeted length, one shortest path per transition, "
                       "seeded random walks) replayed per element type and back end + recorded 250-step random executions validated by AlignedVecTrace; "
                       "distinct_nontrivial = distinct call sequences containing a state-changing call")


def do_replay(chk, path):
    rep = json.load(open(path))
    meta = rep.get("meta") or {}
    lab = meta.get("label")
    if lab is None:
        m = re.search(r"\[([^\]]+)\]", rep.get("sig_prefix", ""))
        lab = m.group(1) if m else "Internal+asan"
    be = {l: (b, s, e) for l, b, s, e in backends(chk)}[lab]
    exe = build.build("drv_heap", backend=be[0], san=be[1])
    dmeta = {k: v for k, v in meta.items() if k != "label"}
    if rep["kind"] == "history":
        adtcheck.replay(chk, exe, [rep["history"]], "replay", rep["sig_prefix"], isolate=1, meta=dmeta, env=be[2])
    else:
        executions = [rep["actions"]]
        execs, stderr, wall = record(exe, executions, "c14-replay", dmeta, be[2])
        heap = dmeta.get("world") == "heap"
        with ThreadPoolExecutor(max_workers=1) as pool:
            validate_finish(chk, validate_start(pool, SPEC_MEM if heap else SPEC_CON, rep["module"], rep["cfg"], executions, execs, "c14-replay",
                                                rep["sig_prefix"], meta, heap_cls if heap else vec_cls,
                                                env=None if heap else type_env(dmeta.get("variant", "i4"))))
    chk.cov["evaluations"] = max(chk.cov["evaluations"], 1)
