"""C03 - AsyncLoop honours its start/stop/destroy protocol on every interleaving."""
import json, os, random, subprocess, time
from collections import deque
from .. import tla, build, trace, adt
from ..tla import VERIF, WORK, InfraError

LEVEL = "model_checking"
LEVEL_TEXT = ("TLC checks that the PlusCal mechanism model of AsyncLoop.h (one label per verification point in the real header) refines the "
              "contract AsyncLoopContract (no body while stopped / after stop() returned / after destruction of an owned thread) and terminates "
              "(no lost wake-up, destructor returns) for all scripts over {start, stop, settle} up to a bounded length, under all interleavings, "
              "both launch methods; negative-control variants (no re-check after publishing insideLoopBody; start() without the mutex) must be "
              "refuted.  The model is bound to the code: a transition cover of the model's state graph is replayed as forced schedules on the "
              "real AsyncLoop through the hook points (serialised threads), every covering prefix is also continued with start + settle as a "
              "liveness probe, plus seeded random serialised schedules and free-running executions "
              "on all tasking backends; the recorded contract events of every execution are validated by TLC against AsyncLoopContract "
              "(this decides), and the recorded steps against the mechanism model (detects model drift).  A second model, AsyncLoopTSO, puts the "
              "stop()/body handshake under x86-TSO store buffers: it holds with the header's seq_cst stores and is refuted when either store "
              "is weakened; because the hook callbacks are fences, this part is bound to the code by rapid start/stop cycles on a build "
              "WITHOUT hook points whose suspicious cycles (a body observed the token published after stop() returned) are validated by TLC.  "
              "Several instances / identity of the caller: AsyncLoopMulti models 2 instances with per-instance shouldBeRunning / insideLoopBody whose "
              "start() / stop() are issued by an external thread or by the loop thread of the OTHER instance from inside its body; TLC checks that it "
              "refines the per-instance contract AsyncLoopMultiContract (no body of i after stop(i) returned to any caller), Independence and that every "
              "call returns, and refutes a per-thread-flag and a per-process-flag variant; plans from TLC's state graph of AsyncLoopMultiPlan (transition "
              "cover, all plans up to a length, random walks) are replayed on 2 real instances (all launch-method pairs, 4 backends) with bodies parked at "
              "a gate, and TLC validates the stamped events (body entry / exit stamped inside the body) against AsyncLoopMultiContract.")
LEVEL_NOTE = ("bounded scripts (<= 3 calls quick, <= 4 thorough, + destroy) in the exhaustive part; sequentially consistent atomics assumed by the "
              "mechanism model (the header uses seq_cst std::atomic; AsyncLoopTSO.tla shows the handshake needs them, and the hook-free stress "
              "plan looks for weakened orderings on this x86 machine only - other architectures' reorderings are not observable here); bounded-time clause checked as: with the loop thread given every step it asks for, "
              "the body is entered (serialised modes) / within 6 s (free-running); trusted: TLC, the schedule controller, stamps taken under one mutex")
TECHNIQUE = ("PlusCal mechanism model refines TLA+ contract (TLC, incl. liveness and negative controls); TLC-derived schedules forced on the real "
             "code through guarded hook points; TLC trace validation of recorded contract events and steps")

SPEC = os.path.join(VERIF, "spec", "tasking")
SIG = "AsyncLoop"


def proc_of(label):
    return "L" if (label.startswith("L_") or label == "B_in") else "C"


def cover_paths(g, max_len=400):
    """Paths from initial states covering every edge of TLC's state graph."""
    parent = {}
    order = []
    dq = deque()
    for s in g.init:
        parent[s] = None
        dq.append(s)
    while dq:
        s = dq.popleft()
        order.append(s)
        for ei in g.out.get(s, []):
            src, dst, lab = g.edges[ei]
            if lab == "Terminating":
                continue
            if dst not in parent:
                parent[dst] = (s, ei)
                dq.append(dst)

    def path_to(s):
        p = []
        while parent[s] is not None:
            ps, ei = parent[s]
            p.append(ei)
            s = ps
        p.reverse()
        return s, p

    uncovered = set(i for i, e in enumerate(g.edges) if e[2] != "Terminating")
    paths = []
    for s in order:
        for ei in g.out.get(s, []):
            if ei not in uncovered:
                continue
            root, p = path_to(s)
            p = p + [ei]
            cur = g.edges[ei][1]
            for x in p:
                uncovered.discard(x)
            while len(p) < max_len:
                nxt = [x for x in g.out.get(cur, []) if x in uncovered]
                if not nxt:
                    break
                x = nxt[0]
                uncovered.discard(x)
                p.append(x)
                cur = g.edges[x][1]
            paths.append((root, p))
    return paths


def gen_schedules(chk, method, cfg):
    os.makedirs(os.path.join(WORK, "graphs"), exist_ok=True)
    dot = os.path.join(WORK, "graphs", "asyncloop-%s-%d.dot" % (method, os.getpid()))
    r = tla.run_tlc(os.path.join(SPEC, "AsyncLoop.tla"), os.path.join(SPEC, cfg), workers=8, timeout=900, dump_dot=dot, tag="c03gen")
    if not r.ok:
        raise InfraError("AsyncLoop generation model failed: %s %s" % (r.violated, r.error))
    chk.add_model("AsyncLoop/" + cfg, r, "state graph for schedule generation")
    g = tla.parse_dot(dot)
    os.remove(dot)
    paths = cover_paths(g)
    scheds = []
    for root, p in paths:
        script = g.nodes[root]["script"]
        sched = [[proc_of(g.edges[ei][2]), g.edges[ei][2]] for ei in p]
        scheds.append({"method": method, "script": list(script), "mode": "follow", "sched": sched})
    chk.log("AsyncLoop %s: %d states, %d transitions -> %d covering schedules (max length %d)"
            % (method, len(g.nodes), len(g.edges), len(scheds), max(len(s["sched"]) for s in scheds)))
    return scheds, len(g.edges)


def probe_schedules(scheds):
    """Liveness probes: every covering path, cut before the destructor phase, continued with start + settle (then the destructor):
    whatever state of the model an execution was driven into, a later start() must still make the body run.  The forced part
    comes from TLC's graph; the continuation is drained by the controller."""
    out, seen = [], set()
    for sc in scheds:
        st = sc["sched"]
        k = next((i for i, x in enumerate(st) if x[1].startswith("D_")), None)
        if k is not None:
            h = max((i for i in range(k) if st[i][1] == "H_next"), default=None)
            if h is None:
                continue
            st = st[:h]
        script = [x for x in sc["script"] if x != "destroy"] + ["start", "settle"]
        key = (tuple(script), tuple(x[1] for x in st))
        if key in seen:
            continue
        seen.add(key)
        out.append({"method": sc["method"], "script": script, "mode": "follow", "sched": st, "probe": True})
    return out


def rand_script(rnd, maxlen):
    n = rnd.randint(1, maxlen)
    out = []
    for _ in range(n):
        x = rnd.random()
        out.append("start" if x < 0.4 else "stop" if x < 0.75 else "settle")
    return out + ["destroy"]


def run_driver(exe, execs, tag, timeout=900, block_ms=25, max_hangs=1000):
    d = os.path.join(WORK, "run", tag)
    os.makedirs(d, exist_ok=True)
    inp = os.path.join(d, "sched-%d.ndjson" % os.getpid())
    outp = os.path.join(d, "events-%d.ndjson" % os.getpid())
    results = {}
    pending = list(range(len(execs)))
    rounds = 0
    hangs = 0
    while pending and rounds < 50:
        rounds += 1
        with open(inp, "w") as f:
            for i in pending:
                e = dict(execs[i])
                e["id"] = i
                e.setdefault("seed", i + 1)
                f.write(json.dumps(e, separators=(",", ":")) + "\n")
        try:
            p = subprocess.run([exe, "--in", inp, "--out", outp, "--block-ms", str(block_ms)], stdout=subprocess.PIPE, stderr=subprocess.STDOUT, timeout=timeout)
            rc = p.returncode
        except subprocess.TimeoutExpired:
            rc = "timeout"
        got = 0
        if os.path.exists(outp):
            for line in open(outp):
                line = line.strip()
                if line:
                    try:
                        j = json.loads(line)
                    except ValueError:
                        continue
                    results[j["id"]] = j
                    got += 1
        if rc == 0:
            break
        if sum(1 for r in results.values() if r.get("hang") or r.get("stuck")) >= 25:
            # enough evidence that executions do not terminate; the remaining ones are not run (reported as not executed)
            for i in pending:
                if i not in results:
                    results[i] = {"id": i, "skipped": True, "events": []}
            break
        # the driver stopped early (stuck execution -> _exit(3), or killed): skip what was reported and go on
        done = set(results)
        nxt = [i for i in pending if i not in done]
        if rc == "timeout" and nxt:
            results[nxt[0]] = {"id": nxt[0], "hang": True, "events": []}
            nxt = nxt[1:]
            hangs += 1
            if hangs >= max_hangs:
                # enough evidence; the remaining executions are not run (they are reported as not executed, not as accepted)
                for i in nxt:
                    results[i] = {"id": i, "skipped": True, "events": []}
                nxt = []
        elif rc != 3 and got == 0:
            raise InfraError("asyncloop driver failed rc=%s: %s" % (rc, p.stdout.decode()[-1500:] if rc != "timeout" else ""))
        pending = nxt
    for pth in (inp, outp):
        try:
            os.remove(pth)
        except OSError:
            pass
    return results


CONTRACT_EVENTS = {"StartCall", "StartRet", "StopCall", "StopRet", "DtorCall", "DtorRet", "BodyEnter", "BodyExit", "SettleOk", "SettleTimeout"}


def contract_trace(ex, res):
    ev = [{"e": "Begin", "method": ex["method"]}]
    for e in sorted(res.get("events", []), key=lambda x: x["s"]):
        if e["e"] in CONTRACT_EVENTS:
            ev.append({"e": e["e"]})
    if res.get("stuck"):
        ev.append({"e": "Stuck"})
    if res.get("hang"):
        ev.append({"e": "Hang"})
    return ev


def mech_trace(ex, res):
    ev = [{"e": "Begin", "script": ex["script"]}]
    for e in sorted(res.get("events", []), key=lambda x: x["s"]):
        if e["e"] == "G":
            ev.append({"e": "G", "site": e["site"]})
        elif e["e"] == "W":
            ev.append({"e": "G", "site": "L_wait"})
    return ev


def classify(ev, k):
    """Signature class of a rejected contract event: the contract state it arrived in."""
    method, q, b, d = "THREAD", True, False, False
    for x in ev[:k]:
        e = x["e"]
        if e == "Begin": method, q, b, d = x["method"], True, False, False
        elif e == "StartCall": q = False
        elif e == "StopRet": q = True
        elif e == "DtorRet": d = True
        elif e == "BodyEnter": b = True
        elif e == "BodyExit": b = False
    e = ev[k]["e"]
    if e == "BodyEnter":
        why = "while-stopped" if q else ("after-destroy" if d and method == "THREAD" else ("overlapping" if b else "other"))
        return "BodyEnter(%s)" % why
    if e in ("StopRet", "DtorRet"):
        return "%s(body-active)" % e
    return "%s()" % e


def validate_and_report(chk, execs, results, tag, backend, check_mech):
    ctraces, idx = [], []
    for i, ex in enumerate(execs):
        r = results.get(i)
        if r is None:
            raise InfraError("no result for execution %d of %s" % (i, tag))
        if r.get("skipped"):
            continue      # not executed (the plan was cut short after repeated hangs): neither accepted nor rejected
        ctraces.append(contract_trace(ex, r))
        idx.append(i)
    acc, rej, stats = trace.validate(os.path.join(SPEC, "AsyncLoopContractTrace.tla"), os.path.join(SPEC, "AsyncLoopContractTrace.cfg"),
                                     ctraces, "c03-" + tag, separator=False, max_rejections=8, reset_key="e")
    chk.cov["traces_validated_against_impl"] += acc + len(rej)
    chk.cov["contract_events_validated"] = chk.cov.get("contract_events_validated", 0) + stats["events"]
    for rj in rej:
        i = idx[rj["exec"]]
        ev = ctraces[rj["exec"]]
        cls = classify(ev, rj["line"])
        sig = "%s/%s/%s/contract-rejected" % (SIG, execs[i]["method"], cls)
        what = ("%s launch, %s backend, mode %s, script %s: contract event %d (%s) is not allowed by AsyncLoopContract; events: %s"
                % (execs[i]["method"], backend, execs[i]["mode"], execs[i]["script"], rj["line"], ev[rj["line"]]["e"],
                   " ".join(x["e"] for x in ev[max(0, rj["line"] - 12):rj["line"] + 1])))
        chk.violation(sig, what, {"kind": "asyncloop", "backend": backend, "exec": execs[i], "contract_events": ev,
                                  "rejected_at": rj["line"], "raw_events": results[i].get("events", [])})
    drift = 0
    mech_ok = 0
    if check_mech:
        for method in ("THREAD", "TASK"):
            sel = [i for i, ex in enumerate(execs) if ex["method"] == method and not results[i].get("stuck") and not results[i].get("hang") and not results[i].get("skipped")]
            if not sel:
                continue
            mt = [mech_trace(execs[i], results[i]) for i in sel]
            a2, r2, st2 = trace.validate(os.path.join(SPEC, "AsyncLoopTrace.tla"), os.path.join(SPEC, "AsyncLoopTrace_%s.cfg" % method),
                                         mt, "c03m-" + tag, separator=False, max_rejections=3, reset_key="e")
            mech_ok += a2
            drift += len(r2)
            for rj in r2:
                i = sel[rj["exec"]]
                chk.note("model-drift: %s %s script %s: step %d (%s) is not a step of the mechanism model; the 'model-checked under all interleavings' "
                         "part of the claim does not transfer to this code" % (tag, method, execs[i]["script"], rj["line"], mt[rj["exec"]][rj["line"]]))
    nd = sum(1 for i in range(len(execs)) if results[i].get("drift"))
    return acc, len(rej), mech_ok, drift, nd



# ----------------------------------------------------------------------------------------------------------------------
# several instances alive at once; start() / stop() issued from a thread that is executing the body of another instance
# ----------------------------------------------------------------------------------------------------------------------
MULTI_N = 2
MULTI_COMBOS = (("THREAD", "THREAD"), ("TASK", "TASK"), ("THREAD", "TASK"), ("TASK", "THREAD"))


def multi_models(chk, quick):
    """Design level: the N-instance mechanism refines the N-instance contract for every caller; the negative controls
    (per-thread flag, per-process insideLoopBody) are refuted."""
    from concurrent.futures import ThreadPoolExecutor
    code = "AsyncLoopMultiMC%s_code.cfg" % ("q" if quick else "")
    cfgs = [(code, True, "2 instances, callers {external thread, body of the other instance}: RefinesContract, NoBodyAfterStop per instance, "
                         "Independence, Completes"),
            ("AsyncLoopMultiMC_perthread.cfg", False, "negative control: stop() skips the wait when the calling thread is inside ANY loop body (per-thread flag)"),
            ("AsyncLoopMultiMC_sharedflag.cfg", False, "negative control: insideLoopBody is one cell per process instead of one per instance")]
    with ThreadPoolExecutor(max_workers=3) as pool:      # three independent TLC runs side by side
        futs = [pool.submit(tla.run_tlc, os.path.join(SPEC, "AsyncLoopMulti.tla"), os.path.join(SPEC, cfg), workers=4, timeout=1200,
                            tag="c03multi-" + cfg.replace(".cfg", "")) for cfg, _, _ in cfgs]
        results = [f.result() for f in futs]
    for (cfg, holds, what), r in zip(cfgs, results):
        if holds:
            chk.require_model_ok("AsyncLoopMulti/" + cfg, r, what)
        else:
            if r.ok:
                raise InfraError("negative control %s was not refuted by TLC: the multi-instance properties are vacuous" % cfg)
            chk.add_model("AsyncLoopMulti/" + cfg, r, what + " -> refuted (%s)" % r.violated)


def multi_plans(chk, quick, rnd):
    """Plans from TLC's state graph of AsyncLoopMultiPlan: transition cover, all plans up to a length, random walks."""
    ag, r = adt.build_graph(os.path.join(SPEC, "AsyncLoopMultiPlan.tla"), os.path.join(SPEC, "AsyncLoopMultiPlan.cfg"), tag="c03plan")
    chk.add_model("AsyncLoopMultiPlan/AsyncLoopMultiPlan.cfg", r, "plan generation: %d abstract states, %d abstract transitions" % (len(ag.states), ag.nedges))
    cover = adt.edge_cover(ag)
    K = 2 if quick else 3
    allp = adt.all_paths(ag, K, 200000) or []
    walks = adt.random_walks(ag, 24 if quick else 600, 8, rnd.randint(1, 10 ** 6))
    for st in ag.states:
        for i in range(MULTI_N):       # sanity of the generator itself: never a held body of a stopped instance
            if st["held"][i] and not st["run"][i]:
                raise InfraError("AsyncLoopMultiPlan produced an impossible abstract state %s" % st)
    info = {"abstract_states": len(ag.states), "abstract_transitions": ag.nedges, "transition_cover": len(cover),
            "all_plans_len": K, "all_plans": len(allp), "random_walks": len(walks)}
    return cover, allp, walks, info


def multi_trace(ex, res):
    ev = [{"e": "Begin", "methods": list(ex["methods"])}]
    for e in sorted(res.get("events", []), key=lambda x: x["s"]):
        ev.append({"e": e["e"], "i": e["i"], "c": e["c"]})
    if res.get("hang"):
        ev.append({"e": "Hang", "i": 0, "c": 0})
    return ev


def multi_scenarios(ev):
    """Which of the scenarios the plans are meant to produce did this recorded execution contain (vacuity guard only):
    read from the stamped events - HoldOk(i) .. BodyExit(i) is the period in which the body of i is parked mid-invocation."""
    inbody, out = {}, set()
    for x in ev:
        e, i, c = x["e"], x.get("i"), x.get("c")
        if e == "BodyEnter": inbody[i] = "free"
        elif e == "HoldOk": inbody[i] = "held"
        elif e == "BodyExit": inbody[i] = None
        elif e in ("StopCall", "StartCall"):
            who = "ext" if c == 0 else "body"
            tgt = "held" if inbody.get(i) == "held" else "other"
            out.add("%s(caller=%s,target-body=%s)" % (e[:-4], who, tgt))
    return out


def classify_multi(ev, k):
    """Signature class of a rejected multi-instance contract event (naming only)."""
    x = ev[k]
    e, i, c = x["e"], x.get("i", 0), x.get("c", 0)
    b, q = False, True
    for y in ev[:k]:
        if y.get("i") != i: continue
        if y["e"] == "BodyEnter": b = True
        elif y["e"] == "BodyExit": b = False
        elif y["e"] == "StartCall": q = False
        elif y["e"] == "StopRet": q = True
    who = "ext" if c == 0 else "body-of-other-instance"
    if e in ("StopRet", "DtorRet"):
        return "%s(caller=%s,%s)" % (e, who, "body-active" if b else "other")
    if e == "BodyEnter":
        return "BodyEnter(%s)" % ("while-stopped" if q else ("overlapping" if b else "other"))
    if e in ("StartCall", "StopCall", "StartRet"):
        return "%s(caller=%s)" % (e, who)
    return "%s()" % e


def multi_exec(chk, exe, plans, combos, tag, backend, rnd):
    """Run the plans on the real code; returns the executions with their recorded contract traces (no verdict here)."""
    execs = []
    for methods in combos:
        for pl in plans:
            execs.append({"mode": "multi", "methods": list(methods), "plan": [{"a": st["a"], "i": st["i"], "c": st["c"]} for st in pl],
                          "cls": [st.get("cls", "") for st in pl], "seed": rnd.randint(1, 10 ** 6)})
    res = run_driver(exe, execs, "c03-multi-" + tag, timeout=600)
    out = []
    scen = {}
    for i, ex in enumerate(execs):
        r = res.get(i)
        if r is None:
            raise InfraError("no result for multi-instance execution %d of %s" % (i, tag))
        if r.get("skipped"):
            continue
        if r.get("error"):
            raise InfraError("multi-instance driver could not interpret a plan (%s): %s; plan %s" % (tag, r["error"], ex["plan"]))
        tr = multi_trace(ex, r)
        out.append((backend, ex, tr))
        for sc in multi_scenarios(tr):
            scen[sc] = scen.get(sc, 0) + 1
    return out, scen


MULTI_NEED = ["Stop(caller=body,target-body=held)", "Stop(caller=ext,target-body=held)", "Start(caller=body,target-body=other)",
              "Stop(caller=body,target-body=other)"]


def multi_validate(chk, runs, tag):
    """TLC validates every recorded execution against AsyncLoopMultiContract (this decides)."""
    traces = [tr for _, _, tr in runs]
    acc, rej, stats = trace.validate(os.path.join(SPEC, "AsyncLoopMultiTrace.tla"), os.path.join(SPEC, "AsyncLoopMultiTrace.cfg"),
                                     traces, "c03-multi-" + tag, separator=False, max_rejections=8, reset_key="e")
    chk.cov["traces_validated_against_impl"] += acc + len(rej)
    chk.cov["contract_events_validated"] = chk.cov.get("contract_events_validated", 0) + stats["events"]
    for rj in rej:
        backend, ex, ev = runs[rj["exec"]]
        cls = classify_multi(ev, rj["line"])
        sig = "%s/multi/%s/contract-rejected" % (SIG, cls)
        what = ("%d instances (%s), %s backend, plan %s: contract event %d (%s of instance %s, calling thread %s) is not allowed by "
                "AsyncLoopMultiContract; events: %s"
                % (len(ex["methods"]), "+".join(ex["methods"]), backend,
                   " ".join("%s(%d,%s)" % (st["a"], st["i"], "ext" if st["c"] == 0 else "body%d" % st["c"]) for st in ex["plan"]),
                   rj["line"], ev[rj["line"]]["e"], ev[rj["line"]].get("i"), ev[rj["line"]].get("c"),
                   " ".join("%s%s" % (x["e"], x.get("i", "")) for x in ev[max(0, rj["line"] - 12):rj["line"] + 1])))
        chk.violation(sig, what, {"kind": "asyncloop-multi", "backend": backend, "exec": ex, "contract_events": ev,
                                  "rejected_at": rj["line"]})
    return acc, len(rej), stats["events"]


def multi_part(chk, quick, rnd, exe_tbb):
    multi_models(chk, quick)
    cover, allp, walks, info = multi_plans(chk, quick, rnd)
    chk.count_actions([[{"a": "multi:" + st["a"]} for st in pl] for pl in cover + allp + walks])
    chk.require_actions(["multi:Start", "multi:Stop", "multi:Hold", "multi:Release", "multi:Probe"])
    cov = {"plan_generation": info, "backends": {}}
    total = 0
    runs = []
    for backend in build.BACKENDS:
        exe = exe_tbb if backend == "TBB" else build.build("drv_asyncloop", backend=backend)
        if backend == "TBB":
            combos, plans = list(MULTI_COMBOS), cover + allp + walks
        else:
            combos = [("THREAD", "THREAD")] if backend == "Debug" else [("THREAD", "THREAD"), ("TASK", "TASK")] if quick else list(MULTI_COMBOS)
            plans = cover + walks[:len(walks) // 4]
        out, scen = multi_exec(chk, exe, plans, combos, backend, backend, rnd)
        # vacuity guards: the scenarios of the gap class were really produced on this backend (read from the stamped events)
        for sc in MULTI_NEED:
            if not scen.get(sc):
                raise InfraError("vacuity guard (multi-instance, %s): no recorded execution contains %s" % (backend, sc))
        if not any(x["e"] == "ProbeOk" for _, _, t in out for x in t):
            raise InfraError("vacuity guard (multi-instance, %s): no Probe was answered" % backend)
        runs += out
        n = len(out)
        chk.log("multi-instance %s: %d executions (%d plans x %d launch-method pairs); scenarios seen: %s"
                % (backend, n, len(plans), len(combos), ", ".join("%s x%d" % kv for kv in sorted(scen.items()))))
        chk.cov["evaluations"] += n
        chk.cov["distinct_nontrivial"] += n
        total += n
        cov["backends"][backend] = {"executions": n, "launch_method_pairs": len(combos), "plans": len(plans), "scenarios_seen": scen}
    acc, nrej, nev = multi_validate(chk, runs, "all")
    chk.log("multi-instance: %d executions validated by TLC against AsyncLoopMultiContract: %d accepted / %d rejected (%d events)" % (total, acc, nrej, nev))
    cov["events_validated"] = nev
    cov["executions"] = total
    cov["what"] = ("2 AsyncLoop instances alive at once; start()/stop() of one instance issued by the harness thread or by the loop thread "
                   "of the other instance from inside its body (parked at a gate); the stopped instance's body parked mid-invocation; "
                   "Probe = the other instance still enters new bodies")
    chk.cov["multi_instance"] = cov


def run(chk, replay=None):
    quick = chk.tier == "quick"
    rnd = random.Random(chk.seed)
    chk.assumptions += [
        "the PlusCal model assumes sequentially consistent atomics and a fair scheduler",
        "scripts over {start, stop, settle} of bounded length; one controlling thread (the class is not meant to be driven from several threads)",
        "TASK launch under the serial Debug backend is excluded: schedule() runs the loop synchronously inside the constructor, which is how that backend is defined",
        "several instances: N = 2; one call in flight at a time (judged at synchronised points); stop(i) issued by the body of i itself is outside the "
        "contract (it waits for its own return) and is never generated; the multi-instance mechanism model abstracts the condition-variable wait "
        "(covered by the single-instance model)",
    ]
    if replay:
        return do_replay(chk, replay)

    # 1. design level: mechanism refines contract, terminates; negative controls are refuted
    for cfg, what in (("AsyncLoopMC.cfg", "THREAD launch"), ("AsyncLoopMC_task.cfg", "TASK launch")):
        c = cfg if not quick else cfg.replace("MC", "MCq")
        r = tla.run_tlc(os.path.join(SPEC, "AsyncLoop.tla"), os.path.join(SPEC, c), workers=8, timeout=1200)
        chk.require_model_ok("AsyncLoop/" + c, r, what + ": RefinesContract, Terminates")
    for cfg, what in (("AsyncLoopMC_norecheck.cfg", "negative control: no re-check after publishing insideLoopBody"),
                      ("AsyncLoopMC_nolock.cfg", "negative control: start() writes the flag without the mutex")):
        r = tla.run_tlc(os.path.join(SPEC, "AsyncLoop.tla"), os.path.join(SPEC, cfg), workers=8, timeout=600)
        if r.ok:
            raise InfraError("negative control %s was not refuted by TLC: the model's properties are vacuous" % cfg)
        chk.add_model("AsyncLoop/" + cfg, r, what + " -> refuted (%s)" % r.violated)

    # 1b. the handshake under x86-TSO store buffers: holds with seq_cst stores on both sides, refuted if either side's store may
    #     linger in a store buffer (release / relaxed) or without the re-check
    for cfg, holds, what in (("AsyncLoopTSO_sc.cfg", True, "TSO store buffers, seq_cst stores on both sides: NoBodyAfterStop, StopReturns"),
                             ("AsyncLoopTSO_neg_loop.cfg", False, "negative control: release store of insideLoopBody in the loop thread"),
                             ("AsyncLoopTSO_neg_stop.cfg", False, "negative control: release store of shouldBeRunning in stop()"),
                             ("AsyncLoopTSO_neg_norecheck.cfg", False, "negative control: no re-check (TSO model)")):
        r = tla.run_tlc(os.path.join(SPEC, "AsyncLoopTSO.tla"), os.path.join(SPEC, cfg), workers=2, timeout=300, deadlock=False)
        if holds:
            chk.require_model_ok("AsyncLoopTSO/" + cfg, r, what)
        else:
            if r.ok:
                raise InfraError("negative control %s was not refuted by TLC" % cfg)
            chk.add_model("AsyncLoopTSO/" + cfg, r, what + " -> refuted (%s)" % r.violated)

    # 2. spec -> code: forced schedules covering every transition of the model
    exe = build.build("drv_asyncloop")
    total_edges = 0
    for method in ("THREAD", "TASK"):
        scheds, nedges = gen_schedules(chk, method, "AsyncLoopGen%s_%s.cfg" % ("q" if quick else "", method))
        total_edges += nedges
        res = run_driver(exe, scheds, "c03-follow-" + method)
        acc, nrej, mech_ok, drift, nd = validate_and_report(chk, scheds, res, "follow-" + method, "TBB", True)
        followed = sum(1 for i in range(len(scheds)) if not res[i].get("drift"))
        chk.log("follow %s: %d schedules forced on the real code (%d followed to the end, %d left the model's path), contract: %d accepted / %d rejected; "
                "mechanism trace: %d accepted / %d rejected" % (method, len(scheds), followed, nd, acc, nrej, mech_ok, drift))
        chk.cov["evaluations"] += len(scheds)
        chk.cov["distinct_nontrivial"] += len(scheds)
        chk.cov.setdefault("follow", {})[method] = {"schedules": len(scheds), "followed_to_end": followed, "model_transitions_covered": nedges,
                                                    "mechanism_traces_accepted": mech_ok, "mechanism_traces_rejected": drift}
        if nd:
            chk.note("model-drift: %d of %d model-derived schedules could not be followed by the real code (%s)" % (nd, len(scheds), method))
        chk.add_sample({"kind": "forced-schedule", "method": method, "script": scheds[len(scheds) // 2]["script"],
                        "steps": [x[1] for x in scheds[len(scheds) // 2]["sched"]]})
        # liveness probes from every covered state (contract only: the continuation is outside the bounded model)
        probes = probe_schedules(scheds)
        pres = run_driver(exe, probes, "c03-probe-" + method)
        pacc, pnrej, _, _, _ = validate_and_report(chk, probes, pres, "probe-" + method, "TBB", False)
        chk.log("probe %s: %d covering prefixes continued with start + settle on the real code, contract: %d accepted / %d rejected"
                % (method, len(probes), pacc, pnrej))
        chk.cov["evaluations"] += len(probes)
        chk.cov["distinct_nontrivial"] += len(probes)
        chk.cov.setdefault("probes", {})[method] = len(probes)

    # 3. seeded random serialised schedules (model-free: also reaches behaviours the model does not have)
    n = 300 if quick else 3000
    execs = [{"method": rnd.choice(["THREAD", "TASK"]), "script": rand_script(rnd, 8), "mode": "random", "seed": rnd.randint(1, 10 ** 6), "sched": []} for _ in range(n)]
    res = run_driver(exe, execs, "c03-random")
    # (steps of this mode are granted without model knowledge, so a step that first blocks in the kernel is logged
    # earlier than the model takes it: these step logs are not compared with the mechanism model)
    acc, nrej, mech_ok, drift, nd = validate_and_report(chk, execs, res, "random", "TBB", False)
    chk.log("random serialised: %d executions, contract %d accepted / %d rejected" % (n, acc, nrej))
    chk.cov["evaluations"] += n
    chk.cov["distinct_nontrivial"] += len({json.dumps([e["method"], e["script"], e["seed"]]) for e in execs})
    chk.cov["random_serialised"] = {"executions": n}

    # 4. free-running executions on every backend
    nfree = 60 if quick else 600
    for backend in build.BACKENDS:
        bexe = exe if backend == "TBB" else build.build("drv_asyncloop", backend=backend)
        methods = ["THREAD"] if backend == "Debug" else ["THREAD", "TASK"]
        execs = [{"method": rnd.choice(methods), "script": rand_script(rnd, 6), "mode": "free", "seed": rnd.randint(1, 10 ** 6), "sched": [], "settle_ms": 6000}
                 for _ in range(nfree)]
        res = run_driver(bexe, execs, "c03-free-" + backend, timeout=90, max_hangs=2)
        execs = [e for i, e in enumerate(execs) if not res[i].get("skipped")]
        res = {k: v for k, v in enumerate(r for _, r in sorted(res.items()) if not r.get("skipped"))}
        nfree_run = len(execs)
        acc, nrej, _, _, _ = validate_and_report(chk, execs, res, "free-" + backend, backend, False)
        chk.log("free-running %s: %d executions, contract %d accepted / %d rejected" % (backend, nfree_run, acc, nrej))
        chk.cov["evaluations"] += nfree_run
        chk.cov["distinct_nontrivial"] += len({json.dumps([e["method"], e["script"], e["seed"]]) for e in execs})
    # 4b. several instances alive at once, calls issued from inside another instance's body (state per thread / per process
    #     instead of per instance)
    multi_part(chk, quick, rnd, exe)
    # 5. free-running stress on a build WITHOUT hook points (their callbacks are fences: the instrumented build cannot show a
    #    store-buffer reordering, see AsyncLoopTSO.tla)
    run_stress(chk, quick)
    chk.cov["rule"] = ("executions of the real AsyncLoop: (a) one forced schedule per path of a transition cover of TLC's state graph of the mechanism model, "
                       "(b) seeded random serialised schedules over random scripts, (c) free-running runs with seeded delays at the hook points on 4 backends, (d) rapid start/stop cycles on a build without hook points "
                       "(the driver writes the first cycles and every cycle in which a body observed the 'stop() has returned' token; TLC validates them), "
                       "(e) plans over 2 instances alive at once from TLC's graph of AsyncLoopMultiPlan, with start()/stop() issued by the harness thread or from inside "
                       "the other instance's body (cov.multi_instance lists the scenarios read back from the stamped events); "
                       "distinct = distinct (method, script, schedule/seed); all are non-trivial (every script ends with the destructor)")
    chk.cov["model_transitions_covered_by_forced_schedules"] = total_edges


def stress_once(exe, method, cycles, seed, tag):
    d = os.path.join(WORK, "run", tag)
    os.makedirs(d, exist_ok=True)
    outp = os.path.join(d, "stress-%d.ndjson" % os.getpid())
    try:
        p = subprocess.run([exe, "--out", outp, "--cycles", str(cycles), "--seed", str(seed), "--method", method, "--record", "10"],
                           stdout=subprocess.PIPE, stderr=subprocess.STDOUT, timeout=180)
    except subprocess.TimeoutExpired:
        return None, None
    if p.returncode != 0 or not os.path.exists(outp):
        raise InfraError("stress driver failed rc=%s: %s" % (p.returncode, p.stdout.decode(errors="replace")[-800:]))
    rows = [json.loads(l) for l in open(outp) if l.strip()]
    os.remove(outp)
    summ = [r for r in rows if r.get("summary")]
    if not summ:
        raise InfraError("stress driver wrote no summary line")
    return [r for r in rows if not r.get("summary")], summ[0]


def run_stress(chk, quick, only=None):
    plans = []
    for backend, methods in (("TBB", ["THREAD", "TASK"]), ("Internal", ["TASK"])):
        for m in methods:
            for k in range(2 if quick else 10):
                plans.append((backend, m, 20000 if quick else 100000, chk.seed * 100 + k))
    if only:
        plans = only
    tot = {"cycles": 0, "bodies": 0, "prefilter_hits": 0, "runs": 0, "traces": 0}
    exes = {}
    for backend, m, cycles, seed in plans:
        if backend not in exes:
            exes[backend] = build.build("drv_asyncloop_stress", backend=backend, guard=False)
        rows, summ = stress_once(exes[backend], m, cycles, seed, "c03-stress")
        if rows is None:
            chk.note("stress run (%s, %s, seed %d) did not finish within 180 s (a start()/stop() cycle hangs, or the machine is overloaded): not judged"
                     % (backend, m, seed))
            continue
        tot["runs"] += 1
        tot["cycles"] += summ["cycles"]
        tot["bodies"] += summ["bodies"]
        tot["prefilter_hits"] += summ["prefilter_hits"]
        traces = [[{"e": "Begin", "method": m}] + [{"e": e} for e in r["events"]] for r in rows]
        acc, rej, st = trace.validate(os.path.join(SPEC, "AsyncLoopContractTrace.tla"), os.path.join(SPEC, "AsyncLoopContractTrace.cfg"),
                                      traces, "c03-stress", separator=False, max_rejections=6, reset_key="e")
        tot["traces"] += len(traces)
        chk.cov["traces_validated_against_impl"] += acc + len(rej)
        chk.cov["contract_events_validated"] = chk.cov.get("contract_events_validated", 0) + st["events"]
        chk.cov["evaluations"] += summ["cycles"]
        chk.cov["distinct_nontrivial"] += 1
        for rj in rej:
            ev = traces[rj["exec"]]
            cls = classify(ev, rj["line"])
            chk.violation("%s/%s/%s/contract-rejected" % (SIG, m, cls),
                          "%s launch, %s backend, build without hook points, cycle %d of %d rapid start()/stop() cycles (seed %d): contract event %d (%s) "
                          "is not allowed by AsyncLoopContract; events: %s (%d cycles of this run were flagged by the driver's pre-filter)"
                          % (m, backend, rows[rj["exec"]]["cycle"], summ["cycles"], seed, rj["line"], ev[rj["line"]]["e"],
                             " ".join(x["e"] for x in ev), summ["prefilter_hits"]),
                          {"kind": "asyncloop-stress", "backend": backend, "method": m, "cycles": cycles, "seed": seed,
                           "contract_events": ev, "rejected_at": rj["line"]})
    if tot["runs"] and tot["bodies"] < tot["cycles"]:
        raise InfraError("vacuity guard: the stressed loop hardly ran (%d bodies in %d cycles)" % (tot["bodies"], tot["cycles"]))
    chk.cov["stress_without_hooks"] = tot
    chk.log("stress without hook points: %d runs, %d start/stop cycles, %d bodies, %d cycles flagged by the pre-filter, %d traces validated"
            % (tot["runs"], tot["cycles"], tot["bodies"], tot["prefilter_hits"], tot["traces"]))


def do_replay(chk, path):
    rep = json.load(open(path))
    if rep.get("kind") == "asyncloop-stress":
        # schedule-dependent: the same plan is run again, three seeds
        run_stress(chk, True, only=[(rep["backend"], rep["method"], rep["cycles"], rep["seed"] + k) for k in range(3)])
        return
    ex = rep["exec"]
    backend = rep.get("backend", "TBB")
    exe = build.build("drv_asyncloop", backend=backend)
    if rep.get("kind") == "asyncloop-multi":
        plan = [dict(st, cls=c) for st, c in zip(ex["plan"], ex.get("cls", [""] * len(ex["plan"])))]
        out, _ = multi_exec(chk, exe, [plan] * 5, [tuple(ex["methods"])], "replay", backend, random.Random(ex.get("seed", 1)))
        multi_validate(chk, out, "replay")
        chk.cov["evaluations"] += len(out)
        return
    n = 1 if ex["mode"] != "free" else 200
    execs = [dict(ex) for _ in range(n)]
    res = run_driver(exe, execs, "c03-replay")
    validate_and_report(chk, execs, res, "replay", backend, False)
    chk.cov["evaluations"] += n
