"""C08 - Reference counting destroys each object exactly once, at the last release."""
import json, os, random, time
from .. import tla, build, adt, adtcheck, trace
from ..tla import VERIF, WORK, InfraError
from ..core import sig_of

LEVEL = "model_checking"
LEVEL_TEXT = ("TLC checks on bounded instances of the handle/object specification (2 objects of a base and a derived type, 3-4 handle slots of "
              "static types IntrusivePtr<const Base> / <Base> / <Derived>, every constructor / assignment / destructor / explicit refInc-refDec code path, all admitted moved-from outcomes; "
              "a second instance in which Derived objects own a member handle `next`, with cascading destruction and assignment of a handle from the "
              "member of the very object it designates) that the counts the operations maintain always equal creator + live handles (pool and member) "
              "+ explicit references, that an object dies exactly in the step releasing its last reference and exactly once per incarnation; a "
              "further model shows conservation and single destruction for all interleavings of threads copying / dropping references they own "
              "and of threads acquiring at the same time through one borrowed reference (count 1, 2, 3) with atomic increments, and TLC refutes "
              "the same model with a load/store increment and with a 'store 2 if the count reads 1' fast path (negative controls, required). Binding: every transition of the complete "
              "state graphs of the 3-slot instances (slot types BBD, BDD, const-Base/Base/Derived; thorough: also BBDD) and of the chain instance "
              "(2 slots, 2 member-owning objects), on three object layouts of the Derived type (single inheritance; the ref-counted base at a "
              "non-zero offset; a virtual base - the last two make derived-to-base conversions adjust the pointer, mixed-type handle pairs "
              "are compared in both operand orders after every conversion path), all histories up to a budgeted length and seeded random walks are replayed on the real IntrusivePtr/RefCountedObject with "
              "use counts, destructor log, handle and member contents and comparisons compared after every step - under ASan+UBSan with really "
              "freed pointees (memory errors become crash events) and, for the chain instance, also without sanitizers on quarantined pointee "
              "storage (early destruction shows as values); random 300-step executions over 6 slots / 4 objects, multi-threaded copy/drop "
              "bursts and thousands of rounds in which 2-4 threads leave a spin barrier and acquire through one borrowed reference to an "
              "object whose count is exactly 1 (raw-pointer constructor, copy of one shared handle, refInc; quarantined pointee storage; also "
              "under TSan; with the lender releasing first also the race for the LAST release from a count of exactly k) are validated by "
              "TLC trace specifications; a macro-action model (RefCountBig) jumps the number of explicit references / live handles between "
              "0, 1, 2, 127/128, 255/256/257, 65535/65536/65537 (thorough: one staircase through 2^31 and 2^32, about 10^10 refInc/refDec "
              "calls) and the real counter is compared after every jump")
LEVEL_NOTE = ("bounded: exhaustive parts use 2 objects x 2-4 slots, <= 1-2 outstanding explicit references, one member handle per Derived object "
              "(chains of length 2, self loops and 2-cycles; longer chains only in the recorded random executions with 4 objects); the concurrent "
              "model is checked for 3 threads x <= 3-4 operations, the real concurrent executions are sampled (not schedule-controlled) and judged "
              "at quiescent points and by stamp order only; what a moved-from handle holds is left open (release / retain / swap) as long as the "
              "books balance, the generation model uses the outcome TLC identified from a probe execution; two empty handles comparing equal is "
              "not constrained beyond == and != contradicting each other; operator< is only required never to hold both ways, to be unordered exactly on equal handles and to agree with the order const-Base "
              "handles to the same objects give; handle-vs-raw-pointer comparisons do not compile and are not part of the API; trusted: TLC, the driver's own "
              "bookkeeping of slots and its destructor log, g++/libstdc++, ASan/UBSan/TSan")
TECHNIQUE = ("TLA+ ADT specification + TLC invariants/action properties; TLC-generated transition cover and histories replayed on the real objects; "
             "TLC trace validation of recorded sequential and multi-threaded executions; negative-control model; sanitizers as crash/race events")
SPEC = os.path.join(VERIF, "spec", "memory")
API = "IntrusivePtr"

MUTATORS = {"New", "CreatorDrop", "RefInc", "RefDec", "DefaultCtor", "RawCtor", "RawAssign", "CopyCtor", "ConvCopyCtor", "MoveCtor",
            "ConvMoveCtor", "CopyAssign", "ConvCopyAssign", "MoveAssign", "ConvMoveAssign", "Dtor"}
MEMBER_ACTIONS = {"SetMember", "ClearMember", "CopyCtorFromMember", "MoveCtorFromMember", "CopyAssignFromMember", "MoveAssignFromMember",
                  "UnlinkNext", "UnlinkNextMove"}
TRACE_META = {"slots": "BBBDDC", "objs": "BDBD", "maxexp": 3, "members": True}
CONVERSIONS = ["ConvCopyCtor", "ConvMoveCtor", "ConvCopyAssign", "ConvMoveAssign", "RawCtor", "RawAssign"]   # ways a handle gets a converted pointer
KINDS = ["mc", "ma", "sm", "cmc", "cma"]
WALK_CLASS = "src=member-of-dst-target,next=obj,last-ref,kills"      # cur = cur->next where cur held the last reference

# One move of every code path, from states in which the admitted outcomes are observably different
# (trace universe: slots 1-3 Base, 4-6 Derived; objects 1,3 Base, 2,4 Derived).  Input only: TLC
# decides what the observations mean.
PROBE = [
    {"a": "New", "arg": {"o": 1}}, {"a": "New", "arg": {"o": 2}},
    {"a": "RawCtor", "arg": {"s": 1, "o": 1}},
    {"a": "MoveCtor", "arg": {"s": 2, "t": 1}},            # mc
    {"a": "RawAssign", "arg": {"s": 1, "o": 2}},
    {"a": "RawAssign", "arg": {"s": 2, "o": 1}},
    {"a": "MoveAssign", "arg": {"s": 1, "t": 2}},          # ma: s1 -> 2, s2 -> 1
    {"a": "RawAssign", "arg": {"s": 1, "o": 1}},
    {"a": "MoveAssign", "arg": {"s": 1, "t": 1}},          # sm
    {"a": "RawCtor", "arg": {"s": 4, "o": 2}},
    {"a": "ConvMoveCtor", "arg": {"s": 3, "t": 4}},        # cmc
    {"a": "RawAssign", "arg": {"s": 4, "o": 2}},
    {"a": "RawAssign", "arg": {"s": 3, "o": 1}},
    {"a": "ConvMoveAssign", "arg": {"s": 3, "t": 4}},      # cma
]   # nothing else on purpose: every other code path is judged by the replayed histories, with precise input classes


# ---------------------------------------------------------------------------
# generation: TLC's state graph of RefCountGen, exported edge by edge
# ---------------------------------------------------------------------------
def build_graph_from_edges(chk, policy, tag, cfg="RefCountGen.cfg", layout="single", module="RefCountGen"):
    d = os.path.join(WORK, "graphs")
    os.makedirs(d, exist_ok=True)
    path = os.path.join(d, "%s-%d.ndjson" % (tag, os.getpid()))
    if os.path.exists(path):
        os.remove(path)
    env = {"RC_EDGES": path, "RC_LAYOUT": layout}
    for k in KINDS:
        env["RC_" + k.upper()] = (policy or {}).get(k, "release")
    r = tla.run_tlc(os.path.join(SPEC, module + ".tla"), os.path.join(SPEC, cfg), workers=4, timeout=900, env=env, tag=tag)
    if not r.ok:
        raise InfraError("generation model " + module + " failed: violated=%s error=%s\n%s" % (r.violated, r.error, r.out[-2000:]))
    ag = adt.AbsGraph()

    def idx(a):
        c = adt._canon(a)
        if c not in ag.index:
            ag.index[c] = len(ag.states)
            ag.states.append(a)
        return ag.index[c]

    seen = set()
    nlines = 0
    with open(path) as f:
        for line in f:
            line = line.strip()
            if not line:
                continue
            nlines += 1
            try:
                j = json.loads(line)
                if isinstance(j, str):      # CSVWrite prints the JSON text as a quoted TLA+ string
                    j = json.loads(j)
            except ValueError:
                raise InfraError("edge export of RefCountGen has a damaged line %d" % nlines)
            if "init" in j:
                i = idx(j["init"])
                if i not in ag.init:
                    ag.init.append(i)
                continue
            s, dd = idx(j["src"]), idx(j["dst"])
            key = (s, adt._canon(j["step"]), dd)
            if key in seen:
                continue
            seen.add(key)
            ag.edges.setdefault(s, []).append((j["step"], dd))
            ag.nedges += 1
    os.remove(path)
    # TLC's workers write the file in no particular order: renumber the states canonically so that runs are reproducible
    order = sorted(range(len(ag.states)), key=lambda i: adt._canon(ag.states[i]))
    new = {old: k for k, old in enumerate(order)}
    ag.states = [ag.states[i] for i in order]
    ag.index = {adt._canon(a): k for k, a in enumerate(ag.states)}
    ag.init = sorted(new[i] for i in ag.init)
    ag.edges = {new[s]: [(step, new[d]) for step, d in lst] for s, lst in ag.edges.items()}
    for s in ag.edges:
        ag.edges[s].sort(key=lambda e: adt._canon(e[0]))
    if not ag.init or ag.nedges == 0:
        raise InfraError("RefCountGen exported no graph")
    if nlines != r.generated:             # one line per generated state (initial state + every transition)
        raise InfraError("edge export inconsistent with TLC statistics: %d lines, %d states generated" % (nlines, r.generated))
    return ag, r


def conversion_compare_paths(ag, meta, rnd, per_kind):
    """Paths of TLC's graph of the shape  <shortest path to u> . conversion(u -> v) . Compare(v):  a handle receives a
    pointer through one of the conversion paths (converting copy / move constructor or assignment, raw-pointer
    constructor / assignment from a Derived* into a Base / const Base handle) and is then compared with a handle of
    another static type.  Path selection only: every step and expectation is TLC's."""
    from collections import deque
    slots, objs = meta["slots"], meta["objs"]
    parent = {}
    dq = deque()
    for s0 in ag.init:
        parent[s0] = None
        dq.append(s0)
    while dq:
        u = dq.popleft()
        for step, v in ag.edges.get(u, []):
            if v not in parent:
                parent[v] = (u, step)
                dq.append(v)

    def path_to(u):
        p = []
        while parent[u] is not None:
            u, step = parent[u]
            p.append(step)
        p.reverse()
        return p

    found = {k: [] for k in CONVERSIONS}
    for u in sorted(parent):
        for step, v in ag.edges.get(u, []):
            a = step["a"]
            if a not in found:
                continue
            sl = step["arg"]["s"]
            if step["exp"]["ptr"][sl - 1] < 1:
                continue                                  # the handle is empty afterwards
            if a.startswith("Raw") and not (slots[sl - 1] != "D" and objs[step["arg"]["o"] - 1] == "D"):
                continue                                  # only Derived* -> Base* / const Base*
            for st2, w in ag.edges.get(v, []):
                if st2["a"] == "Compare" and sl in (st2["arg"]["s"], st2["arg"]["t"]) and "types=same" not in st2["cls"] \
                        and "one-empty" not in st2["cls"]:
                    found[a].append((u, step, st2))
    out, stats = [], {}
    for a in CONVERSIONS:
        pick = found[a] if len(found[a]) <= per_kind else rnd.sample(found[a], per_kind)
        stats[a] = {"available": len(found[a]), "taken": len(pick),
                    "same_object": sum(1 for _, _, c in pick if "same-object" in c["cls"])}
        out += [path_to(u) + [step, c] for u, step, c in pick]
    return out, stats


def gen_histories(chk, policy, budget, K_max, walks, walk_len, seed, tag, cfg="RefCountGen.cfg", layout="single", meta=None, conv=0):
    ag, r = build_graph_from_edges(chk, policy, tag, cfg, layout)
    model = ("RefCountGen/%s[%s]" % (cfg, layout), r, "generation instance (policy %s): %d abstract states, %d abstract transitions"
             % (",".join("%s=%s" % (k, policy[k]) for k in KINDS), len(ag.states), ag.nedges))
    K = 1
    while K < K_max and adt.count_paths(ag, K + 1) <= budget:
        K += 1
    hs = (adt.all_paths(ag, K, budget * 2) or []) if budget > 0 else []
    cover = adt.edge_cover(ag)
    rw = adt.random_walks(ag, walks, walk_len, seed)
    info = {"abstract_states": len(ag.states), "abstract_transitions": ag.nedges, "all_histories_len": K if hs else 0,
            "all_histories": len(hs), "transition_cover": len(cover), "random_walks": len(rw), "walk_len": walk_len,
            "policy": dict(policy), "layout": layout}
    if conv:
        cp, cstats = conversion_compare_paths(ag, meta, random.Random(seed), conv)
        rw = rw + cp
        info["conversion_then_compare"] = cstats
    return hs, cover, rw, info, model


def replay_parallel(chk, exe, histories, tag, sig_prefix, isolate, meta, replay_info=None, nproc=12, timeout=1800):
    """adtcheck.replay with the histories spread over `nproc` driver processes (ASan makes a single one slow).
    Same comparison (adt.compare: deep equality with TLC's expectations) and same reporting.  A history whose
    child process died (sanitizer abort) has lost its observations: its prefix up to the fatal step is executed
    once more, so that an earlier divergence of values is reported in preference to the later crash."""
    from concurrent.futures import ThreadPoolExecutor
    t0 = time.time()
    n = len(histories)
    nproc = max(1, min(nproc, (n + 199) // 200))
    bounds = [(i * n // nproc, (i + 1) * n // nproc) for i in range(nproc)]

    def one(i):
        lo, hi = bounds[i]
        return adt.run_driver(exe, histories[lo:hi], "%s-p%d" % (tag, i), isolate=isolate, meta=meta, timeout=timeout)

    with ThreadPoolExecutor(max_workers=nproc) as ex:
        outs = list(ex.map(one, range(nproc)))
    found = []          # (history, mismatch)
    dead = []           # (history, step, mismatch) of crashed / timed-out histories
    for (lo, hi), (res, rc, stderr, wall) in zip(bounds, outs):
        chunk = histories[lo:hi]
        if rc not in (0,) and not res:
            raise InfraError("driver %s produced nothing (rc=%s): %s" % (exe, rc, stderr[-2000:]))
        for mm in adt.compare(chunk, res, rc, stderr):
            if mm["kind"] == "missing":
                raise InfraError("driver %s stopped without result for case %d (rc=%s): %s" % (exe, lo + mm["case"], rc, stderr[-1500:]))
            if mm["kind"] == "timeout":      # no operation of this property blocks: a watchdog timeout is machine load, not a verdict
                raise InfraError("driver %s timed out in case %d step %d" % (exe, lo + mm["case"], mm["step"]))
            h = chunk[mm["case"]]
            if mm["kind"] == "crash" and mm["step"] > 0 and len(dead) < 2000:
                dead.append((h, mm["step"], mm))
            else:
                found.append((h, mm))
    if dead:
        prefixes = [h[:k] for h, k, _ in dead]
        res, rc, stderr, wall = adt.run_driver(exe, prefixes, tag + "-prefix", isolate=50, meta=meta, timeout=timeout)
        early = {mm["case"]: mm for mm in adt.compare(prefixes, res, rc, stderr) if mm["kind"] in ("value", "exception")}
        for i, (h, k, mm) in enumerate(dead):
            if i in early:
                e = dict(early[i])
                e["later"] = "%s in step %d %s" % (mm["kind"], k, mm.get("action"))
                found.append((h, e))
            else:
                found.append((h, mm))
    found.sort(key=lambda x: len(x[0]))     # the shortest failing history of a signature becomes its replay artefact
    for h, mm in found:
        what = "%s: step %d %s(%s): %s expected %s observed %s%s" % (
            sig_prefix, mm["step"], mm.get("action"), json.dumps(mm.get("arg")), mm["field"],
            json.dumps(mm.get("expected"))[:300], json.dumps(mm.get("observed"))[:300],
            (" (then " + mm["later"] + ")") if mm.get("later") else "")
        rep = {"kind": "history", "property": chk.pid, "tag": tag, "sig_prefix": sig_prefix, "meta": meta, "history": h,
               "mismatch": {k: v for k, v in mm.items() if k != "stderr"}, "info": replay_info or {}}
        if mm.get("stderr"):
            rep["stderr_tail"] = mm["stderr"][-2500:]
        chk.violation(sig_of(sig_prefix, mm), what, rep)
    chk.cov["evaluations"] += n
    ncrash = sum(1 for _, mm in found if mm.get("kind") == "crash" or mm.get("later"))
    chk.cov["crashes_in_replay"] = chk.cov.get("crashes_in_replay", 0) + ncrash
    return len(found), time.time() - t0, ncrash


def record_validate(chk, exe, executions_actions, tag, sig_prefix, isolate, meta):
    """adtcheck.record_and_validate for RefCountTrace, with one refinement: when the isolated child died in step k
    (sanitizer abort), the steps before k are executed once more and recorded, so that TLC sees the events leading
    to the crash and rejects the earliest one that is not a behaviour of the specification."""
    res, rc, stderr, wall = adt.run_driver(exe, executions_actions, tag + "-rec", isolate=isolate, meta=meta)
    execs = []
    for i, acts in enumerate(executions_actions):
        r = res.get(i)
        if r is None:
            raise InfraError("driver %s gave no result for recorded execution %d (rc=%s): %s" % (exe, i, rc, stderr[-1500:]))
        ev = []
        if "timeout" in r:
            raise InfraError("driver %s timed out in recorded execution %d" % (exe, i))
        if "crash" in r:
            kind = "crash"
            k = r[kind].get("step", 0)
            if k > 0:
                res2, rc2, stderr2, _ = adt.run_driver(exe, [acts[:k]], tag + "-rec-prefix", isolate=1, meta=meta)
                r2 = res2.get(0) or {}
                for st, o in zip(acts[:k], r2.get("obs", [])):
                    ev.append({"a": st["a"], "arg": st.get("arg", []), "obs": o})
            ev.append({"a": kind, "arg": acts[k].get("arg") if 0 <= k < len(acts) else None,
                       "during": acts[k]["a"] if 0 <= k < len(acts) else None, "obs": r[kind]})
        else:
            for st, o in zip(acts, r["obs"]):
                ev.append({"a": st["a"], "arg": st.get("arg", []), "obs": o})
        execs.append(ev)
    acc, rej, stats = trace.validate(os.path.join(SPEC, "RefCountTrace.tla"), os.path.join(SPEC, "RefCountTrace.cfg"), execs, tag)
    chk.cov["traces_validated_against_impl"] += acc + len(rej)
    chk.cov.setdefault("trace_events_validated", 0)
    chk.cov["trace_events_validated"] += stats["events"]
    chk.log("trace validation %s: %d executions accepted, %d rejected, %d events, %d TLC run(s), %.1fs"
            % (tag, acc, len(rej), stats["events"], stats["tlc_runs"], stats["wall"]))
    for rj in rej:
        ev = rj["event"]
        mm = {"action": ev.get("during") or ev.get("a"), "cls": None,
              "field": "trace-rejected" if ev.get("a") not in ("crash", "timeout") else ev["a"]}
        what = "%s: recorded execution %d rejected by RefCountTrace at event %d: %s" % (sig_prefix, rj["exec"], rj["line"], json.dumps(ev)[:400])
        rep = {"kind": "trace", "property": chk.pid, "tag": tag, "sig_prefix": sig_prefix, "meta": meta,
               "actions": executions_actions[rj["exec"]], "events": execs[rj["exec"]], "rejected_at": rj["line"]}
        if ev.get("a") in ("crash", "timeout"):
            rep["stderr_tail"] = stderr[-2500:]
        chk.violation(sig_of(sig_prefix, mm), what, rep)
    return acc, rej, execs


def corruption_guard(chk, execs, rnd):
    """Vacuity guard for RefCountTrace: an accepted recorded execution with one use count changed must be rejected
    at exactly that event (otherwise the trace specification would not be binding: infrastructure error)."""
    cand = [(i, k) for i, ev in enumerate(execs) for k, e in enumerate(ev)
            if isinstance(e.get("obs"), dict) and any(c >= 1 for c in e["obs"].get("cnt", []))]
    if not cand:
        raise InfraError("corruption guard: no recorded event with a live object")
    i, k = rnd.choice(cand)
    ev = json.loads(json.dumps(execs[i]))
    cnt = ev[k]["obs"]["cnt"]
    j = rnd.choice([x for x, c in enumerate(cnt) if c >= 1])
    cnt[j] += 1
    acc, rej, stats = trace.validate(os.path.join(SPEC, "RefCountTrace.tla"), os.path.join(SPEC, "RefCountTrace.cfg"), [ev], "c08-corrupt")
    if not rej or rej[0]["line"] != k:
        raise InfraError("corruption guard: RefCountTrace did not reject a corrupted use count at event %d (rejections: %s)" % (k, rej))
    chk.cov["corruption_guard"] = chk.cov.get("corruption_guard", []) + [
        {"spec": "RefCountTrace", "corrupted": "obs.cnt[%d]+1 at event %d (%s)" % (j, k, ev[k]["a"]), "rejected_at": rej[0]["line"]}]
    chk.log("corruption guard: RefCountTrace rejects a corrupted use count at event %d" % k)


def burst_corruption_guard(chk, execs, rnd):
    good = [e for e in execs if len(e) > 3 and e[-1].get("e") == "Final"]
    if not good:
        raise InfraError("corruption guard: no complete burst")
    for what in ("use", "destroyed"):
        ev = json.loads(json.dumps(rnd.choice(good)))
        if what == "use":
            k = [i for i, e in enumerate(ev) if e["e"] == "Quiescent"][0]
            ev[k]["use"][0] -= 1                     # one lost increment
        else:
            k = len(ev) - 1
            ev[k]["destroyed"][0] += 1               # destroyed once more (or although referenced)
        acc, rej, stats = trace.validate(os.path.join(SPEC, "RefCountConcTrace.tla"), os.path.join(SPEC, "RefCountConcTrace.cfg"),
                                         [ev], "c08-burst-corrupt", reset_key="e")
        if not rej or rej[0]["line"] != k:
            raise InfraError("corruption guard: RefCountConcTrace did not reject a corrupted %s at event %d (rejections: %s)" % (what, k, rej))
        chk.cov["corruption_guard"] = chk.cov.get("corruption_guard", []) + [
            {"spec": "RefCountConcTrace", "corrupted": what, "rejected_at": rej[0]["line"]}]
    chk.log("corruption guard: RefCountConcTrace rejects a lost increment and an extra destruction")


# ---------------------------------------------------------------------------
# probe: which moved-from outcome does the implementation follow per code path
# ---------------------------------------------------------------------------
def probe_policy(chk, exe):
    seen_path = os.path.join(WORK, "traces", "c08-seen-%d.json" % os.getpid())
    os.makedirs(os.path.dirname(seen_path), exist_ok=True)
    if os.path.exists(seen_path):
        os.remove(seen_path)
    os.environ["RC_SEEN"] = seen_path
    try:
        acc, rej, _ = record_validate(chk, exe, [PROBE], "c08-probe", API, isolate=1, meta=TRACE_META)
    finally:
        os.environ.pop("RC_SEEN", None)
    if rej:
        return None
    if not os.path.exists(seen_path):
        raise InfraError("RefCountTrace accepted the probe but did not report `seen`")
    txt = open(seen_path).read().strip().splitlines()[-1]
    os.remove(seen_path)
    j = json.loads(txt)
    if isinstance(j, str):
        j = json.loads(j)
    policy = {}
    for k in KINDS:
        outs = sorted(j.get(k, []))
        if not outs:
            raise InfraError("the implementation's moved-from behaviour on code path %s is not one fixed admitted outcome; "
                             "the generation model needs a fixed policy (trace validation is unaffected)" % k)
        if len(outs) > 1:
            raise InfraError("probe does not distinguish the outcomes of code path %s: %s" % (k, outs))
        policy[k] = outs[0]
    return policy


# ---------------------------------------------------------------------------
# random executions for code -> spec
# ---------------------------------------------------------------------------
def rand_actions(rnd, n, meta, policy=None):
    """Seeded random action list.  A shadow of slots / objects is kept ONLY to draw mostly enabled actions (input
    heuristics; a wrong shadow merely produces refused actions, which the trace specification judges as well);
    about one action in twelve is drawn without looking at the shadow."""
    slots, objs = meta["slots"], meta["objs"]
    ns, no, maxexp = len(slots), len(objs), meta["maxexp"]
    pol = policy or {}
    h = [None] * (ns + 1)                 # None: no handle, 0: empty, o: object
    alive = [False] * (no + 1)
    creator = [0] * (no + 1)
    expl = [0] * (no + 1)
    mem = [None] * (no + 1)               # member handle of live Derived objects: None (no member), 0, o
    members = bool(meta.get("members"))
    acts = []

    def refs(o):
        return creator[o] + expl[o] + sum(1 for x in h[1:] if x == o) + sum(1 for x in mem[1:] if x == o)

    def settle():                         # deaths, cascading through member handles
        again = True
        while again:
            again = False
            for o in range(1, no + 1):
                if alive[o] and refs(o) == 0:
                    alive[o] = False
                    mem[o] = None
                    again = True

    def held(o):
        return creator[o] or expl[o] or any(x == o for x in h[1:])

    def conv(s, t):
        return "" if slots[s - 1] == slots[t - 1] else "Conv"

    rank = {"D": 0, "B": 1, "C": 2}

    def converts(s, t):
        return rank[slots[s - 1]] >= rank[slots[t - 1]]

    def fits(s, o):
        return o == 0 or slots[s - 1] != "D" or objs[o - 1] == "D"

    S = list(range(1, ns + 1))
    O = list(range(1, no + 1))
    for _ in range(n):
        if rnd.random() < 0.08:           # unconstrained draw
            s, t, o = rnd.choice(S), rnd.choice(S), rnd.choice(O + [0])
            name = rnd.choice(["New", "CreatorDrop", "RefInc", "RefDec", "DefaultCtor", "RawCtor", "RawAssign", "CopyCtor", "MoveCtor",
                               "CopyAssign", "MoveAssign", "Dtor", "Bool", "Arrow", "Compare"])
            if name in ("CopyCtor", "MoveCtor", "CopyAssign", "MoveAssign") and s != t:
                name = conv(s, t) + name
            if members and rnd.random() < 0.25:
                name = rnd.choice(sorted(MEMBER_ACTIONS))
                acts.append({"a": name, "arg": {"o": max(o, 1), "t": t} if name == "SetMember"
                             else {"o": max(o, 1)} if name in ("ClearMember", "UnlinkNext", "UnlinkNextMove") else {"s": s, "t": t}})
                continue
            arg = {"o": max(o, 1)} if name in ("New", "CreatorDrop", "RefInc", "RefDec") else \
                  {"s": s} if name in ("DefaultCtor", "Dtor", "Bool", "Arrow") else \
                  {"s": s, "o": o} if name in ("RawCtor", "RawAssign") else {"s": s, "t": t}
            acts.append({"a": name, "arg": arg})
            continue                      # the shadow is not updated: if the action was enabled, the shadow is now off (harmless)
        free = [s for s in S if h[s] is None]
        used = [s for s in S if h[s] is not None]
        live = [o for o in O if alive[o]]
        cands = []
        dead = [o for o in O if not alive[o]]
        if dead: cands += [("New", 2)]
        if [o for o in live if creator[o]]: cands += [("CreatorDrop", 2)]
        if [o for o in live if expl[o] < maxexp]: cands += [("RefInc", 1.5)]
        if [o for o in live if expl[o] > 0]: cands += [("RefDec", 1.5)]
        if free: cands += [("DefaultCtor", 1), ("RawCtor", 3)]
        if free and used: cands += [("CopyCtor", 3), ("MoveCtor", 3)]
        if used: cands += [("CopyAssign", 3), ("MoveAssign", 3), ("RawAssign", 2.5), ("Dtor", 3.5 if len(used) > ns // 2 else 1.5),
                           ("Bool", 0.7), ("Arrow", 0.7), ("Compare", 1.2)]
        owners = [o for o in live if mem[o] is not None and held(o)]
        via = [t for t in used if h[t] and mem[h[t]] is not None]           # handles designating an object with a member
        usedB = [s for s in used if slots[s - 1] == "B"]
        freeB = [s for s in free if slots[s - 1] == "B"]
        if members and owners and used: cands += [("SetMember", 3), ("ClearMember", 0.7)]
        if members and via and freeB: cands += [("CopyCtorFromMember", 1), ("MoveCtorFromMember", 1)]
        unl = [o for o in owners if mem[o] and mem[mem[o]] is not None]
        if members and unl: cands += [("UnlinkNext", 1.5), ("UnlinkNextMove", 1.5)]
        if members and via and usedB: cands += [("CopyAssignFromMember", 2.5), ("MoveAssignFromMember", 2.5)]
        tot = sum(w for _, w in cands)
        x = rnd.random() * tot
        for name, w in cands:
            x -= w
            if x <= 0:
                break
        if name == "New":
            o = rnd.choice(dead); alive[o] = True; creator[o] = 1; expl[o] = 0
            mem[o] = 0 if members and objs[o - 1] == "D" else None
            a = {"a": name, "arg": {"o": o}}
        elif name == "CreatorDrop":
            o = rnd.choice([o for o in live if creator[o]]); creator[o] = 0
            a = {"a": name, "arg": {"o": o}}
        elif name == "RefInc":
            o = rnd.choice([o for o in live if expl[o] < maxexp]); expl[o] += 1
            a = {"a": name, "arg": {"o": o}}
        elif name == "RefDec":
            o = rnd.choice([o for o in live if expl[o] > 0]); expl[o] -= 1
            a = {"a": name, "arg": {"o": o}}
        elif name == "DefaultCtor":
            s = rnd.choice(free); h[s] = 0
            a = {"a": name, "arg": {"s": s}}
        elif name in ("RawCtor", "RawAssign"):
            s = rnd.choice(free if name == "RawCtor" else used)
            ok = [o for o in live if fits(s, o)]
            o = rnd.choice(ok) if ok and rnd.random() < 0.8 else 0
            if name == "RawAssign" and h[s] and rnd.random() < 0.2:
                o = h[s]                  # assign the pointer the handle already holds
            h[s] = o
            a = {"a": name, "arg": {"s": s, "o": o}}
        elif name in ("CopyCtor", "MoveCtor"):
            s = rnd.choice(free)
            src = [t for t in used if converts(s, t)]
            if not src:
                acts.append({"a": "DefaultCtor", "arg": {"s": s}}); h[s] = 0
                continue
            t = rnd.choice(src)
            h[s] = h[t]
            if name == "MoveCtor" and pol.get("cmc" if conv(s, t) else "mc", "release") == "release":
                h[t] = 0
            a = {"a": conv(s, t) + name, "arg": {"s": s, "t": t}}
        elif name in ("CopyAssign", "MoveAssign"):
            s = rnd.choice(used)
            src = [t for t in used if converts(s, t)]
            t = s if rnd.random() < 0.12 else rnd.choice(src)
            old = h[s]
            if name == "CopyAssign" or s == t:
                if name == "MoveAssign" and pol.get("sm", "release") == "release":
                    h[s] = 0
                elif name == "CopyAssign":
                    h[s] = h[t]
            else:
                out = pol.get("cma" if conv(s, t) else "ma", "release")
                h[s] = h[t]
                if out == "release": h[t] = 0
                elif out == "swap": h[t] = old
            a = {"a": conv(s, t) + name, "arg": {"s": s, "t": t}}
        elif name == "Dtor":
            s = rnd.choice(used); h[s] = None
            a = {"a": name, "arg": {"s": s}}
        elif name == "SetMember":
            o = rnd.choice(owners); t = rnd.choice([x for x in used if slots[x - 1] != "C"] or used); mem[o] = h[t]
            a = {"a": name, "arg": {"o": o, "t": t}}
        elif name == "ClearMember":
            o = rnd.choice(owners); mem[o] = 0
            a = {"a": name, "arg": {"o": o}}
        elif name in ("CopyCtorFromMember", "MoveCtorFromMember"):
            s = rnd.choice(freeB); t = rnd.choice(via); h[s] = mem[h[t]]
            if name == "MoveCtorFromMember" and pol.get("mc", "release") == "release":
                mem[h[t]] = 0
            a = {"a": name, "arg": {"s": s, "t": t}}
        elif name in ("UnlinkNext", "UnlinkNextMove"):
            o = rnd.choice(unl); z = mem[o]
            if name == "UnlinkNext":
                mem[o] = mem[z]
            elif z == o:
                if pol.get("sm", "release") == "release": mem[o] = 0
            else:
                out = pol.get("ma", "release")
                mem[o] = mem[z]
                if out == "release": mem[z] = 0
                elif out == "swap": mem[z] = z
            a = {"a": name, "arg": {"o": o}}
        elif name in ("CopyAssignFromMember", "MoveAssignFromMember"):
            walk = [t for t in via if t in usedB]
            if walk and rnd.random() < 0.7:
                s = t = rnd.choice(walk)  # cur = cur->next
            else:
                s, t = rnd.choice(usedB), rnd.choice(via)
            x, old = h[t], h[s]
            h[s] = mem[x]
            if name == "MoveAssignFromMember":
                out = pol.get("ma", "release")
                if out == "release": mem[x] = 0
                elif out == "swap": mem[x] = old
            a = {"a": name, "arg": {"s": s, "t": t}}
        elif name == "Bool":
            a = {"a": name, "arg": {"s": rnd.choice(used)}}
        elif name == "Arrow":
            nn = [s for s in used if h[s]]
            a = {"a": name, "arg": {"s": rnd.choice(nn or used)}}
        else:
            a = {"a": "Compare", "arg": {"s": rnd.choice(used), "t": rnd.choice(used)}}     # same and mixed static types
        settle()
        acts.append(a)
    return acts


# ---------------------------------------------------------------------------
# concurrent bursts
# ---------------------------------------------------------------------------
def burst_events(obs):
    """One Burst observation -> events for RefCountConcTrace (format conversion only)."""
    # object 1 is a CNode ("Base"), object 2 a CLeaf ("Derived"): a fact about the driver, handed to the specification
    ev = [{"e": "Start", "objs": obs["objs"], "threads": obs["threads"], "types": ["Base", "Derived"][:obs["objs"]]}]
    for b in obs["books"]:
        ev.append({"e": "Books", "t": b["t"], "acq": b["acq"], "rel": b["rel"], "live": b["live"]})
    ev.append({"e": "Quiescent", "use": obs["use"], "destroyed": obs["destroyedMid"]})
    ev.append({"e": "CreatorDrop", "n": obs["creatorRel"]})
    for b in obs["books"]:
        ev.append({"e": "Release", "t": b["t"], "n": b["rel2"], "kept": b["kept"], "maxstamp": b["maxstamp"]})
    ev.append({"e": "Final", "destroyed": obs["destroyed"], "dstamp": obs["dstamp"], "derived": obs["derivedDtor"], "use": obs["useEnd"]})
    return ev


def rounds_events(obs):
    """One AcquireRounds observation -> events for RefCountConcTrace (format conversion only)."""
    ev = [{"e": "RoundsStart", "threads": obs["threads"], "start": obs["start"], "how": obs["how"], "lenderFirst": obs["lenderFirst"]}]
    for o in obs["outcomes"]:
        ev.append(dict(o, e="Round"))
    ev.append({"e": "RoundsEnd", "rounds": obs["rounds"], "overlapping": obs["overlapping"], "overlappingRel": obs["overlappingRel"]})
    return ev


def run_bursts(chk, exe, configs, tag, san):
    """configs: list of Burst / AcquireRounds argument dicts ("action" selects, default Burst); each becomes one isolated
    history.  Returns list of executions (event lists)."""
    hists = [[{"a": c.get("action", "Burst"), "arg": c}] for c in configs]
    res, rc, stderr, wall = adt.run_driver(exe, hists, tag, isolate=1, timeout=1200)
    execs = []
    for i, c in enumerate(configs):
        r = res.get(i)
        if r is None:
            raise InfraError("driver %s gave no result for burst %d (rc=%s): %s" % (exe, i, rc, stderr[-1500:]))
        if "crash" in r:
            status = r["crash"].get("status")
            if san == "thread" and (status == 95 or "ThreadSanitizer" in stderr):
                execs.append([{"e": "race", "status": status}])
            else:
                execs.append([{"e": "crash", "status": status, "sig": r["crash"].get("sig")}])
        elif "timeout" in r:
            raise InfraError("burst %d (%s) hit the driver's watchdog: machine load, not a verdict" % (i, json.dumps(c)))
        else:
            o = r["obs"][0]
            if "unexpected_exception" in o:
                execs.append([{"e": "malformed", "what": o["unexpected_exception"]}])
            elif c.get("action") == "AcquireRounds":
                execs.append(rounds_events(o))
            else:
                execs.append(burst_events(o))
    return execs, stderr, wall


def validate_bursts(chk, execs, configs, tag, san, stderr=""):
    acc, rej, stats = trace.validate(os.path.join(SPEC, "RefCountConcTrace.tla"), os.path.join(SPEC, "RefCountConcTrace.cfg"),
                                     execs, tag, reset_key="e")
    chk.cov["traces_validated_against_impl"] += acc + len(rej)
    chk.cov.setdefault("trace_events_validated", 0)
    chk.cov["trace_events_validated"] += stats["events"]
    chk.log("trace validation %s: %d bursts accepted, %d rejected, %d events, %.1fs" % (tag, acc, len(rej), stats["events"], stats["wall"]))
    for rj in rej:
        ev = rj["event"]
        e = ev.get("e")
        field = e if e in ("race", "crash", "malformed") else "trace-rejected@" + str(e)
        cfgc = configs[rj["exec"]]
        if cfgc.get("action") == "AcquireRounds":
            mm = {"action": "ConcurrentRelease" if cfgc.get("lenderFirst") else "ConcurrentAcquire", "field": field,
                  "cls": "start=%s,k=%s,how=%s,san=%s" % (cfgc.get("start"), cfgc.get("threads"), cfgc.get("how"), san or "none")}
        else:
            mm = {"action": "ConcurrentBurst", "cls": "san=%s" % (san or "none"), "field": field}
        what = "%s: burst %s rejected by RefCountConcTrace at event %d: %s" % (API, json.dumps(cfgc), rj["line"], json.dumps(ev)[:400])
        rep = {"kind": "burst", "property": chk.pid, "tag": tag, "san": san, "config": cfgc, "events": execs[rj["exec"]],
               "rejected_at": rj["line"]}
        if e in ("race", "crash"):
            rep["stderr_tail"] = stderr[-3000:]
        chk.violation(sig_of(API, mm), what, rep)
    return acc, rej


def burst_configs(rnd, quick):
    cfgs = []
    big = 20000 if quick else 100000
    for T in ([2, 4, 8] if quick else [2, 3, 4, 6, 8]):
        for M in (1, 2):
            cfgs.append({"threads": T, "objs": M, "ops": big, "seed": rnd.randint(1, 10 ** 6), "keep": 0})
    # many short bursts: the threads reach the racing final release with few handles each
    for _ in range(40 if quick else 400):
        T = rnd.choice([2, 3, 4, 8])
        cfgs.append({"threads": T, "objs": rnd.choice([1, 2]), "ops": rnd.choice([0, 3, 10, 50, 300]), "seed": rnd.randint(1, 10 ** 6),
                     "keep": rnd.choice([0, 0, 0, 1, T])})
    return cfgs


def acquire_configs(rnd, quick, tsan=False):
    """Series of rounds in which k threads that own nothing acquire a reference at the same moment through ONE borrowed
    reference, from a count of exactly 1 (mostly) or 2, 3."""
    R = (1000 if quick else 3000) if tsan else (3000 if quick else 20000)
    cfgs = []
    combos = [(2, 1, "raw"), (2, 1, "copy"), (2, 1, "refinc"), (3, 1, "mixed"), (4, 1, "mixed"), (2, 1, "mixed"),
              (3, 2, "raw"), (2, 3, "copy"), (4, 2, "mixed")]
    if tsan:
        combos = [(2, 1, "raw"), (3, 1, "mixed"), (2, 2, "copy")]
    elif not quick:
        combos += [(3, 1, "raw"), (4, 1, "copy"), (3, 1, "refinc"), (2, 2, "refinc"), (4, 3, "raw")]
    for k, start, how in combos:
        cfgs.append({"action": "AcquireRounds", "threads": k, "start": start, "how": how, "rounds": R, "maxms": 4000 if quick else 8000})
    # the lender releases first: the k threads' simultaneous releases start from a count of exactly k and contain the last one
    for k, start, how in ([(2, 1, "raw")] if tsan else [(2, 1, "raw"), (2, 1, "refinc"), (3, 1, "mixed"), (4, 2, "copy")]):
        cfgs.append({"action": "AcquireRounds", "threads": k, "start": start, "how": how, "rounds": R, "maxms": 4000 if quick else 8000,
                     "lenderFirst": 1})
    return cfgs


def acquire_guard(chk, execs, minimum):
    """Vacuity guard: enough rounds in which the count was exactly 1 and at least two threads' acquisitions overlapped."""
    n = rounds = nrel = 0
    for ev in execs:
        if ev and ev[0].get("e") == "RoundsStart" and ev[-1].get("e") == "RoundsEnd":
            rounds += ev[-1]["rounds"]
            if ev[0]["start"] == 1 and ev[0]["threads"] >= 2:
                n += ev[-1]["overlapping"]
            if ev[0].get("lenderFirst"):
                nrel += ev[-1]["overlappingRel"]
    return n, rounds, nrel


# ---------------------------------------------------------------------------
def run(chk, replay=None):
    quick = chk.tier == "quick"
    rnd = random.Random(chk.seed)
    chk.assumptions += [
        "TLC explores the bounded instances completely (2 objects, 2 to 4 handle slots, <= 1 or 2 outstanding explicit references, <= 2 incarnations per object, one member handle per Derived object)",
        "only code that holds a reference to an object (creator, pool handle, explicit reference) touches its member handle; unreachable cycles leak and are never destroyed (consistent with the statement)",
        "the driver's bookkeeping (which slot holds a handle, destructor log of the pointee types) is correct; object ids are recovered from pointers",
        "a moved-from handle may be empty, may keep a counted reference, or (plain move assignment) hold the destination's previous pointee; any of them must keep the books balanced",
        "concurrent executions are free-running: interleavings are sampled, judged at quiescent points and by stamp order, not enumerated",
        "a lender keeps the reference it lends until every borrower has finished acquiring; useCount() is only read when no thread is operating",
    ]
    if replay:
        return do_replay(chk, replay)

    # 1. design level (the four TLC runs are independent: run them side by side)
    from concurrent.futures import ThreadPoolExecutor
    jobs = [("RefCountMC", "RefCountMC.cfg" if quick else "RefCountMC_thorough.cfg", 12,
             "conservation, alive iff referenced, no dangling handle, dies at last release, destroyed exactly once"),
            ("RefCountMC", "RefCountMC_members.cfg" if quick else "RefCountMC_members_thorough.cfg", 12,
             "the same with member handles (objects owning a handle, cascading destruction, assignment from a member of the target)"),
            ("RefCountBig", "RefCountBig.cfg", 4,
             "counter boundaries (127/128 ... 2^32+1 explicit references, up to 65537 handles): alive iff referenced, jumps are exact"),
            ("RefCountConc", "RefCountConc.cfg" if quick else "RefCountConc_thorough.cfg", 8,
             "atomic inc/dec: conservation and single destruction under all interleavings"),
            ("RefCountConc", "RefCountConcBorrow.cfg", 4,
             "threads owning nothing acquire concurrently through the creator's reference from count 1: no reference lost"),
            ("RefCountConc", "RefCountConcSplit.cfg", 4, {"Conservation"}),
            ("RefCountConc", "RefCountConcSplit2.cfg", 4, {"NotWhileReferenced", "NoUseAfterFree"}),
            # "sole owner" fast path in refInc (store 2 when the count reads 1): two concurrent acquisitions lose a reference
            ("RefCountConc", "RefCountConcFastPath.cfg", 4, {"Conservation"}),
            ("RefCountConc", "RefCountConcFastPath2.cfg", 4, {"NotWhileReferenced", "NoUseAfterFree"})]
    if not quick:
        jobs += [("RefCountConc", "RefCountConcBorrow2.cfg", 4, "the same from count 2"),
                 ("RefCountConc", "RefCountConcBorrow3.cfg", 4, "the same from count 3, four threads")]
    with ThreadPoolExecutor(max_workers=6) as ex:
        results = list(ex.map(lambda j: tla.run_tlc(os.path.join(SPEC, j[0] + ".tla"), os.path.join(SPEC, j[1]), workers=j[2], timeout=1500), jobs))
    chk.cov["negative_controls"] = []
    for (mod, cfg, _, what), r in zip(jobs, results):
        if isinstance(what, str):
            chk.require_model_ok(mod + "/" + cfg, r, what)
            continue
        # negative control: the same model with the increment split into load and store MUST be refuted
        if r.violated not in what:
            raise InfraError("negative control %s (non-atomic increment) was not refuted by TLC (violated=%s error=%s): "
                             "the invariants would be vacuous\n%s" % (cfg, r.violated, r.error, r.out[-1500:]))
        chk.cov["negative_controls"].append({"module": mod + "/" + cfg, "refuted_invariant": r.violated,
                                             "distinct_states": r.distinct, "depth": r.depth})
        chk.log("negative control %s: non-atomic increment refuted by TLC (invariant %s, %d states)" % (cfg, r.violated, r.distinct))

    # 2. sequential part, code -> spec probe, then spec -> code
    exe = build.build("drv_refcount", san="address,undefined")
    # the same driver without sanitizers, used with quarantined pointee storage: what the code computes after it destroyed
    # an object too early is then observed as values (counts, destructor log, pointers) instead of ending in an abort
    exe_plain = build.build("drv_refcount")
    policy = probe_policy(chk, exe)
    if policy is not None:
        chk.log("moved-from policy determined by TLC from the probe: %s" % policy)
        chk.cov["moved_from_policy"] = policy
        # universes: cfg, driver meta (slot / object types, object layout), budget for all histories up to K, random walks,
        # sampled conversion-then-compare paths per conversion kind, pointee storage modes
        def U(cfg, slots, objs, layout, budget, walks, conv=0, modes=("free",), maxexp=1, members=False):
            return {"cfg": cfg, "meta": {"slots": slots, "objs": objs, "maxexp": maxexp, "members": members, "layout": layout},
                    "budget": budget, "walks": walks, "conv": conv, "modes": list(modes)}
        plan = [U("RefCountGen.cfg", "BBD", "BD", "single", 45000 if quick else 1400000, 1500 if quick else 15000),
                # layouts in which the derived-to-base conversion changes the address
                U("RefCountGen_BDD.cfg", "BDD", "BD", "multi", 0, 1000 if quick else 10000, conv=60 if quick else 300),
                U("RefCountGen_CBD.cfg", "CBD", "DD", "multi", 0, 1000 if quick else 10000, conv=150 if quick else 600),
                # objects that own a handle: values with quarantined pointee storage, memory safety with really freed storage
                U("RefCountGen_chain.cfg", "BB", "DD", "single", 30000 if quick else 250000, 1000 if quick else 10000,
                  modes=("quarantine", "free"), maxexp=0, members=True)]
        if not quick:
            plan += [U("RefCountGen_BBDD.cfg", "BBDD", "BD", "multi", 0, 10000, conv=300),
                     U("RefCountGen_CBD.cfg", "CBD", "DD", "virtual", 100000, 10000, conv=600),
                     U("RefCountGen.cfg", "BBD", "BD", "virtual", 0, 5000, conv=300),
                     U("RefCountGen_CBD.cfg", "CBD", "DD", "single", 0, 5000),
                     U("RefCountGen_chain.cfg", "BB", "DD", "multi", 0, 5000, modes=("quarantine", "free"), maxexp=0, members=True)]
        chk.cov["generation"] = {}
        classes = set()
        storm = False
        adjusted = {"same-object": 0, "different-objects": 0}
        convstats = {}
        # TLC generates the next universes while the current one is replayed
        def generate(u):
            m = u["meta"]
            return gen_histories(chk, policy, u["budget"], 6, walks=u["walks"], walk_len=40, seed=chk.seed,
                                 tag="c08-gen-" + m["slots"] + m["objs"] + m["layout"], cfg=u["cfg"], layout=m["layout"], meta=m, conv=u["conv"])
        genpool = ThreadPoolExecutor(max_workers=3)
        futures = [genpool.submit(generate, u) for u in plan]
        for u, fut in zip(plan, futures):
            cfg, meta, budget, walks, modes = u["cfg"], u["meta"], u["budget"], u["walks"], u["modes"]
            uni = "%s/%s[%s]" % (meta["slots"], meta["objs"], meta["layout"])
            hs, cover, rw, info, model = fut.result()
            chk.add_model(*model)
            allh = hs + cover + rw
            chk.count_actions(allh)
            classes |= set((st["a"], st.get("cls")) for h in cover for st in h[-1:])
            chk.cov["generation"][uni] = info
            for h in allh:
                for st in h:
                    if st["a"] == "Compare" and st["cls"].endswith(",adjusted"):
                        for k in adjusted:
                            if k in st["cls"]:
                                adjusted[k] += 1
            for k, v in (info.get("conversion_then_compare") or {}).items():
                if meta["layout"] != "single":
                    convstats[k] = convstats.get(k, 0) + v["same_object"]
            for mode in modes:
                if len(modes) > 1 and mode == "free":
                    allh = cover + rw      # the second pass looks for memory errors: one history per transition and the walks
                dmeta = dict(meta, quarantine=(mode == "quarantine"))
                tag = "c08-seq-%s%s%s-%s" % (meta["slots"], meta["objs"], meta["layout"], mode)
                # a first wave of 2000 sampled histories: if the code under test aborts in many of them (every abort costs a
                # sanitizer report and a fresh child), the verdict is already established and the bulk is not run
                pick = set(rnd.sample(range(len(allh)), min(2000, len(allh))))
                rinfo = {"policy": policy, "universe": dmeta}
                drv = exe_plain if mode == "quarantine" else exe
                n1, wall1, c1 = replay_parallel(chk, drv, [allh[i] for i in sorted(pick)], tag + "-w1", API, isolate=100, meta=dmeta, replay_info=rinfo)
                if c1 > 150:
                    chk.note("%s (%s): %d of the first %d replayed histories ended in a sanitizer abort; remaining histories not run"
                             % (uni, mode, c1, len(pick)))
                    storm = True
                    break
                rest = [allh[i] for i in range(len(allh)) if i not in pick]
                n, wall, _ = replay_parallel(chk, drv, rest, tag, API, isolate=500, meta=dmeta, replay_info=rinfo)
                chk.log("IntrusivePtr %s (%s storage): %d histories replayed (%d mismatching) in %.1fs" % (uni, mode, len(allh), n + n1, wall + wall1))
            if storm:
                for f in futures:
                    f.cancel()
                break
            chk.cov["distinct_nontrivial"] += adtcheck._nontrivial_distinct(allh, MUTATORS | MEMBER_ACTIONS)
            if uni == "BBD/BD[single]":
                chk.add_sample({"kind": "history", "object": "IntrusivePtr<Base>/<Derived>", "steps": cover[len(cover) // 2]})
            if uni == "CBD/DD[multi]":
                adj = [h for h in cover if h[-1]["a"] == "Compare" and h[-1]["cls"] == "types=Base/Derived,same-object,adjusted"]
                if adj:
                    chk.add_sample({"kind": "history", "object": "IntrusivePtr<Node> == Ref<Leaf>, Leaf : Tag, Node", "steps": min(adj, key=len)})
            if meta["members"] and meta["layout"] == "single":
                walk = [h for h in cover if h[-1]["a"] == "CopyAssignFromMember" and h[-1].get("cls") == WALK_CLASS]
                if walk:
                    chk.add_sample({"kind": "history", "object": "chain walk cur = cur->next on the last reference", "steps": min(walk, key=len)})
        genpool.shutdown(wait=True)
        if not storm:
            chk.require_actions(sorted(MUTATORS | MEMBER_ACTIONS | {"Bool", "Arrow", "Compare"}))
        need = [("CopyAssign", "self,obj"), ("MoveAssign", "self,obj"), ("RawAssign", "arg=null,dst=obj"), ("MoveAssign", "src=null,dst=obj"),
                ("ConvCopyCtor", "src=obj,dst=new"), ("Dtor", "obj,kills"), ("CreatorDrop", "last,kills"), ("RefDec", "last,kills"),
                ("Compare", "types=same,different-objects"), ("Compare", "types=same,same-object"),
                ("Compare", "types=Base/Derived,different-objects"), ("Compare", "types=Derived/Base,same-object"),
                # handles of different static types whose pointers differ for the same object, both operand orders
                ("Compare", "types=Base/Derived,same-object,adjusted"), ("Compare", "types=Derived/Base,same-object,adjusted"),
                ("Compare", "types=CBase/Derived,same-object,adjusted"), ("Compare", "types=Derived/CBase,same-object,adjusted"),
                ("Compare", "types=Base/Derived,different-objects,adjusted"), ("Compare", "types=Derived/CBase,different-objects,adjusted"),
                ("Compare", "types=CBase/Base,same-object"), ("Compare", "types=Base/CBase,different-objects"),
                # the handle assigned from lives inside the object whose last reference the assignment releases
                ("CopyAssignFromMember", WALK_CLASS), ("MoveAssignFromMember", WALK_CLASS),
                ("CopyAssignFromMember", "src=member-of-dst-target,next=null,last-ref,kills"),
                ("SetMember", "val=self,old=null"),
                # x.next = x.next->next: destination and source are member handles, the successor loses its last reference
                ("UnlinkNext", "next=obj,nextnext=null,last-ref,kills"), ("UnlinkNext", "next=obj,nextnext=back,last-ref,kills"),
                ("UnlinkNextMove", "next=obj,nextnext=back,last-ref,kills"), ("UnlinkNext", "next=self,nextnext=back"),
                ("MoveCtorFromMember", "src=member-of-other,next=obj,dst=new"),
                # two empty handles; operator< on every kind of pair
                ("Compare", "types=same,both-empty"), ("Compare", "types=Base/Derived,both-empty")]
        missing = [c for c in need if c not in classes]
        if missing and not storm:
            raise InfraError("vacuity guard: input classes never generated: %s" % missing)
        # comparisons of handles holding different addresses for one object: enough of them, reached through every conversion path
        chk.cov["adjusted_mixed_type_compares"] = dict(adjusted, after_conversion=convstats)
        if not storm:
            thin = [k for k in CONVERSIONS if convstats.get(k, 0) < 10]
            if adjusted["same-object"] < 300 or adjusted["different-objects"] < 300 or thin:
                raise InfraError("vacuity guard: too few comparisons of adjusted mixed-type handle pairs: %s; conversion paths lacking a "
                                 "same-object compare: %s" % (adjusted, thin))
        chk.cov["input_classes_covered"] = len(classes)
        chk.cov["cascades_generated"] = sum(1 for a, c in classes if c and c.endswith(",kills"))

    # 2b. numeric boundaries of the counter: macro actions jump the number of explicit references / live handles between
    #     0, 1, 2, 127/128, 255/256/257, 65535/65536/65537 (thorough: one staircase through 2^31 and 2^32 as well)
    ag, r = build_graph_from_edges(chk, None, "c08-big", cfg="RefCountBigGen.cfg", module="RefCountBig")
    chk.add_model("RefCountBig/RefCountBigGen.cfg", r, "counter boundaries, generation instance: %d abstract states, %d abstract transitions"
                  % (len(ag.states), ag.nedges))
    bcover = adt.edge_cover(ag)
    bh = bcover + adt.random_walks(ag, 200 if quick else 2000, 12, chk.seed)
    chk.count_actions(bh)
    bclasses = set((st["a"], st.get("cls")) for h in bcover for st in h[-1:])
    bneed = [("ExplicitTo", "from=255,to=256"), ("ExplicitTo", "from=65535,to=65536"), ("ExplicitTo", "from=65536,to=65537"),
             ("ExplicitTo", "from=65536,to=0"), ("ExplicitTo", "from=65537,to=0,kills"), ("ExplicitTo", "from=128,to=127"),
             ("HandlesTo", "from=255,to=256"), ("HandlesTo", "from=65535,to=65536"), ("HandlesTo", "from=65537,to=0,kills"),
             ("CreatorDrop", ",kills")]
    bmissing = [c for c in bneed if c not in bclasses]
    if bmissing:
        raise InfraError("vacuity guard: counter-boundary classes never generated: %s" % bmissing)
    nb, wallb, _ = replay_parallel(chk, exe, bh, "c08-big", API, isolate=100, meta={"big": True}, replay_info={"spec": "RefCountBig"})
    chk.log("counter boundaries: %d histories replayed (%d mismatching) in %.1fs" % (len(bh), nb, wallb))
    chk.cov["counter_boundaries"] = {"abstract_states": len(ag.states), "abstract_transitions": ag.nedges, "histories": len(bh),
                                     "classes": len(bclasses)}
    chk.cov["distinct_nontrivial"] += adtcheck._nontrivial_distinct(bh, {"ExplicitTo", "HandlesTo", "CreatorDrop"})
    chk.add_sample({"kind": "history", "object": "counter boundaries (macro actions)", "steps": bcover[len(bcover) // 2]})
    if not quick:
        agb, rb = build_graph_from_edges(chk, None, "c08-big2", cfg="RefCountBigGen_big.cfg", module="RefCountBig")
        chk.add_model("RefCountBig/RefCountBigGen_big.cfg", rb, "counter boundaries incl. 2^31 and 2^32: %d abstract states" % len(agb.states))
        up = [(32767, 65535), (32768, 0), (32768, 1), (65535, 65535), (65536, 0), (65536, 1)]
        want = [("New", None)] + [("ExplicitTo", t) for t in up] + [("ExplicitTo", t) for t in reversed(up[:-1])] + \
               [("CreatorDrop", None), ("ExplicitTo", (0, 0))]
        cur, stair = agb.init[0], []
        for a, t in want:           # path selection in TLC's graph: one staircase up through both boundaries and down again
            nxt = [(st, d) for st, d in agb.edges.get(cur, []) if st["a"] == a and (t is None or (st["arg"]["q"], st["arg"]["r"]) == t)]
            if len(nxt) != 1:
                raise InfraError("staircase: no unique edge %s %s" % (a, t))
            stair.append(nxt[0][0])
            cur = nxt[0][1]
        res, rc, stderr, wallc = adt.run_driver(exe_plain, [stair], "c08-big-stair", isolate=1, meta={"big": True}, timeout=2400,
                                                extra_args=["--timeout-ms", "2000000"])
        mms = adt.compare([stair], res, rc, stderr)
        for mm in mms:
            if mm["kind"] in ("missing", "timeout"):
                raise InfraError("staircase through 2^31 / 2^32 did not finish: %s" % mm)
            what = "%s: step %d %s(%s): %s expected %s observed %s" % (API, mm["step"], mm.get("action"), json.dumps(mm.get("arg")), mm["field"],
                                                                       json.dumps(mm.get("expected"))[:200], json.dumps(mm.get("observed"))[:200])
            chk.violation(sig_of(API, mm), what, {"kind": "history", "property": chk.pid, "tag": "c08-big-stair", "sig_prefix": API,
                                                  "meta": {"big": True, "quarantine": True, "long": True}, "history": stair,
                                                  "mismatch": {k: v for k, v in mm.items() if k != "stderr"}})
        chk.cov["evaluations"] += 1
        chk.cov["counter_boundaries"]["staircase_steps"] = len(stair)
        chk.log("counter boundaries: staircase 0 -> 2^31-1 .. 2^32+1 -> 0 (%d steps, %d mismatching) in %.1fs" % (len(stair), len(mms), wallc))

    # 3. code -> spec: random long executions over the larger universe
    nexec = 24 if quick else 240
    acts = [rand_actions(rnd, 300, TRACE_META, policy) for _ in range(nexec)]
    # quarantined pointee storage without sanitizers (values) on the pointer-adjusting multi layout; freed storage under
    # ASan+UBSan on the virtual-base layout (thorough: also the single-inheritance layout)
    parts = [("quarantine", "multi", exe_plain), ("free", "virtual", exe)] + ([] if quick else [("free", "single", exe)])
    rej, rexecs = [], []
    for i, (mode, layout, drv) in enumerate(parts):
        lo, hi = i * nexec // len(parts), (i + 1) * nexec // len(parts)
        a1, r1, e1 = record_validate(chk, drv, acts[lo:hi], "c08-rand-%s-%s" % (mode, layout), API, isolate=4,
                                     meta=dict(TRACE_META, quarantine=(mode == "quarantine"), layout=layout))
        rej += r1
        rexecs += e1
    tstat = {"performed": {}, "refused": 0, "destructions": 0}
    for ev in rexecs:
        for e in ev:
            o = e.get("obs") or {}
            if o.get("skipped"):
                tstat["refused"] += 1
            elif "cnt" in o:
                tstat["performed"][e["a"]] = tstat["performed"].get(e["a"], 0) + 1
                tstat["destructions"] += len(o.get("died", []))
    chk.cov["recorded_executions"] = tstat
    if not rej:
        lacking = [a for a in sorted(MUTATORS | MEMBER_ACTIONS | {"Compare"}) if tstat["performed"].get(a, 0) < 3]
        if lacking or tstat["destructions"] < 3:
            raise InfraError("vacuity guard: recorded random executions performed too few of %s (destructions: %d)" % (lacking, tstat["destructions"]))
        corruption_guard(chk, rexecs, rnd)
    chk.add_sample({"kind": "recorded-trace-prefix", "object": "IntrusivePtr", "actions": acts[0][:8]})

    # 4. concurrent part
    cfgs = burst_configs(rnd, quick)
    exe_c = build.build("drv_refcount_conc", driver_dir="refcount")
    execs, stderr, wall = run_bursts(chk, exe_c, cfgs, "c08-burst", "")
    chk.log("concurrent bursts: %d executed in %.1fs" % (len(cfgs), wall))
    acc, rej = validate_bursts(chk, execs, cfgs, "c08-burst", "", stderr)
    if not rej:
        burst_corruption_guard(chk, execs, rnd)
    chk.add_sample({"kind": "burst", "config": cfgs[0], "events": execs[0][:4]})
    # concurrent acquisition through one borrowed reference, count exactly 1 (and 2, 3) when k threads acquire together
    acfgs = acquire_configs(rnd, quick)
    aexecs, astderr, wall = run_bursts(chk, exe_c, acfgs, "c08-acquire", "")
    ov, nrounds, ovrel = acquire_guard(chk, aexecs, 0)
    chk.log("concurrent acquisition rounds: %d rounds in %d series, %d with count 1 and overlapping acquisitions, %d with overlapping last "
            "releases from count k, %.1fs" % (nrounds, len(acfgs), ov, ovrel, wall))
    acc, rej = validate_bursts(chk, aexecs, acfgs, "c08-acquire", "", astderr)
    need_ov = 3000 if quick else 10000
    if not rej and (ov < need_ov or ovrel < need_ov // 3):
        raise InfraError("vacuity guard: only %d rounds with start count 1 and >= 2 overlapping acquisitions (need %d), %d with overlapping "
                         "last releases (need %d); machine too loaded?" % (ov, need_ov, ovrel, need_ov // 3))
    chk.cov["acquisition_rounds"] = {"series": len(acfgs), "rounds": nrounds, "count1_overlapping": ov, "last_release_overlapping": ovrel}
    chk.add_sample({"kind": "acquisition-rounds", "config": acfgs[0], "events": aexecs[0]})
    exe_t = build.build("drv_refcount_conc", backend="Debug", san="thread", driver_dir="refcount")
    tcfgs = cfgs[:6] + cfgs[-(10 if quick else 60):]
    tcfgs = [dict(c, ops=min(c["ops"], 20000)) for c in tcfgs]
    execs_t, stderr_t, wall = run_bursts(chk, exe_t, tcfgs, "c08-burst-tsan", "thread")
    chk.log("concurrent bursts under TSan: %d executed in %.1fs" % (len(tcfgs), wall))
    validate_bursts(chk, execs_t, tcfgs, "c08-burst-tsan", "thread", stderr_t)
    tacfgs = acquire_configs(rnd, quick, tsan=True)
    aexecs_t, astderr_t, wall = run_bursts(chk, exe_t, tacfgs, "c08-acquire-tsan", "thread")
    ov_t, nrounds_t, _ = acquire_guard(chk, aexecs_t, 0)
    chk.log("concurrent acquisition rounds under TSan: %d rounds, %d with count 1 and overlapping acquisitions, %.1fs" % (nrounds_t, ov_t, wall))
    validate_bursts(chk, aexecs_t, tacfgs, "c08-acquire-tsan", "thread", astderr_t)
    chk.cov["acquisition_rounds"]["tsan_rounds"] = nrounds_t
    chk.cov["acquisition_rounds"]["tsan_count1_overlapping"] = ov_t
    chk.cov["evaluations"] += len(cfgs) + len(tcfgs) + nexec + nrounds + nrounds_t
    chk.cov["concurrent_bursts"] = {"plain": len(cfgs), "tsan": len(tcfgs),
                                    "operations": sum(c["threads"] * c["ops"] for c in cfgs) + sum(c["threads"] * c["ops"] for c in tcfgs)}
    chk.cov["rule"] = ("histories = paths of TLC's complete state graph of the bounded instance (all paths up to the budgeted length, one shortest "
                       "path per transition, seeded random walks); non-trivial = contains a constructor / assignment / destructor / reference "
                       "call; distinct = distinct (action,argument) sequences; plus recorded random executions and concurrent bursts, each "
                       "counted once in evaluations")


def do_replay(chk, path):
    rep = json.load(open(path))
    kind = rep["kind"]
    if kind == "history":
        exe = build.build("drv_refcount", san="" if (rep.get("meta") or {}).get("quarantine") else "address,undefined")
        if (rep.get("meta") or {}).get("long"):      # the staircase through 2^31 / 2^32: minutes of refInc() calls
            h = rep["history"]
            res, rc, stderr, wall = adt.run_driver(exe, [h], "replay-long", isolate=1, meta=rep.get("meta"), timeout=2400,
                                                   extra_args=["--timeout-ms", "2000000"])
            for mm in adt.compare([h], res, rc, stderr):
                chk.violation(sig_of(rep["sig_prefix"], mm), "%s: step %d %s: %s expected %s observed %s" % (
                    rep["sig_prefix"], mm["step"], mm.get("action"), mm["field"], json.dumps(mm.get("expected"))[:200],
                    json.dumps(mm.get("observed"))[:200]), rep)
        else:
            replay_parallel(chk, exe, [rep["history"]], "replay", rep["sig_prefix"], isolate=1, meta=rep.get("meta"), replay_info=rep.get("info"))
    elif kind == "trace":
        exe = build.build("drv_refcount", san="" if (rep.get("meta") or {}).get("quarantine") else "address,undefined")
        record_validate(chk, exe, [rep["actions"]], "replay", rep["sig_prefix"], isolate=1, meta=rep.get("meta"))
    elif kind == "burst":
        # a concurrent execution is itself the evidence: re-validate the recorded events, then run the configuration again
        validate_bursts(chk, [rep["events"]], [rep["config"]], "replay-recorded", rep.get("san", ""))
        san = rep.get("san", "")
        exe = build.build("drv_refcount_conc", backend="Debug", san="thread", driver_dir="refcount") if san == "thread" \
            else build.build("drv_refcount_conc", driver_dir="refcount")
        execs, stderr, wall = run_bursts(chk, exe, [rep["config"]], "replay-burst", san)
        validate_bursts(chk, execs, [rep["config"]], "replay-burst", san, stderr)
    else:
        raise InfraError("unknown replay artefact kind %r" % kind)
    chk.cov["evaluations"] = max(chk.cov["evaluations"], 1)
