"""Spec -> code replay for state-machine (ADT) specifications.

The specification carries a ghost variable `last` = [a, arg, exp]: the action
just taken, its arguments, and the observables the contract constrains after
it.  TLC dumps the complete state graph of the bounded instance; this module
collapses it to abstract states (state minus `last`), and derives histories
(paths) from it.  Every expected value in a history was computed by TLC."""
import json, random, os, subprocess, time
from . import tla


class AbsGraph:
    def __init__(self):
        self.states = []          # abstract state (jsonable)
        self.index = {}           # canonical json -> idx
        self.init = []
        self.edges = {}           # src idx -> list of (step(jsonable last), dst idx)
        self.nedges = 0


def _canon(v):
    return json.dumps(v, sort_keys=True, separators=(",", ":"))


def collapse(g, ghost=("last",)):
    ag = AbsGraph()
    node_abs = {}
    for nid, st in g.nodes.items():
        a = {k: tla.to_jsonable(v) for k, v in st.items() if k not in ghost}
        c = _canon(a)
        if c not in ag.index:
            ag.index[c] = len(ag.states)
            ag.states.append(a)
        node_abs[nid] = ag.index[c]
    for nid in g.init:
        if node_abs[nid] not in ag.init:
            ag.init.append(node_abs[nid])
    seen = set()
    for src, dst, label in g.edges:
        step = tla.to_jsonable(g.nodes[dst]["last"])
        s, d = node_abs[src], node_abs[dst]
        key = (s, _canon(step), d)
        if key in seen:
            continue
        seen.add(key)
        ag.edges.setdefault(s, []).append((step, d))
        ag.nedges += 1
    for s in ag.edges:
        ag.edges[s].sort(key=lambda e: _canon(e[0]))
    return ag


def build_graph(spec_tla, cfg, workers=8, timeout=900, tag=None):
    """Run TLC with -dump dot and return (AbsGraph, TlcResult)."""
    os.makedirs(os.path.join(tla.WORK, "graphs"), exist_ok=True)
    dot = os.path.join(tla.WORK, "graphs", "%s-%d.dot" % (tag or os.path.basename(spec_tla), os.getpid()))
    r = tla.run_tlc(spec_tla, cfg, workers=workers, timeout=timeout, dump_dot=dot, tag=tag)
    if not r.ok:
        raise tla.InfraError("generation model %s failed: violated=%s error=%s\n%s" % (spec_tla, r.violated, r.error, r.out[-2000:]))
    g = tla.parse_dot(dot)
    os.remove(dot)
    return collapse(g), r


def all_paths(ag, K, budget):
    """All paths of exactly min(K, .) steps from the initial states (maximal ones if
    a state has no successor).  Stops with None if more than `budget`."""
    out = []

    def rec(s, path):
        if len(out) > budget:
            return
        succ = ag.edges.get(s, [])
        if len(path) == K or not succ:
            out.append(list(path))
            return
        for step, d in succ:
            path.append(step)
            rec(d, path)
            path.pop()
            if len(out) > budget:
                return

    for s in ag.init:
        rec(s, [])
    if len(out) > budget:
        return None
    return out


def count_paths(ag, K):
    cnt = {s: 1 for s in range(len(ag.states))}
    for _ in range(K):
        cnt = {s: (sum(cnt[d] for _, d in ag.edges.get(s, [])) or 1) for s in range(len(ag.states))}
    return sum(cnt[s] for s in ag.init)


def edge_cover(ag):
    """One shortest history per edge: BFS-tree path to the source, then the edge."""
    from collections import deque
    parent = {}
    dq = deque()
    for s in ag.init:
        parent[s] = None
        dq.append(s)
    while dq:
        s = dq.popleft()
        for step, d in ag.edges.get(s, []):
            if d not in parent:
                parent[d] = (s, step)
                dq.append(d)

    def path_to(s):
        p = []
        while parent[s] is not None:
            ps, step = parent[s]
            p.append(step)
            s = ps
        p.reverse()
        return p

    out = []
    for s in sorted(parent):
        base = path_to(s)
        for step, d in ag.edges.get(s, []):
            out.append(base + [step])
    return out


def random_walks(ag, n, length, seed):
    rnd = random.Random(seed)
    out = []
    for _ in range(n):
        s = rnd.choice(ag.init)
        p = []
        for _ in range(length):
            succ = ag.edges.get(s, [])
            if not succ:
                break
            step, d = rnd.choice(succ)
            p.append(step)
            s = d
        out.append(p)
    return out


def is_nontrivial(path, mutators):
    return any(st["a"] in mutators for st in path)


# ---------------------------------------------------------------------------
# running a driver
# ---------------------------------------------------------------------------
SAN_ENV = {
    "ASAN_OPTIONS": "detect_leaks=0:abort_on_error=0:exitcode=97:allocator_may_return_null=1:detect_stack_use_after_return=0",
    "UBSAN_OPTIONS": "halt_on_error=1:exitcode=96:print_stacktrace=1",
    "TSAN_OPTIONS": "exitcode=95:halt_on_error=1:report_signal_unsafe=0",
}


def run_driver(exe, histories, tag, isolate=0, timeout=900, env=None, extra_args=None, meta=None):
    """histories: list of lists of steps (dicts with a/arg[/exp]).  Writes them as
    ndjson (without exp), runs the driver, returns dict id -> result line.
    `meta`: extra keys copied into every input line (e.g. variant)."""
    d = os.path.join(tla.WORK, "run", tag)
    os.makedirs(d, exist_ok=True)
    inp = os.path.join(d, "cases-%d.ndjson" % os.getpid())
    outp = os.path.join(d, "obs-%d.ndjson" % os.getpid())
    errp = os.path.join(d, "stderr-%d.txt" % os.getpid())
    with open(inp, "w") as f:
        for i, h in enumerate(histories):
            line = {"id": i, "h": [{k: v for k, v in st.items() if k != "exp"} for st in h]}
            if meta:
                line.update(meta)
            f.write(json.dumps(line, separators=(",", ":")) + "\n")
    e = dict(os.environ)
    e.update(SAN_ENV)
    if env:
        e.update(env)
    cmd = [exe, "--in", inp, "--out", outp]
    if isolate:
        cmd += ["--isolate", str(isolate)]
    if extra_args:
        cmd += extra_args
    t0 = time.time()
    with open(errp, "w") as ef:
        try:
            p = subprocess.run(cmd, env=e, stdout=ef, stderr=subprocess.STDOUT, timeout=timeout)
            rc = p.returncode
        except subprocess.TimeoutExpired:
            rc = "timeout"
    res = {}
    if os.path.exists(outp):
        with open(outp) as f:
            for line in f:
                line = line.strip()
                if not line:
                    continue
                try:
                    j = json.loads(line)
                except ValueError:
                    continue
                res[j["id"]] = j
    with open(errp, errors="replace") as f:
        stderr = f.read()
    for pth in (inp, outp):
        try:
            os.remove(pth)
        except OSError:
            pass
    return res, rc, stderr, time.time() - t0


def subset_mismatch(exp, obs, path=""):
    """First difference such that `exp` is not contained in `obs` (None if contained).
    Dicts: every key of exp must be present and match; everything else: equality."""
    if isinstance(exp, dict):
        if not isinstance(obs, dict):
            return (path, exp, obs)
        for k in sorted(exp):
            v = exp[k]
            if k not in obs:
                return (path + "/" + k, v, "<missing>")
            r = subset_mismatch(v, obs[k], path + "/" + k)
            if r:
                return r
        return None
    if isinstance(exp, list):
        if not isinstance(obs, list) or len(exp) != len(obs):
            return (path, exp, obs)
        for i, (a, b) in enumerate(zip(exp, obs)):
            r = subset_mismatch(a, b, path + "[%d]" % i)
            if r:
                return r
        return None
    if isinstance(exp, bool) or isinstance(obs, bool):
        return None if (exp is obs or (isinstance(exp, bool) and isinstance(obs, bool) and exp == obs)) else (path, exp, obs)
    return None if exp == obs else (path, exp, obs)


def compare(histories, results, rc, stderr):
    """Yield mismatch dicts: {case, step, action, arg, field, expected, observed, kind}."""
    out = []
    for i, h in enumerate(histories):
        r = results.get(i)
        if r is None:
            out.append({"case": i, "step": -1, "kind": "missing", "action": None, "field": "no-result",
                        "expected": "a result line", "observed": "driver rc=%s; stderr tail: %s" % (rc, stderr[-800:])})
            # one missing result usually means the driver died: report once
            break
        if "crash" in r or "timeout" in r:
            kind = "crash" if "crash" in r else "timeout"
            k = r[kind].get("step", -1)
            st = h[k] if 0 <= k < len(h) else {"a": None}
            out.append({"case": i, "step": k, "kind": kind, "action": st.get("a"), "arg": st.get("arg"), "cls": st.get("cls"),
                        "field": kind, "expected": st.get("exp"), "observed": r[kind], "stderr": stderr[-3000:]})
            continue
        obs = r.get("obs", [])
        for k, st in enumerate(h):
            if k >= len(obs):
                out.append({"case": i, "step": k, "kind": "short", "action": st["a"], "arg": st.get("arg"), "cls": st.get("cls"),
                            "field": "no-observation", "expected": st.get("exp"), "observed": None})
                break
            if "unexpected_exception" in obs[k]:
                out.append({"case": i, "step": k, "kind": "exception", "action": st["a"], "arg": st.get("arg"), "cls": st.get("cls"),
                            "field": "unexpected_exception", "expected": st.get("exp"), "observed": obs[k]})
                break
            mm = subset_mismatch(st.get("exp", {}), obs[k])
            if mm:
                out.append({"case": i, "step": k, "kind": "value", "action": st["a"], "arg": st.get("arg"), "cls": st.get("cls"),
                            "field": mm[0], "expected": mm[1], "observed": mm[2]})
                break
    return out
