"""The standard pipeline for a state-machine (ADT) specification:

 1. TLC model-checks the specification's own invariants on a bounded instance
    (design-level result; states / transitions go into the evidence).
 2. TLC dumps the complete state graph of the generation instance; histories
    are derived from it (all paths up to a budgeted length, a transition cover,
    seeded random walks) - every expected observable is computed by TLC.
 3. The driver performs each history on the real objects; observations are
    compared with the specification's expectations step by step (spec -> code).
 4. Seeded random long histories over a larger universe are executed by the
    driver, and the recorded trace is validated by TLC against the trace
    specification (code -> spec).
"""
import json, os, random, time
from . import tla, adt, trace, build
from .core import sig_of


def _nontrivial_distinct(histories, mutators):
    seen = set()
    n = 0
    for h in histories:
        if not any(st["a"] in mutators for st in h):
            continue
        c = json.dumps([[st["a"], st.get("arg")] for st in h], sort_keys=True)
        if c in seen:
            continue
        seen.add(c)
        n += 1
    return n


def model_check(chk, spec_dir, module, cfg, workers=16, timeout=1500, what=""):
    r = tla.run_tlc(os.path.join(spec_dir, module + ".tla"), os.path.join(spec_dir, cfg), workers=workers, timeout=timeout)
    chk.require_model_ok(module + "/" + cfg, r, what)
    return r


def gen_histories(chk, spec_dir, module, cfg, budget, K_max, walks, walk_len, seed, mutators, tag):
    ag, r = adt.build_graph(os.path.join(spec_dir, module + ".tla"), os.path.join(spec_dir, cfg), tag=tag)
    chk.add_model(module + "/" + cfg, r, "generation instance: %d abstract states, %d abstract transitions" % (len(ag.states), ag.nedges))
    K = 1
    while K < K_max and adt.count_paths(ag, K + 1) <= budget:
        K += 1
    hs = adt.all_paths(ag, K, budget * 2) or []
    exhaustive_K = K if hs else 0
    cover = adt.edge_cover(ag)
    rw = adt.random_walks(ag, walks, walk_len, seed)
    info = {"abstract_states": len(ag.states), "abstract_transitions": ag.nedges, "all_histories_len": exhaustive_K,
            "all_histories": len(hs), "transition_cover": len(cover), "random_walks": len(rw), "walk_len": walk_len}
    return hs + cover + rw, info, ag


def replay(chk, exe, histories, tag, sig_prefix, isolate=0, meta=None, env=None, replay_info=None, timeout=1800):
    """Run histories on the real code and compare; reports violations.  Returns number of mismatches."""
    res, rc, stderr, wall = adt.run_driver(exe, histories, tag, isolate=isolate, meta=meta, env=env, timeout=timeout)
    if rc not in (0,) and not res:
        raise tla.InfraError("driver %s produced nothing (rc=%s): %s" % (exe, rc, stderr[-2000:]))
    mms = adt.compare(histories, res, rc, stderr)
    for mm in mms:
        if mm["kind"] == "missing":
            # driver died outside an isolated child or was killed: infrastructure unless a sanitizer report explains it
            if "Sanitizer" in stderr or "runtime error" in stderr:
                mm["kind"] = "crash"
                mm["field"] = "crash"
                h = histories[mm["case"]]
                mm["action"] = h[-1]["a"] if h else None
            else:
                raise tla.InfraError("driver %s stopped without result for case %d (rc=%s): %s" % (exe, mm["case"], rc, stderr[-1500:]))
        h = histories[mm["case"]]
        what = "%s: step %d %s(%s): %s expected %s observed %s" % (
            sig_prefix, mm["step"], mm.get("action"), json.dumps(mm.get("arg")), mm["field"],
            json.dumps(mm.get("expected"))[:300], json.dumps(mm.get("observed"))[:300])
        rep = {"kind": "history", "property": chk.pid, "tag": tag, "sig_prefix": sig_prefix, "meta": meta, "history": h,
               "mismatch": {k: v for k, v in mm.items() if k != "stderr"}, "info": replay_info or {}}
        if mm.get("stderr"):
            rep["stderr_tail"] = mm["stderr"][-2500:]
        chk.violation(sig_of(sig_prefix, mm), what, rep)
    chk.cov["evaluations"] += len(histories)
    return len(mms), wall


def record_and_validate(chk, exe, spec_dir, trace_module, trace_cfg, executions_actions, tag, sig_prefix,
                        isolate=0, meta=None, env=None, workers=1, dfs=False, timeout=900):
    """executions_actions: list of action lists (no exp).  Execute on the real code,
    turn observations into trace lines, let TLC validate them."""
    res, rc, stderr, wall = adt.run_driver(exe, executions_actions, tag + "-rec", isolate=isolate, meta=meta, env=env)
    execs = []
    for i, acts in enumerate(executions_actions):
        r = res.get(i)
        if r is None:
            raise tla.InfraError("driver %s gave no result for recorded execution %d (rc=%s): %s" % (exe, i, rc, stderr[-1500:]))
        ev = []
        if "crash" in r or "timeout" in r:
            kind = "crash" if "crash" in r else "timeout"
            k = r[kind].get("step", 0)
            # the events before the crash are unknown (the child died); the crash itself is the event
            ev = [{"a": kind, "arg": acts[k].get("arg") if 0 <= k < len(acts) else None, "during": acts[k]["a"] if 0 <= k < len(acts) else None,
                   "obs": r[kind]}]
        else:
            for st, o in zip(acts, r["obs"]):
                ev.append({"a": st["a"], "arg": st.get("arg", []), "obs": o})
        execs.append(ev)
    acc, rej, stats = trace.validate(os.path.join(spec_dir, trace_module + ".tla"), os.path.join(spec_dir, trace_cfg),
                                     execs, tag, workers=workers, dfs=dfs, timeout=timeout)
    chk.cov["traces_validated_against_impl"] += acc + len(rej)
    chk.cov.setdefault("trace_events_validated", 0)
    chk.cov["trace_events_validated"] += stats["events"]
    chk.log("trace validation %s: %d executions accepted, %d rejected, %d events, %d TLC run(s), %.1fs"
            % (tag, acc, len(rej), stats["events"], stats["tlc_runs"], stats["wall"]))
    for rj in rej:
        ev = rj["event"]
        mm = {"action": ev.get("during") or ev.get("a"), "cls": None, "field": "trace-rejected" if ev.get("a") not in ("crash", "timeout") else ev["a"]}
        what = "%s: recorded execution %d rejected by %s at event %d: %s" % (sig_prefix, rj["exec"], trace_module, rj["line"], json.dumps(ev)[:400])
        rep = {"kind": "trace", "property": chk.pid, "tag": tag, "sig_prefix": sig_prefix, "meta": meta,
               "actions": executions_actions[rj["exec"]], "events": execs[rj["exec"]], "rejected_at": rj["line"]}
        chk.violation(sig_of(sig_prefix, mm), what, rep)
    return acc, rej
