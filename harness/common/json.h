// Minimal JSON value / parser / printer for the conformance drivers (C++11).
// Objects keep insertion order.  Numbers are 64-bit integers or doubles.
#pragma once
#include <cstdint>
#include <cstdio>
#include <cstdlib>
#include <cstring>
#include <stdexcept>
#include <string>
#include <utility>
#include <vector>

namespace vj {

struct Json
{
  enum Type { Null, Bool, Int, Dbl, Str, Arr, Obj };
  Type type = Null;
  bool b = false;
  int64_t i = 0;
  double d = 0;
  std::string s;
  std::vector<Json> a;
  std::vector<std::pair<std::string, Json>> o;

  Json() {}
  Json(bool v) : type(Bool), b(v) {}
  Json(int v) : type(Int), i(v) {}
  Json(long v) : type(Int), i(v) {}
  Json(long long v) : type(Int), i(v) {}
  Json(unsigned v) : type(Int), i(v) {}
  Json(unsigned long v) : type(Int), i((int64_t)v) {}
  Json(unsigned long long v) : type(Int), i((int64_t)v) {}
  Json(double v) : type(Dbl), d(v) {}
  Json(const char *v) : type(Str), s(v) {}
  Json(const std::string &v) : type(Str), s(v) {}

  static Json array() { Json j; j.type = Arr; return j; }
  static Json object() { Json j; j.type = Obj; return j; }

  bool isNull() const { return type == Null; }
  bool has(const std::string &k) const
  {
    for (auto &p : o) if (p.first == k) return true;
    return false;
  }
  const Json &operator[](const std::string &k) const
  {
    for (auto &p : o) if (p.first == k) return p.second;
    static Json null;
    return null;
  }
  Json &set(const std::string &k, const Json &v)
  {
    if (type != Obj) { type = Obj; }
    for (auto &p : o) if (p.first == k) { p.second = v; return *this; }
    o.emplace_back(k, v);
    return *this;
  }
  Json &push(const Json &v)
  {
    if (type != Arr) { type = Arr; }
    a.push_back(v);
    return *this;
  }
  const Json &operator[](size_t idx) const { return a.at(idx); }
  size_t size() const { return type == Arr ? a.size() : o.size(); }
  int64_t num() const { return type == Dbl ? (int64_t)d : i; }
  double dbl() const { return type == Dbl ? d : (double)i; }
  const std::string &str() const { return s; }
  bool boolean() const { return b; }

  void dump(std::string &out) const
  {
    char buf[64];
    switch (type) {
    case Null: out += "null"; break;
    case Bool: out += b ? "true" : "false"; break;
    case Int: snprintf(buf, sizeof buf, "%lld", (long long)i); out += buf; break;
    case Dbl: snprintf(buf, sizeof buf, "%.17g", d); out += buf; break;
    case Str: dumpStr(s, out); break;
    case Arr:
      out += '[';
      for (size_t k = 0; k < a.size(); ++k) { if (k) out += ','; a[k].dump(out); }
      out += ']';
      break;
    case Obj:
      out += '{';
      for (size_t k = 0; k < o.size(); ++k) {
        if (k) out += ',';
        dumpStr(o[k].first, out);
        out += ':';
        o[k].second.dump(out);
      }
      out += '}';
      break;
    }
  }
  std::string dump() const { std::string r; dump(r); return r; }

  static void dumpStr(const std::string &s, std::string &out)
  {
    out += '"';
    for (unsigned char c : s) {
      if (c == '"') out += "\\\"";
      else if (c == '\\') out += "\\\\";
      else if (c == '\n') out += "\\n";
      else if (c == '\t') out += "\\t";
      else if (c == '\r') out += "\\r";
      else if (c < 0x20 || c >= 0x7f) { char b[8]; snprintf(b, sizeof b, "\\u%04x", c); out += b; }
      else out += (char)c;
    }
    out += '"';
  }
};

struct Parser
{
  const char *p, *e;
  Parser(const std::string &s) : p(s.data()), e(s.data() + s.size()) {}
  void ws() { while (p < e && (*p == ' ' || *p == '\t' || *p == '\n' || *p == '\r')) ++p; }
  [[noreturn]] void fail(const char *m) { throw std::runtime_error(std::string("json: ") + m); }
  Json value()
  {
    ws();
    if (p >= e) fail("eof");
    char c = *p;
    if (c == '{') {
      ++p; Json j = Json::object(); ws();
      if (p < e && *p == '}') { ++p; return j; }
      for (;;) {
        ws(); if (p >= e || *p != '"') fail("key");
        std::string k = str();
        ws(); if (p >= e || *p != ':') fail("colon");
        ++p;
        j.o.emplace_back(k, value());
        ws();
        if (p < e && *p == ',') { ++p; continue; }
        if (p < e && *p == '}') { ++p; return j; }
        fail("object");
      }
    }
    if (c == '[') {
      ++p; Json j = Json::array(); ws();
      if (p < e && *p == ']') { ++p; return j; }
      for (;;) {
        j.a.push_back(value());
        ws();
        if (p < e && *p == ',') { ++p; continue; }
        if (p < e && *p == ']') { ++p; return j; }
        fail("array");
      }
    }
    if (c == '"') return Json(str());
    if (!strncmp(p, "true", 4) && e - p >= 4) { p += 4; return Json(true); }
    if (!strncmp(p, "false", 5) && e - p >= 5) { p += 5; return Json(false); }
    if (!strncmp(p, "null", 4) && e - p >= 4) { p += 4; return Json(); }
    // number
    const char *q = p;
    bool isd = false;
    if (q < e && (*q == '-' || *q == '+')) ++q;
    while (q < e && ((*q >= '0' && *q <= '9') || *q == '.' || *q == 'e' || *q == 'E' || *q == '-' || *q == '+')) {
      if (*q == '.' || *q == 'e' || *q == 'E') isd = true;
      ++q;
    }
    if (q == p) fail("value");
    std::string t(p, q);
    p = q;
    if (isd) return Json(strtod(t.c_str(), nullptr));
    return Json((long long)strtoll(t.c_str(), nullptr, 10));
  }
  std::string str()
  {
    ++p;
    std::string r;
    while (p < e && *p != '"') {
      if (*p == '\\') {
        ++p; if (p >= e) fail("escape");
        switch (*p) {
        case 'n': r += '\n'; break;
        case 't': r += '\t'; break;
        case 'r': r += '\r'; break;
        case 'b': r += '\b'; break;
        case 'f': r += '\f'; break;
        case 'u': {
          if (e - p < 5) fail("u");
          unsigned v = (unsigned)strtoul(std::string(p + 1, p + 5).c_str(), nullptr, 16);
          p += 4;
          if (v < 0x100) r += (char)v; else { r += '?'; }
          break;
        }
        default: r += *p;
        }
        ++p;
      } else r += *p++;
    }
    if (p >= e) fail("string");
    ++p;
    return r;
  }
};

inline Json parse(const std::string &s)
{
  Parser ps(s);
  Json j = ps.value();
  return j;
}

inline bool operator==(const Json &x, const Json &y)
{
  if (x.type != y.type) {
    if ((x.type == Json::Int && y.type == Json::Dbl) || (x.type == Json::Dbl && y.type == Json::Int)) return x.dbl() == y.dbl();
    return false;
  }
  switch (x.type) {
  case Json::Null: return true;
  case Json::Bool: return x.b == y.b;
  case Json::Int: return x.i == y.i;
  case Json::Dbl: return x.d == y.d;
  case Json::Str: return x.s == y.s;
  case Json::Arr:
    if (x.a.size() != y.a.size()) return false;
    for (size_t k = 0; k < x.a.size(); ++k) if (!(x.a[k] == y.a[k])) return false;
    return true;
  case Json::Obj:
    if (x.o.size() != y.o.size()) return false;
    for (auto &p : x.o) if (!y.has(p.first) || !(y[p.first] == p.second)) return false;
    return true;
  }
  return false;
}

} // namespace vj
