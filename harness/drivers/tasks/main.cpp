// Recorder for property C02 (spec/tasking/Tasks.tla, ParallelFor.tla for bursts):
// runs TLC-generated scenarios on the REAL schedule() / async() / AsyncTask<T> of the
// tasking backend this binary was built with and records what a caller can observe,
// plus the lifetime events of an instrumented result type (Tracked / SlowCtor), all
// stamped by one atomic counter.  TLC validates the events (TasksTrace / ParallelForTrace).
//   drv_tasks --in scenarios.ndjson --out events.ndjson --threads T
#include <algorithm>
#include <atomic>
#include <chrono>
#include <fstream>
#include <future>
#include <map>
#include <memory>
#include <mutex>
#include <thread>
#include <vector>
#include <unistd.h>
#include "json.h"
#include "rkcommon/tasking/AsyncTask.h"
#include "rkcommon/tasking/async.h"
#include "rkcommon/tasking/schedule.h"
#include "rkcommon/tasking/tasking_system_init.h"

using vj::Json;
using namespace rkcommon::tasking;
typedef std::chrono::steady_clock Clock;

struct Ev { long s; int tid; long ep; Json j; };   // ep: the scenario the event belongs to (filtered when collecting)
struct Buf { std::mutex m; std::vector<Ev> v; };   // a worker may still log (late events) while the main thread collects
static std::atomic<long> g_stamp{0};
static std::mutex g_regM;
static std::vector<Buf *> g_bufs;
static std::atomic<int> g_nextTid{0};
static thread_local Buf *tl_buf = nullptr;
static thread_local int tl_tid = -1;

static Buf &buf()
{
  if (!tl_buf) {
    tl_buf = new Buf();
    tl_tid = g_nextTid++;
    std::unique_lock<std::mutex> lk(g_regM);
    g_bufs.push_back(tl_buf);
  }
  return *tl_buf;
}
static std::atomic<long> g_epoch{1000000};   // one epoch per scenario; events of objects / closures of earlier scenarios are dropped
static thread_local long tl_epoch = 0;        // epoch of the scenario on whose behalf this thread is currently working
static void logJ(const Json &j, long ep = -1)
{
  Buf &b = buf();
  std::unique_lock<std::mutex> lk(b.m);
  Ev e; e.s = g_stamp++; e.tid = tl_tid; e.j = j;
  e.ep = ep >= 0 ? ep : g_epoch.load();
  b.v.push_back(e);
}
static void logEv(const char *ev, int k, long ep = -1)
{
  if (ep >= 0 && ep != g_epoch.load()) return;
  Json j = Json::object(); j.set("ev", ev).set("k", k); logJ(j, ep);
}
static void logEvV(const char *ev, int k, long v, long ep = -1)
{
  if (ep >= 0 && ep != g_epoch.load()) return;
  Json j = Json::object(); j.set("ev", ev).set("k", k).set("v", (long long)v); logJ(j, ep);
}

// ---- instrumented result type ---------------------------------------------------------------
static std::mutex g_addrM;
static std::map<const void *, int> g_addrId;
static int addrId(const void *p)
{
  std::unique_lock<std::mutex> lk(g_addrM);
  auto it = g_addrId.find(p);
  if (it != g_addrId.end()) return it->second;
  int id = (int)g_addrId.size() + 1;
  g_addrId[p] = id;
  return id;
}
static const long EPOCH0 = 1000000;
static void logP(const char *op, const void *p, long objEpoch)
{
  // an object constructed in an earlier scenario (a result still held by the tasking system's bookkeeping)
  // does not belong to this scenario's log; storage that never held an object of this type (epoch 0 or garbage) does
  if (objEpoch >= EPOCH0 && objEpoch < g_epoch.load()) return;
  Json j = Json::object(); j.set("ev", "P").set("op", op).set("a", addrId(p));
  if (getenv("VERIF_TASKS_DEBUG")) j.set("oe", (long long)objEpoch).set("ge", (long long)g_epoch.load()).set("te", (long long)tl_epoch);
  logJ(j, objEpoch >= EPOCH0 ? objEpoch : -1);
}
static std::atomic<const void *> g_assignSeen{nullptr};   // storage some assignment has targeted (for SlowCtor)

struct Tracked
{
  int value;
  volatile long epoch;   // scenario in which this object was constructed; scrubbed by the destructor
  Tracked() : value(0) { epoch = tl_epoch ? tl_epoch : g_epoch.load(); logP("ctor", this, epoch); }
  explicit Tracked(int v) : value(v) { epoch = tl_epoch ? tl_epoch : g_epoch.load(); logP("ctor", this, epoch); }
  Tracked(const Tracked &o) : value(o.value) { epoch = tl_epoch ? tl_epoch : g_epoch.load(); logP("read", &o, o.epoch); logP("ctor", this, epoch); }
  Tracked(Tracked &&o) : value(o.value) { epoch = tl_epoch ? tl_epoch : g_epoch.load(); logP("read", &o, o.epoch); logP("ctor", this, epoch); }
  Tracked &operator=(const Tracked &o) { logP("read", &o, o.epoch); g_assignSeen = this; logP("assign", this, epoch); value = o.value; return *this; }
  Tracked &operator=(Tracked &&o) { logP("read", &o, o.epoch); g_assignSeen = this; logP("assign", this, epoch); value = o.value; return *this; }
  ~Tracked() { logP("dtor", this, epoch); epoch = 0; }
};
// default construction is slow and observable: it waits (bounded) until an assignment was attempted on this
// very storage - if the class under test starts its task before the result member is constructed, this makes
// the assignment land on storage that holds no live object yet, deterministically
struct SlowCtor : Tracked
{
  SlowCtor() : Tracked(dummy()) { }
  explicit SlowCtor(int v) : Tracked(v) {}
  SlowCtor(const SlowCtor &) = default;
  SlowCtor(SlowCtor &&) = default;
  SlowCtor &operator=(const SlowCtor &) = default;
  SlowCtor &operator=(SlowCtor &&) = default;
  int dummy()
  {
    auto t0 = Clock::now();
    while (g_assignSeen.load() != (const void *)static_cast<Tracked *>(this) &&
           std::chrono::duration_cast<std::chrono::milliseconds>(Clock::now() - t0).count() < 150)
      std::this_thread::yield();
    return 0;
  }
};

template <typename T> struct Conv;
template <> struct Conv<int> { static int make(int v) { return v; } static long val(const int &x) { return x; } };
template <> struct Conv<std::string> { static std::string make(int v) { return std::string(40, 'x') + std::to_string(v); } static long val(const std::string &x) { return x.size() > 40 ? atol(x.c_str() + 40) : -1; } };
template <> struct Conv<std::vector<int>> { static std::vector<int> make(int v) { return std::vector<int>(100, v); } static long val(const std::vector<int> &x) { return x.size() == 100 ? x[99] : -1; } };
template <> struct Conv<Tracked> { static Tracked make(int v) { return Tracked(v); } static long val(const Tracked &x) { return x.value; } };
template <> struct Conv<SlowCtor> { static SlowCtor make(int v) { return SlowCtor(v); } static long val(const SlowCtor &x) { return x.value; } };

static void spinUs(long us)
{
  auto t0 = Clock::now();
  while (std::chrono::duration_cast<std::chrono::microseconds>(Clock::now() - t0).count() < us) {}
}

static std::atomic<int> g_fnDone{0};

template <typename T>
static std::function<T()> makeFn(int k, int v, bool slow)
{
  const long ep = g_epoch.load();
  return [k, v, slow, ep]() -> T {
    tl_epoch = ep;   // whatever this thread constructs from now on (the result, its copies) belongs to that scenario
    logEv("FnBegin", k, ep);
    if (slow) spinUs(400);
    T r = Conv<T>::make(v);
    logEvV("FnEnd", k, v, ep);
    if (ep == g_epoch.load()) g_fnDone++;
    return r;
  };
}

static void idleUntilDone(int want, long boundMs)
{
  // "no further action required from the caller": the caller does not call into the tasking system here
  auto t0 = Clock::now();
  while (g_fnDone.load() < want && std::chrono::duration_cast<std::chrono::milliseconds>(Clock::now() - t0).count() < boundMs)
    std::this_thread::sleep_for(std::chrono::microseconds(200));
}

template <typename T>
static void runATask(const std::string &flow, bool slow)
{
  const int k = 1, v = 42;
  logEv("Create", k);
  AsyncTask<T> *t = new AsyncTask<T>(makeFn<T>(k, v, slow));
  auto pollFinished = [&]() {
    auto t0 = Clock::now();
    bool r = false;
    while (!(r = t->finished()) && std::chrono::duration_cast<std::chrono::milliseconds>(Clock::now() - t0).count() < 5000)
      std::this_thread::yield();
    Json j = Json::object(); j.set("ev", "Finished").set("k", k).set("r", r); logJ(j);
    return r;
  };
  if (flow == "get") { T r = t->get(); logEvV("Get", k, Conv<T>::val(r)); }
  else if (flow == "poll_get") { if (pollFinished()) { T r = t->get(); logEvV("Get", k, Conv<T>::val(r)); } }
  else if (flow == "wait_get") {
    t->wait();
    bool f = t->finished();
    Json j = Json::object(); j.set("ev", "Finished").set("k", k).set("r", f); logJ(j);
    T r = t->get(); logEvV("Get", k, Conv<T>::val(r));
  }
  else if (flow == "get_twice") { { T r = t->get(); logEvV("Get", k, Conv<T>::val(r)); } { T r = t->get(); logEvV("Get", k, Conv<T>::val(r)); } }
  else if (flow == "poll_destroy") { pollFinished(); }
  // "destroy": nothing
  delete t;
  logEv("Destroyed", k);
  idleUntilDone(1, 3000);
}

template <typename T>
static void runAsync(const std::string &flow, bool slow)
{
  const int k = 1, v = 41;
  logEv("Create", k);
  {
    std::function<T()> fn = makeFn<T>(k, v, slow);
    std::future<T> f = async(fn);
    if (flow == "get") { T r = f.get(); logEvV("Get", k, Conv<T>::val(r)); }
    else if (flow == "wait_get") { f.wait(); T r = f.get(); logEvV("Get", k, Conv<T>::val(r)); }
    // "drop": the future goes away without get()
  }
  idleUntilDone(1, 5000);
}

struct BurstCtx { std::vector<std::atomic<int>> counts; BurstCtx(size_t n) : counts(n) { for (auto &c : counts) c = 0; } };

static Json runBurst(long n, bool heap, bool slow, int reinitTo = 0)
{
  // events follow the parallel-loop contract: Call(1, n) ... ExecBegin/End(k) ... Return(cells)
  std::shared_ptr<BurstCtx> cx(new BurstCtx((size_t)n));
  { Json j = Json::object(); j.set("ev", "Call").set("c", 1).set("n", (long long)n).set("B", 1).set("blocks", false).set("parent", Json::array()); logJ(j); }
  for (long k = 0; k < n; ++k) {
    std::vector<int> payload;
    if (heap) payload.assign(16, (int)k);
    const long ep = g_epoch.load();
    schedule([cx, k, payload, slow, heap, ep]() {
      if (ep != g_epoch.load()) return;
      { Json j = Json::object(); j.set("ev", "ExecBegin").set("c", 1).set("b", (long long)k).set("e", (long long)k + 1); logJ(j, ep); }
      if (heap && (payload.size() != 16 || payload[15] != (int)k)) { Json j = Json::object(); j.set("ev", "Abort").set("why", "closure state corrupted"); logJ(j, ep); }
      if (slow && k % 64 == 0) spinUs(50);
      cx->counts[(size_t)k]++;
      { Json j = Json::object(); j.set("ev", "ExecEnd").set("c", 1).set("b", (long long)k).set("e", (long long)k + 1); logJ(j, ep); }
      if (ep == g_epoch.load()) g_fnDone++;
    });
  }
  // "reinit": the tasking system is configured again while closures are still queued (what an application does when
  // its thread count changes); every closure scheduled before must still run exactly once
  if (reinitTo > 0) initTaskingSystem(reinitTo);
  idleUntilDone((int)n, 15000);
  long once = 0;
  for (auto &c : cx->counts) once += c.load() == 1 ? 1 : 0;
  { Json j = Json::object(); j.set("ev", "Return").set("c", 1).set("cells", (long long)once); logJ(j); }
  return Json();
}

// a scheduled closure that itself schedules n further closures (the Internal backend then runs some of them nested
// inside the parent, on the parent's thread, once that thread's pipe is full) and keeps checking that its own
// captured state is still alive; closure 0 is the parent, 1..n are the children (exactly-once contract as for bursts)
struct NestGuard
{
  std::shared_ptr<std::vector<int>> payload;
  std::atomic<int> *live;
  NestGuard(std::atomic<int> *l) : payload(new std::vector<int>(64, 7)), live(l) { (*live)++; }
  NestGuard(const NestGuard &o) : payload(o.payload), live(o.live) { (*live)++; }
  ~NestGuard() { (*live)--; payload.reset(); }
  bool ok() const { return payload && payload->size() == 64 && (*payload)[63] == 7; }
};

static void runNested(long n, bool slow)
{
  std::shared_ptr<BurstCtx> cx(new BurstCtx((size_t)n + 1));
  static std::atomic<int> liveGuards{0};
  liveGuards = 0;
  { Json j = Json::object(); j.set("ev", "Call").set("c", 1).set("n", (long long)n + 1).set("B", 1).set("blocks", false).set("parent", Json::array()); logJ(j); }
  const long ep = g_epoch.load();
  {
    NestGuard guard(&liveGuards);
    schedule([cx, n, slow, ep, guard]() {
      if (ep != g_epoch.load()) return;
      { Json j = Json::object(); j.set("ev", "ExecBegin").set("c", 1).set("b", 0).set("e", 1); logJ(j, ep); }
      for (long k = 1; k <= n; ++k) {
        schedule([cx, k, slow, ep]() {
          if (ep != g_epoch.load()) return;
          { Json j = Json::object(); j.set("ev", "ExecBegin").set("c", 1).set("b", (long long)k).set("e", (long long)k + 1); logJ(j, ep); }
          if (slow && k % 64 == 0) spinUs(50);
          cx->counts[(size_t)k]++;
          { Json j = Json::object(); j.set("ev", "ExecEnd").set("c", 1).set("b", (long long)k).set("e", (long long)k + 1); logJ(j, ep); }
          if (ep == g_epoch.load()) g_fnDone++;
        });
        if (!guard.ok()) {
          Json j = Json::object(); j.set("ev", "Abort").set("why", "state captured by a running closure was destroyed while it runs"); logJ(j, ep);
          break;
        }
      }
      cx->counts[0]++;
      { Json j = Json::object(); j.set("ev", "ExecEnd").set("c", 1).set("b", 0).set("e", 1); logJ(j, ep); }
      if (ep == g_epoch.load()) g_fnDone++;
    });
  }
  idleUntilDone((int)n + 1, 15000);
  long once = 0;
  for (auto &c : cx->counts) once += c.load() == 1 ? 1 : 0;
  { Json j = Json::object(); j.set("ev", "Return").set("c", 1).set("cells", (long long)once); logJ(j); }
}

// closures scheduled back to back from an idle caller while every worker sleeps, where closure k keeps its worker until
// closure k + 1 has started: each scheduled closure must get a worker of its own "with no further action of the caller"
// (a scheduler that posts one wake-up for several queued closures starves the later ones behind the first)
static void runChain(long n)
{
  struct Ctx { std::vector<std::atomic<int>> started, counts; Ctx(size_t n) : started(n), counts(n) { for (auto &c : started) c = 0; for (auto &c : counts) c = 0; } };
  std::shared_ptr<Ctx> cx(new Ctx((size_t)n));
  std::this_thread::sleep_for(std::chrono::milliseconds(60));   // let the workers run out of work and go to sleep
  { Json j = Json::object(); j.set("ev", "Call").set("c", 1).set("n", (long long)n).set("B", 1).set("blocks", false).set("parent", Json::array()); logJ(j); }
  const long ep = g_epoch.load();
  for (long k = 0; k < n; ++k) {
    schedule([cx, k, n, ep]() {
      if (ep != g_epoch.load()) return;
      cx->started[(size_t)k] = 1;
      { Json j = Json::object(); j.set("ev", "ExecBegin").set("c", 1).set("b", (long long)k).set("e", (long long)k + 1); logJ(j, ep); }
      if (k + 1 < n) {
        auto t0 = Clock::now();
        while (!cx->started[(size_t)k + 1].load() && ep == g_epoch.load()) {
          if (std::chrono::duration_cast<std::chrono::milliseconds>(Clock::now() - t0).count() > 10000) {
            Json j = Json::object(); j.set("ev", "Abort").set("why", "dependency starved: the closure scheduled right after this one did not start within 10 s although workers are idle"); logJ(j, ep);
            break;
          }
          std::this_thread::yield();
        }
      }
      cx->counts[(size_t)k]++;
      { Json j = Json::object(); j.set("ev", "ExecEnd").set("c", 1).set("b", (long long)k).set("e", (long long)k + 1); logJ(j, ep); }
      if (ep == g_epoch.load()) g_fnDone++;
    });
  }
  idleUntilDone((int)n, 15000);
  long once = 0;
  for (auto &c : cx->counts) once += c.load() == 1 ? 1 : 0;
  { Json j = Json::object(); j.set("ev", "Return").set("c", 1).set("cells", (long long)once); logJ(j); }
}

static Json collect(bool burst)
{
  std::vector<Ev> all;
  {
    std::unique_lock<std::mutex> lk(g_regM);
    for (auto *b : g_bufs) {
      std::unique_lock<std::mutex> lkb(b->m);
      // keep only what belongs to the current scenario (late events of earlier scenarios are dropped)
      {
        std::vector<Ev> keep;
        const long cur = g_epoch.load();
        for (auto &e : b->v) if (e.ep == cur) keep.push_back(e);
        b->v.swap(keep);
      }
      std::vector<Ev> &v = b->v;
      if (!burst) { all.insert(all.end(), v.begin(), v.end()); v.clear(); continue; }
      // merge back-to-back closure executions of one thread into runs (lossless for the exactly-once contract)
      std::vector<Ev> m;
      for (size_t k = 0; k < v.size(); ++k) {
        Ev &x = v[k];
        if (x.j["ev"].str() == "ExecBegin" && m.size() >= 2 && k + 1 < v.size() && v[k + 1].j["ev"].str() == "ExecEnd") {
          Ev &pe = m[m.size() - 1];
          Ev &pb = m[m.size() - 2];
          if (pe.j["ev"].str() == "ExecEnd" && pb.j["ev"].str() == "ExecBegin" && pe.j["e"].num() == x.j["b"].num() && pb.j["b"].num() == pe.j["b"].num()) {
            long long ne = x.j["e"].num();
            pb.j.set("e", ne);
            pe.j.set("e", ne);
            pe.s = v[k + 1].s;
            ++k;
            continue;
          }
        }
        m.push_back(x);
      }
      all.insert(all.end(), m.begin(), m.end());
      v.clear();
    }
  }
  std::sort(all.begin(), all.end(), [](const Ev &a, const Ev &b) { return a.s < b.s; });
  Json evs = Json::array();
  for (auto &e : all) evs.push(e.j);
  return evs;
}

template <typename T> static void dispatchATask(const Json &j) { runATask<T>(j["flow"].str(), j["slow"].boolean()); }
template <typename T> static void dispatchAsync(const Json &j) { runAsync<T>(j["flow"].str(), j["slow"].boolean()); }

int main(int argc, char **argv)
{
  std::string in, out;
  int threads = 4;
  for (int i = 1; i < argc; ++i) {
    std::string a = argv[i];
    if (a == "--in" && i + 1 < argc) in = argv[++i];
    else if (a == "--out" && i + 1 < argc) out = argv[++i];
    else if (a == "--threads" && i + 1 < argc) threads = atoi(argv[++i]);
  }
  if (in.empty() || out.empty()) { fprintf(stderr, "usage: --in scenarios.ndjson --out events.ndjson --threads T\n"); return 2; }
  initTaskingSystem(threads);
  std::ifstream f(in);
  std::ofstream of(out, std::ios::app);
  std::string line;
  while (std::getline(f, line)) {
    if (line.empty()) continue;
    Json j = vj::parse(line);
    g_epoch++;
    tl_epoch = g_epoch.load();
    g_fnDone = 0;
    g_assignSeen = nullptr;
    { std::unique_lock<std::mutex> lk(g_addrM); g_addrId.clear(); }
    const std::string kind = j["kind"].str(), type = j["type"].str();
    if (kind == "burst") {
      runBurst(j["n"].num(), type == "vector", j["slow"].boolean());
    } else if (kind == "reinit") {
      const std::string fl = j["flow"].str();
      runBurst(j["n"].num(), true, j["slow"].boolean(), fl == "fewer" ? std::max(2, threads - 1) : fl == "more" ? threads + 1 : threads);
      initTaskingSystem(threads);
    } else if (kind == "chain") {
      runChain(j["n"].num());
    } else if (kind == "nested") {
      runNested(j["n"].num(), j["slow"].boolean());
    } else if (kind == "atask") {
      if (type == "int") dispatchATask<int>(j);
      else if (type == "string") dispatchATask<std::string>(j);
      else if (type == "vector") dispatchATask<std::vector<int>>(j);
      else if (type == "tracked") dispatchATask<Tracked>(j);
      else dispatchATask<SlowCtor>(j);
    } else {
      if (type == "int") dispatchAsync<int>(j);
      else if (type == "string") dispatchAsync<std::string>(j);
      else if (type == "vector") dispatchAsync<std::vector<int>>(j);
      else dispatchAsync<Tracked>(j);
    }
    if (kind != "burst" && kind != "nested" && kind != "reinit" && kind != "chain") { Json e = Json::object(); e.set("ev", "End"); logJ(e); }
    Json r = Json::object();
    r.set("id", j["id"]);
    r.set("events", collect(kind == "burst" || kind == "nested" || kind == "reinit" || kind == "chain"));
    of << r.dump() << "\n";
    of.flush();
  }
  of.flush();
  _exit(0);
}
