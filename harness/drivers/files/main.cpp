// Conformance driver for spec/utility/ImageWriters.tla (property C20, images).
//
// One action per writer of rkcommon/utility/SaveImage.h.  The action builds the
// input image from the component codes the specification chose, in a heap block
// of EXACTLY width*height pixels (buf = exact: a read outside the image is an
// AddressSanitizer abort, which the harness reports as a `crash` event of this
// step) or followed by guard pixels holding the sentinel code (buf = padded),
// calls the real writer, then decodes the written file with the independent
// reader below and reports header fields and decoded samples.  Nothing is
// decided here: the orchestrator compares the report with what TLC computed.
//
// Large images do not come as a list of codes: the case names a pattern id and the
// input is Pix(pat, x, y, k) of spec/utility/ImageWriters.tla, mirrored in pix()
// below (the case also carries a few spot values computed by TLC; the driver
// reports what its own pix() gives there and the orchestrator refuses to go on if
// the two formulas disagree).  For such a case the report holds the decoded
// samples at the rows x columns the case asks for and, for EVERY file row, the sum
// and the position-weighted sum of all its samples modulo 65521.
//
// codes: RGBA8 component k of a uint32 pixel = (pixel >> 8k) & 255 = code;
//        float component = (code - 100) / 4 (exact); decoding inverts this and
//        reports anything that is not such a float as a string.
#include <stdint.h>
#include <stdlib.h>
#include <string.h>
#include <unistd.h>
#include <cmath>
#include <stdexcept>
#include <string>
#include <vector>
#include "driver.h"
#include "rkcommon/utility/SaveImage.h"

using vj::Json;
using namespace rkcommon::math;

static const int GUARD_PIXELS = 8;

// Pix(pat, x, y, k) of ImageWriters.tla
static long long pix(long long pat, long long x, long long y, long long k)
{
  if (pat >= 100 && pat <= 355) return ((pat - 100) + 64 * (x + 2 * y) + 13 * k) % 256;   // sweep patterns
  static const long long coef[3][7] = {{7, 13, 5, 3, 11, 0, 251}, {29, 3, 17, 1, 7, 100, 251}, {7, 13, 5, 3, 11, 0, 256}};
  const long long *a = coef[pat >= 1 && pat <= 3 ? pat - 1 : 0];
  return (a[0] * x + a[1] * y + a[2] * k + a[3] * (x / 251) + a[4] * (y / 251) + a[5]) % a[6];
}

// codes 1000 + i: floats that generic code tends to mishandle, identified by their BIT PATTERN (so NaNs compare too)
static const uint32_t kSpecialBits[] = {
    0x80000000u, // -0.0
    0x00800000u, // smallest normal
    0x00000001u, // smallest subnormal
    0x807fffffu, // largest negative subnormal
    0x7f7fffffu, // FLT_MAX
    0xff7fffffu, // -FLT_MAX
    0x7f800000u, // +inf
    0xff800000u, // -inf
    0x7fc00000u, // quiet NaN
    0xffc12345u, // negative quiet NaN with a payload
    0x3dcccccdu, // 0.1f (not dyadic)
    0xba83126fu, // -0.001f
    0x40490fdbu, // pi
    0x7149f2cau, // 1e30f
    0x0da24260u, // 1e-30f
    0x4b800001u, // 2^24 + 2: the last bit of the mantissa
};
static const int kSpecials = (int)(sizeof kSpecialBits / sizeof kSpecialBits[0]);

static float codeToFloat(long long c)
{
  if (c >= 1000 && c < 1000 + kSpecials) {
    float f;
    memcpy(&f, &kSpecialBits[c - 1000], 4);
    return f;
  }
  return (float)(c - 100) / 4.0f;
}

static Json bitsToCode(uint32_t bits)
{
  for (int i = 0; i < kSpecials; ++i)
    if (kSpecialBits[i] == bits) return Json((long long)(1000 + i));
  return Json();
}

static Json floatToCode(double f)
{
  double c = f * 4.0 + 100.0;
  if (std::isfinite(c) && c == std::floor(c) && std::fabs(c) < 1e9) return Json((long long)c);
  char buf[64];
  snprintf(buf, sizeof buf, "float:%.9g", f);
  return Json(std::string(buf));
}

// ---- independent reader ------------------------------------------------------
struct Decoded
{
  bool ok = false;
  std::string why;
  std::string magic, third;
  long long width = -1, height = -1;
  int channels = 0;
  long long trailing = 0;
  Json pix;
};

static bool isWs(unsigned char c) { return c == ' ' || c == '\t' || c == '\n' || c == '\r' || c == '\v' || c == '\f'; }

static bool nextToken(const std::string &d, size_t &p, std::string &tok, bool pnmComments)
{
  for (;;) {
    while (p < d.size() && isWs((unsigned char)d[p])) ++p;
    if (pnmComments && p < d.size() && d[p] == '#') {
      while (p < d.size() && d[p] != '\n' && d[p] != '\r') ++p;
      continue;
    }
    break;
  }
  size_t b = p;
  while (p < d.size() && !isWs((unsigned char)d[p])) ++p;
  tok = d.substr(b, p - b);
  return !tok.empty();
}

static bool parseDim(const std::string &t, long long &v)
{
  if (t.empty() || t.size() > 9) return false;
  for (char c : t) if (c < '0' || c > '9') return false;
  v = atoll(t.c_str());
  return true;
}

static Decoded decodeFile(const std::string &path)
{
  Decoded r;
  std::string d;
  {
    FILE *f = fopen(path.c_str(), "rb");
    if (!f) { r.why = "file was not created"; return r; }
    char buf[65536];
    size_t n;
    while ((n = fread(buf, 1, sizeof buf, f)) > 0) d.append(buf, n);
    fclose(f);
  }
  size_t p = 0;
  std::string tw, th;
  if (!nextToken(d, p, r.magic, false)) { r.why = "no magic number"; return r; }
  bool pnm = false, pfm = false;
  if (r.magic == "P5") { r.channels = 1; pnm = true; }
  else if (r.magic == "P6") { r.channels = 3; pnm = true; }
  else if (r.magic == "Pf") { r.channels = 1; pfm = true; }
  else if (r.magic == "PF") { r.channels = 3; pfm = true; }
  else if (r.magic == "PF4") { r.channels = 4; pfm = true; }
  if (!nextToken(d, p, tw, pnm) || !parseDim(tw, r.width)) { r.why = "width token is not a number: '" + tw + "'"; return r; }
  if (!nextToken(d, p, th, pnm) || !parseDim(th, r.height)) { r.why = "height token is not a number: '" + th + "'"; return r; }
  if (!nextToken(d, p, r.third, pnm)) { r.why = "no maxval / scale token"; return r; }
  if (!pnm && !pfm) { r.why = "unknown magic number '" + r.magic + "'"; return r; }
  // exactly one whitespace character separates the header from the payload
  if (p >= d.size() || !isWs((unsigned char)d[p])) { r.why = "no whitespace after the header"; return r; }
  ++p;
  int bytesPer = 1;
  long long maxval = 0;
  bool little = true;
  double factor = 1.0;
  if (pnm) {
    if (!parseDim(r.third, maxval) || maxval < 1 || maxval > 65535) { r.why = "maxval token is not in 1..65535: '" + r.third + "'"; return r; }
    bytesPer = maxval < 256 ? 1 : 2;
  } else {
    char *end = nullptr;
    double s = strtod(r.third.c_str(), &end);
    if (end == r.third.c_str() || *end != 0 || !std::isfinite(s) || s == 0.0) { r.why = "scale token is not a non-zero number: '" + r.third + "'"; return r; }
    little = s < 0;
    factor = std::fabs(s);
    bytesPer = 4;
  }
  if (r.width < 1 || r.height < 1 || r.width > 100000 || r.height > 100000) { r.why = "implausible dimensions"; return r; }
  const long long need = r.width * r.height * r.channels * bytesPer;
  const long long have = (long long)d.size() - (long long)p;
  if (have < need) {
    char b[128];
    snprintf(b, sizeof b, "payload too short: %lld bytes, %lld needed", have, need);
    r.why = b;
    return r;
  }
  r.trailing = have - need;
  const unsigned char *q = (const unsigned char *)d.data() + p;
  r.pix = Json::array();
  for (long long y = 0; y < r.height; ++y) {
    Json row = Json::array();
    for (long long x = 0; x < r.width; ++x) {
      Json px = Json::array();
      for (int c = 0; c < r.channels; ++c) {
        if (pnm) {
          long long v = bytesPer == 1 ? q[0] : ((long long)q[0] << 8 | q[1]);
          px.push(Json(v));
        } else {
          uint32_t bits = little ? ((uint32_t)q[0] | (uint32_t)q[1] << 8 | (uint32_t)q[2] << 16 | (uint32_t)q[3] << 24)
                                 : ((uint32_t)q[3] | (uint32_t)q[2] << 8 | (uint32_t)q[1] << 16 | (uint32_t)q[0] << 24);
          float f;
          memcpy(&f, &bits, 4);
          Json special = factor == 1.0 ? bitsToCode(bits) : Json();
          if (!special.isNull()) px.push(special);
          else px.push(floatToCode((double)f * factor));
        }
        q += bytesPer;
      }
      row.push(px);
    }
    r.pix.push(row);
  }
  r.ok = true;
  return r;
}

// ---- input images -------------------------------------------------------------
// a heap block of exactly `bytes` bytes, 16-byte aligned (vec3fa), known to the sanitizer with its exact size
static void *exactBlock(size_t bytes)
{
  void *p = nullptr;
  if (posix_memalign(&p, 16, bytes) != 0 || !p) throw std::runtime_error("posix_memalign failed");
  return p;
}

struct World
{
  std::string dir;
  long counter = 0;

  World(const Json &hist)
  {
    dir = hist.has("tmpdir") ? hist["tmpdir"].str() : std::string("/tmp");
  }

  template <typename PIXEL_T, typename FILL>
  PIXEL_T *makeImage(const Json &arg, int pixcomp, FILL fill)
  {
    const long long w = arg["w"].num(), h = arg["h"].num();
    const bool padded = arg["buf"].str() == "padded";
    const size_t npx = (size_t)(w * h);
    const size_t total = npx + (padded ? GUARD_PIXELS : 0);
    PIXEL_T *px = (PIXEL_T *)exactBlock(total * sizeof(PIXEL_T));
    const bool pattern = arg.has("pat");
    const long long pat = arg["pat"].num();
    const Json &codes = arg["pix"];
    if (!pattern && (long long)codes.size() != w * h * pixcomp) throw std::runtime_error("driver: wrong number of component codes");
    std::vector<long long> one((size_t)pixcomp);
    for (size_t i = 0; i < total; ++i) {
      for (int k = 0; k < pixcomp; ++k) {
        if (i >= npx) one[(size_t)k] = arg["sentinel"].num();
        else if (pattern) one[(size_t)k] = pix(pat, (long long)(i % (size_t)w), (long long)(i / (size_t)w), k);
        else one[(size_t)k] = codes[i * (size_t)pixcomp + (size_t)k].num();
      }
      fill(px[i], one);
    }
    return px;
  }

  Json step(const Json &act)
  {
    const std::string &a = act["a"].str();
    const Json &arg = act["arg"];
    const int w = (int)arg["w"].num(), h = (int)arg["h"].num();
    char name[64];
    snprintf(name, sizeof name, "/img-%ld-%ld.bin", (long)getpid(), counter++);
    const std::string path = dir + name;
    unlink(path.c_str());
    Json o = Json::object();
    void *block = nullptr;
    if (a == "writePPM" || a == "writePGM") {
      uint32_t *px = makeImage<uint32_t>(arg, 4, [](uint32_t &p, const std::vector<long long> &c) {
        p = (uint32_t)c[0] | (uint32_t)c[1] << 8 | (uint32_t)c[2] << 16 | (uint32_t)c[3] << 24;
      });
      block = px;
      if (a == "writePPM") rkcommon::utility::writePPM(path, w, h, px);
      else rkcommon::utility::writePGM(path, w, h, px);
    } else if (a == "writePFM_float") {
      float *px = makeImage<float>(arg, 1, [](float &p, const std::vector<long long> &c) { p = codeToFloat(c[0]); });
      block = px;
      rkcommon::utility::writePFM<float>(path, w, h, px);
    } else if (a == "writePFM_vec3f") {
      vec3f *px = makeImage<vec3f>(arg, 3, [](vec3f &p, const std::vector<long long> &c) {
        p.x = codeToFloat(c[0]); p.y = codeToFloat(c[1]); p.z = codeToFloat(c[2]);
      });
      block = px;
      rkcommon::utility::writePFM<vec3f>(path, w, h, px);
    } else if (a == "writePFM_vec3fa") {
      static_assert(sizeof(vec3fa) == 4 * sizeof(float), "vec3fa is three floats and one float of padding");
      vec3fa *px = makeImage<vec3fa>(arg, 4, [](vec3fa &p, const std::vector<long long> &c) {
        float f[4] = {codeToFloat(c[0]), codeToFloat(c[1]), codeToFloat(c[2]), codeToFloat(c[3])};
        memcpy((void *)&p, f, sizeof f);     // the padding float carries a code of its own
      });
      block = px;
      rkcommon::utility::writePFM<vec3fa>(path, w, h, px);
    } else if (a == "writePFM_vec4f") {
      vec4f *px = makeImage<vec4f>(arg, 4, [](vec4f &p, const std::vector<long long> &c) {
        p.x = codeToFloat(c[0]); p.y = codeToFloat(c[1]); p.z = codeToFloat(c[2]); p.w = codeToFloat(c[3]);
      });
      block = px;
      rkcommon::utility::writePFM<vec4f>(path, w, h, px);
    } else {
      o.set("decodable", false);
      o.set("why", "unknown action " + a);
      return o;
    }
    free(block);
    Decoded d = decodeFile(path);
    unlink(path.c_str());
    o.set("decodable", d.ok);
    if (!d.ok) o.set("why", d.why);
    o.set("magic", d.magic);
    o.set("width", d.width);
    o.set("height", d.height);
    if (d.magic == "P5" || d.magic == "P6") {
      long long mv = -1;
      if (parseDim(d.third, mv)) o.set("maxval", mv);
      else o.set("maxval", d.third);
    } else {
      o.set("scale", d.third);
    }
    if (d.ok && arg.has("pat")) {
      // sampled positions + per-row aggregates instead of the whole matrix
      Json smp = Json::array();
      const Json &rows = arg["rows"], &cols = arg["cols"];
      for (size_t i = 0; i < rows.size(); ++i) {
        Json r = Json::array();
        for (size_t j = 0; j < cols.size(); ++j) {
          const long long y = rows[i].num(), x = cols[j].num();
          if (y < 0 || y >= d.height || x < 0 || x >= d.width) r.push(Json("outside the decoded image"));
          else r.push(d.pix[(size_t)y][(size_t)x]);
        }
        smp.push(r);
      }
      o.set("samples", smp);
      Json rs = Json::array(), rws = Json::array();
      for (long long y = 0; y < d.height; ++y) {
        long long s1 = 0, s2 = 0, i = 0;
        bool ints = true;
        const Json &row = d.pix[(size_t)y];
        for (size_t x = 0; x < row.size(); ++x)
          for (size_t c = 0; c < row[x].size(); ++c, ++i) {
            const Json &v = row[x][c];
            if (v.type != Json::Int || v.i < 0 || v.i > 65535) { ints = false; continue; }
            s1 = (s1 + v.i) % 65521;
            s2 = (s2 + ((i % 251) + 1) * v.i) % 65521;
          }
        rs.push(Json(ints ? s1 : -1LL));
        rws.push(Json(ints ? s2 : -1LL));
      }
      o.set("rowsum", rs);
      o.set("rowwsum", rws);
      Json sp = Json::array();
      const Json &spots = arg["spots"];
      for (size_t i = 0; i < spots.size(); ++i) {
        Json e = Json::array();
        e.push(spots[i][0]); e.push(spots[i][1]); e.push(spots[i][2]);
        e.push(Json(pix(arg["pat"].num(), spots[i][0].num(), spots[i][1].num(), spots[i][2].num())));
        sp.push(e);
      }
      o.set("spots", sp);
      o.set("trailing_bytes", d.trailing);
    } else if (d.ok) {
      o.set("pix", d.pix);
      o.set("trailing_bytes", d.trailing);
    }
    return o;
  }
};

int main(int argc, char **argv)
{
  return vdrv::run<World>(argc, argv);
}
