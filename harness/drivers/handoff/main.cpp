// Conformance driver for the HandOff contract (property C12):
// rkcommon::containers::TransactionalBuffer<T> and rkcommon::utility::TransactionalValue<T>.
//
// The driver never decides anything.  It runs scenarios on the REAL objects and
// reports every call it made as a record with an invocation stamp and a response
// stamp taken from ONE global atomic counter (never a clock).  The orchestrator
// merges the records by stamp and TLC (spec/containers/HandOffTrace.tla) searches
// for a linearisation that explains every observed result.
//
//   drv_handoff --in scenarios.ndjson --out obs.ndjson [--nostamp]
//
// scenario line (one of):
//   {"id":n,"kind":"conc","obj":"buf","payload":"int"|"str","P":4,"K":4,"M":10,"pj":300,"cj":300,"seed":s}
//        P producer threads push K elements <<p,1..K>> each while one consumer thread makes
//        up to M calls of consume()/size()/empty(); after joining everything: one more consume().
//   {"id":n,"kind":"conc","obj":"val","payload":"int"|"str","N":8,"M":12,"pj":..,"cj":..,"ctor":"value"|"default","seed":s}
//        one producer thread assigns 1..N, one consumer thread makes up to M update()+get() rounds;
//        after joining both: one more update()+get().
//   {"id":n,"kind":"seq","obj":"buf"|"val","payload":..,"h":[{"a":"Push","arg":{"p":1}},{"a":"Consume"},{"a":"Size"},
//        {"a":"Empty"} | {"a":"Assign"},{"a":"Update"},{"a":"Get"}]}
//        the calls of a TLC-generated history made one after the other by a single thread, then the
//        same final call(s).
//        steps {"a":"Burst","arg":{"n":256}} / {"a":"BurstPush","arg":{"p":1,"n":256}}: n real calls, logged as ONE
//        record {"op":"burst"|"bpush","first":..,"n":..} whose window spans all of them.
//   {"id":n,"kind":"burst",...}: concurrent scenario with long bursts between two consumer polls (see burstVal / burstBuf)
// output line: {"id":n,"calls":[{"t":thread,"op":..,"inv":stamp,"res":stamp, arguments, results}, ...]}
//              {"id":n,"timeout":true}   (watchdog; the process then exits with code 94)
//
// Only std::thread / std::atomic are used for the harness threads, so a
// ThreadSanitizer build of this driver sees every synchronisation.  With --nostamp the
// global counter is not touched (all stamps 0): the stamps are atomic read-modify-write
// operations and would add happens-before edges between the threads that are not part of
// the code under test; the ThreadSanitizer instance runs without them.
#include <fcntl.h>
#include <signal.h>
#include <unistd.h>
#include <atomic>
#include <cstdint>
#include <cstdio>
#include <cstdlib>
#include <fstream>
#include <memory>
#include <type_traits>
#include <random>
#include <string>
#include <thread>
#include <vector>
#include "json.h"
#include "rkcommon/containers/TransactionalBuffer.h"
#include "rkcommon/utility/TransactionalValue.h"

using vj::Json;

// ---------------------------------------------------------------------------
// stamps
static std::atomic<uint64_t> g_clock{1};
static bool g_stamp = true;  // written before any thread is started
static inline uint64_t stamp()
{
  return g_stamp ? g_clock.fetch_add(1, std::memory_order_seq_cst) : 0;
}

// ---------------------------------------------------------------------------
// payloads: an element is <<producer, seq>>, a value is an integer index; both are mapped injectively to
//   "int"  IntElem (8 bytes) / int (word-sized; signs alternate)          trivially copyable
//   "str"  std::string: short (small-string buffer), 40+ and 300+ characters (heap), with NUL and >= 0x80 bytes
//   "w24"  three 64-bit words = 24 bytes (wider than a word, not a power of two), self-checking
//   "oa"   64 bytes, alignas(64), self-checking                           (TransactionalValue only)
//   "uptr" std::unique_ptr<IntElem>: move-only                             (TransactionalBuffer only, rvalue push_back)
//   "thr"  heap-owning, copy constructor / copy assignment throw when the calling thread armed the fuse
// Decoding re-encodes and compares: anything that is not exactly an encoded value is reported as -1.
struct IntElem
{
  int p;
  int s;
};

struct W24
{
  int64_t a, b, c;
  bool operator==(const W24 &o) const { return a == o.a && b == o.b && c == o.c; }
};
static_assert(sizeof(W24) == 24, "W24 must be 24 bytes");

struct alignas(64) OA64
{
  int v;
  int pad[14];
  int w;
  bool operator==(const OA64 &o) const { return v == o.v && w == o.w; }
};
static_assert(sizeof(OA64) == 64 && alignof(OA64) == 64, "OA64 must be 64 bytes, 64-aligned");

static thread_local int g_fuse = 0;  // > 0: the next copy of a Thr made by this thread throws
struct CopyFailed {};
struct Thr
{
  std::string s;
  Thr() {}
  explicit Thr(const std::string &x) : s(x) {}
  static const std::string &src(const std::string &x)
  {
    if (g_fuse > 0) { g_fuse = 0; throw CopyFailed(); }
    return x;
  }
  Thr(const Thr &o) : s(src(o.s)) {}
  Thr(Thr &&o) noexcept : s(std::move(o.s)) {}
  Thr &operator=(const Thr &o)
  {
    if (g_fuse > 0) { g_fuse = 0; throw CopyFailed(); }  // before anything is modified
    s = o.s;
    return *this;
  }
  Thr &operator=(Thr &&o) noexcept { s = std::move(o.s); return *this; }
  bool operator==(const Thr &o) const { return s == o.s; }
};

typedef std::unique_ptr<IntElem> UPtr;

// string content classes (k = 0..3): small-string, heap, heap with NUL / high bytes (also first-after-prefix and last
// position), long
static std::string strBody(const std::string &head, int k)
{
  switch (k & 3) {
  case 0: return head;
  case 1: return head + std::string(40, '#');
  case 2: return head + std::string("\0\xff\x80\x01\x7f", 5) + std::string(30, '~') + std::string("\xfe\0", 2);
  default: return head + std::string(300, 'x');
  }
}

template <typename T>
struct Codec;

template <>
struct Codec<IntElem>
{
  static const bool copyable = true;
  static IntElem elem(int p, int s) { IntElem e; e.p = p; e.s = s; return e; }
  static void unelem(const IntElem &e, int &p, int &s) { p = e.p; s = e.s; }
};

template <>
struct Codec<int>
{
  // value index v -> v (odd) / -v (even): negative values are ordinary values
  static int value(int v) { return (v & 1) ? v : -v; }
  static long unvalue(const int &x)
  {
    if (x == 0) return 0;
    if (x > 0) return (x & 1) ? x : -1;
    return ((-x) & 1) ? -1 : -(long)x;
  }
};

template <>
struct Codec<std::string>
{
  static const bool copyable = true;
  static std::string elem(int p, int s) { return strBody("e:" + std::to_string(p) + ":" + std::to_string(s) + ":", p + s); }
  static void unelem(const std::string &e, int &p, int &s)
  {
    int pp = -1, ss = -1;
    if (sscanf(e.c_str(), "e:%d:%d:", &pp, &ss) == 2 && elem(pp, ss) == e) { p = pp; s = ss; }
    else { p = -1; s = -1; }
  }
  static std::string value(int v) { return strBody("v:" + std::to_string(v) + ":", v); }
  static long unvalue(const std::string &e)
  {
    int vv = -1;
    if (sscanf(e.c_str(), "v:%d:", &vv) == 1 && vv >= 0 && value(vv) == e) return vv;
    return -1;  // not a value anybody assigned (e.g. a moved-from or truncated string)
  }
};

template <>
struct Codec<W24>
{
  static const bool copyable = true;
  static W24 mk(int64_t a, int64_t b) { W24 w; w.a = a; w.b = b; w.c = (a * 1000003) ^ (b * 7919) ^ 0x5a5a5a5a5a5a5a5aLL; return w; }
  static W24 elem(int p, int s) { return mk(p, s); }
  static void unelem(const W24 &e, int &p, int &s)
  {
    if (mk(e.a, e.b) == e) { p = (int)e.a; s = (int)e.b; } else { p = -1; s = -1; }
  }
  static W24 value(int v) { return mk(v, ~(int64_t)v); }
  static long unvalue(const W24 &e) { return (mk(e.a, e.b) == e && e.b == ~e.a && e.a >= 0) ? (long)e.a : -1; }
};

template <>
struct Codec<OA64>
{
  static OA64 value(int v)
  {
    OA64 o;
    o.v = v;
    for (int i = 0; i < 14; ++i) o.pad[i] = v * 31 + i;
    o.w = ~v;
    return o;
  }
  static long unvalue(const OA64 &e)
  {
    if (e.w != ~e.v || e.v < 0) return -1;
    for (int i = 0; i < 14; ++i) if (e.pad[i] != e.v * 31 + i) return -1;
    return e.v;
  }
};

template <>
struct Codec<Thr>
{
  static const bool copyable = true;
  static Thr elem(int p, int s) { return Thr(Codec<std::string>::elem(p, s)); }
  static void unelem(const Thr &e, int &p, int &s) { Codec<std::string>::unelem(e.s, p, s); }
  static Thr value(int v) { return Thr(Codec<std::string>::value(v)); }
  static long unvalue(const Thr &e) { return Codec<std::string>::unvalue(e.s); }
};

template <>
struct Codec<UPtr>
{
  static const bool copyable = false;
  static UPtr elem(int p, int s) { UPtr u(new IntElem); u->p = p; u->s = s; return u; }
  static void unelem(const UPtr &e, int &p, int &s)
  {
    if (e) { p = e->p; s = e->s; } else { p = -1; s = -1; }
  }
};

// push_back(const T&) only exists for copyable payloads; move-only ones always take the rvalue overload
template <typename T>
static void pushOne(rkcommon::containers::TransactionalBuffer<T> &buf, T &x, bool mv, std::true_type)
{
  if (mv) buf.push_back(std::move(x)); else buf.push_back(x);
}
template <typename T>
static void pushOne(rkcommon::containers::TransactionalBuffer<T> &buf, T &x, bool, std::false_type)
{
  buf.push_back(std::move(x));
}
template <typename T>
static void pushOne(rkcommon::containers::TransactionalBuffer<T> &buf, T &x, bool mv)
{
  pushOne(buf, x, mv, std::integral_constant<bool, Codec<T>::copyable>());
}

// assignment through a second OtherType where the payload has one (operator= is a template over OtherType):
// int from long, std::string from const char* (only for contents without NUL bytes)
template <typename T>
static void assignOne(rkcommon::utility::TransactionalValue<T> &tv, const T &x, int) { tv = x; }
static void assignOne(rkcommon::utility::TransactionalValue<int> &tv, const int &x, int v)
{
  if (v % 3 == 0) { long y = x; tv = y; } else tv = x;
}
static void assignOne(rkcommon::utility::TransactionalValue<std::string> &tv, const std::string &x, int v)
{
  if (v % 3 == 0 && x.find('\0') == std::string::npos) tv = x.c_str(); else tv = x;
}

// ---------------------------------------------------------------------------
// call records (per-thread logs, no sharing)
enum Op { PUSH, CONSUME, SIZE, EMPTY, ASSIGN, UPDATE, GET, BPUSH, BURST, PUSHX, ASSIGNX, SIZES, EMPTIES };
static const char *opName[] = {"push", "consume", "size", "empty", "assign", "update", "get", "bpush", "burst", "pushx", "assignx", "sizes", "empties"};

struct Call
{
  int t = 0;
  Op op = PUSH;
  uint64_t inv = 0, res = 0;
  int p = 0, s = 0;       // push
  bool mv = false;        // push: rvalue overload
  std::vector<std::pair<int, int>> batch;
  long n = 0;             // size
  bool b = false;         // empty / update
  long v = 0;             // assign / get
  bool viaRef = false;    // get through ref()
  bool threw = false;     // pushx / assignx: the call ended with the payload's exception
  int o = 0;              // object number (histories over several objects)
  long cnt = 0;           // sizes / empties: number of consecutive calls of one thread that returned the same result
};

static Json toJson(const Call &c)
{
  Json j = Json::object();
  j.set("t", c.t);
  if (c.o) j.set("o", c.o);
  j.set("op", opName[c.op]);
  j.set("inv", (unsigned long long)c.inv);
  j.set("res", (unsigned long long)c.res);
  switch (c.op) {
  case PUSHX:
  case PUSH: {
    if (c.op == PUSHX) j.set("threw", c.threw);
    Json v = Json::array();
    v.push(c.p); v.push(c.s);
    j.set("v", v);
    j.set("mv", c.mv);
    break;
  }
  case CONSUME: {
    if (c.batch.size() <= 64) {
      Json b = Json::array();
      for (auto &e : c.batch) { Json v = Json::array(); v.push(e.first); v.push(e.second); b.push(v); }
      j.set("batch", b);
    } else {
      // long batches are written as runs [p, s_lo, s_hi] = elements <<p,s_lo>>, <<p,s_lo+1>>, ..., <<p,s_hi>> in this
      // order (lossless run-length form of the same sequence; a single element is a run of length one)
      Json rs = Json::array();
      size_t i = 0;
      while (i < c.batch.size()) {
        size_t k = i;
        while (k + 1 < c.batch.size() && c.batch[k + 1].first == c.batch[i].first && c.batch[k + 1].second == c.batch[k].second + 1) ++k;
        Json r = Json::array();
        r.push(c.batch[i].first); r.push(c.batch[i].second); r.push(c.batch[k].second);
        rs.push(r);
        i = k + 1;
      }
      j.set("runs", rs);
    }
    break;
  }
  case SIZE: j.set("n", c.n); break;
  case EMPTY: j.set("b", c.b); break;
  case ASSIGN: j.set("v", c.v); break;
  case ASSIGNX: j.set("v", c.v); j.set("threw", c.threw); break;
  case UPDATE: j.set("ret", c.b); break;
  case GET: j.set("v", c.v); j.set("ref", c.viaRef); break;
  case BPUSH: j.set("p", c.p); j.set("first", c.s); j.set("n", c.n); break;   // n push_backs of <<p,first>>, <<p,first+1>>, ...
  case BURST: j.set("first", c.v); j.set("n", c.n); break;                    // n assignments of first, first+1, ...
  case SIZES: j.set("n", c.n); j.set("cnt", c.cnt); break;                    // cnt consecutive size() calls, every one returned n
  case EMPTIES: j.set("b", c.b); j.set("cnt", c.cnt); break;                  // cnt consecutive empty() calls, every one returned b
  }
  return j;
}

typedef std::vector<Call> Log;

static inline void jitter(std::mt19937 &r, int maxSpin)
{
  // seeded diversification of the interleaving only; nothing is assumed about its effect
  if (maxSpin <= 0) return;
  int n = (int)(r() % (unsigned)(maxSpin + 1));
  for (volatile int i = 0; i < n; ++i) {}
  if ((r() & 31u) == 0) std::this_thread::yield();
}

// ---------------------------------------------------------------------------
// the calls themselves (each logs one record)
template <typename T>
static void doPush(rkcommon::containers::TransactionalBuffer<T> &buf, Log &log, int t, int p, int s, bool mv)
{
  Call c; c.t = t; c.op = PUSH; c.p = p; c.s = s; c.mv = mv;
  T x = Codec<T>::elem(p, s);
  c.inv = stamp();
  pushOne(buf, x, mv);
  c.res = stamp();
  log.push_back(c);
}

// push_back(const T&) / operator= whose copy of the payload throws (the calling thread arms the fuse)
template <typename T>
static void doPushThrow(rkcommon::containers::TransactionalBuffer<T> &buf, Log &log, int t, int p, int s)
{
  Call c; c.t = t; c.op = PUSHX; c.p = p; c.s = s;
  T x = Codec<T>::elem(p, s);
  g_fuse = 1;
  c.inv = stamp();
  try { buf.push_back(x); } catch (const CopyFailed &) { c.threw = true; }
  c.res = stamp();
  g_fuse = 0;
  log.push_back(c);
}

template <typename T>
static void doAssignThrow(rkcommon::utility::TransactionalValue<T> &tv, Log &log, int t, int v)
{
  Call c; c.t = t; c.op = ASSIGNX; c.v = v;
  T x = Codec<T>::value(v);
  g_fuse = 1;
  c.inv = stamp();
  try { tv = x; } catch (const CopyFailed &) { c.threw = true; }
  c.res = stamp();
  g_fuse = 0;
  log.push_back(c);
}

template <typename T>
static void doConsume(rkcommon::containers::TransactionalBuffer<T> &buf, Log &log, int t)
{
  Call c; c.t = t; c.op = CONSUME;
  c.inv = stamp();
  std::vector<T> batch = buf.consume();
  c.res = stamp();
  for (auto &e : batch) { int p, s; Codec<T>::unelem(e, p, s); c.batch.push_back(std::make_pair(p, s)); }
  log.push_back(c);
}

template <typename T>
static void doSize(rkcommon::containers::TransactionalBuffer<T> &buf, Log &log, int t)
{
  Call c; c.t = t; c.op = SIZE;
  c.inv = stamp();
  size_t n = buf.size();
  c.res = stamp();
  c.n = (long)n;
  log.push_back(c);
}

template <typename T>
static void doEmpty(rkcommon::containers::TransactionalBuffer<T> &buf, Log &log, int t)
{
  Call c; c.t = t; c.op = EMPTY;
  c.inv = stamp();
  bool b = buf.empty();
  c.res = stamp();
  c.b = b;
  log.push_back(c);
}

template <typename T>
static void doAssign(rkcommon::utility::TransactionalValue<T> &tv, Log &log, int t, int v)
{
  Call c; c.t = t; c.op = ASSIGN; c.v = v;
  T x = Codec<T>::value(v);
  c.inv = stamp();
  assignOne(tv, x, v);
  c.res = stamp();
  log.push_back(c);
}

template <typename T>
static bool doUpdate(rkcommon::utility::TransactionalValue<T> &tv, Log &log, int t)
{
  Call c; c.t = t; c.op = UPDATE;
  c.inv = stamp();
  bool r = tv.update();
  c.res = stamp();
  c.b = r;
  log.push_back(c);
  return r;
}

template <typename T>
static void doGet(rkcommon::utility::TransactionalValue<T> &tv, Log &log, int t, bool viaRef)
{
  Call c; c.t = t; c.op = GET; c.viaRef = viaRef;
  c.inv = stamp();
  T x = viaRef ? tv.ref() : tv.get();
  c.res = stamp();
  c.v = Codec<T>::unvalue(x);
  log.push_back(c);
}

// A burst: n real calls by one thread, logged as ONE record whose window spans all of them
// (invocation stamp before the first call, response stamp after the last).
template <typename T>
static void doBurstPush(rkcommon::containers::TransactionalBuffer<T> &buf, Log &log, int t, int p, int first, long n)
{
  Call c; c.t = t; c.op = BPUSH; c.p = p; c.s = first; c.n = n;
  c.inv = stamp();
  for (long i = 0; i < n; ++i) {
    T x = Codec<T>::elem(p, first + (int)i);
    pushOne(buf, x, (i & 1) != 0);
  }
  c.res = stamp();
  log.push_back(c);
}

template <typename T>
static void doBurstAssign(rkcommon::utility::TransactionalValue<T> &tv, Log &log, int t, int first, long n)
{
  Call c; c.t = t; c.op = BURST; c.v = first; c.n = n;
  c.inv = stamp();
  for (long i = 0; i < n; ++i) {
    T x = Codec<T>::value(first + (int)i);
    tv = x;
  }
  c.res = stamp();
  log.push_back(c);
}

static Json dumpLogs(const std::vector<Log> &logs)
{
  Json a = Json::array();
  for (auto &l : logs) for (auto &c : l) a.push(toJson(c));
  return a;
}

// ---------------------------------------------------------------------------
// concurrent scenarios
// start barrier: "spin": busy-wait (the threads leave it within a few cycles of each other), else yield
static inline void awaitGo(std::atomic<bool> &go, bool spin)
{
  if (spin) {
    long n = 0;
    while (!go.load()) { if (++n > 20000000L) std::this_thread::yield(); }
  } else {
    while (!go.load()) std::this_thread::yield();
  }
}

template <typename T>
static Json concBuf(const Json &sc)
{
  const int P = (int)sc["P"].num(), K = (int)sc["K"].num(), M = (int)sc["M"].num();
  const int pj = (int)sc["pj"].num(), cj = (int)sc["cj"].num();
  const unsigned seed = (unsigned)sc["seed"].num();
  const bool spin = sc["spin"].boolean();
  const int pre = (int)sc["pre"].num();   // start state: producer 1 has already pushed `pre` elements (1, or size == capacity)
  rkcommon::containers::TransactionalBuffer<T> buf;
  std::vector<Log> logs(P + 3);
  std::atomic<int> ready{0};
  std::atomic<bool> go{false};
  std::vector<std::thread> th;
  for (int s = 1; s <= pre; ++s) doPush(buf, logs[P + 2], 1, 1, s, (s & 1) != 0);
  for (int p = 1; p <= P; ++p) {
    th.emplace_back([&, p]() {
      std::mt19937 r(seed * 7919u + (unsigned)p);
      Log &log = logs[p];
      log.reserve(K);
      ready.fetch_add(1);
      awaitGo(go, spin);
      const int first = (p == 1 ? pre : 0) + 1;
      for (int s = first; s < first + K; ++s) {
        jitter(r, pj);
        doPush(buf, log, p, p, s, (r() & 1u) != 0);
      }
    });
  }
  std::thread cons([&]() {
    std::mt19937 r(seed * 7919u);
    Log &log = logs[0];
    log.reserve(M);
    ready.fetch_add(1);
    awaitGo(go, spin);
    for (int m = 0; m < M; ++m) {
      jitter(r, cj);
      unsigned x = r() % 10u;
      if (x < 5) doConsume(buf, log, 0);
      else if (x < 8) doSize(buf, log, 0);
      else doEmpty(buf, log, 0);
    }
  });
  while (ready.load() < P + 1) std::this_thread::yield();
  go.store(true);
  for (auto &t : th) t.join();
  cons.join();
  // every producer has stopped: the final consume() (plus size()/empty() of the drained buffer)
  Log &fin = logs[P + 1];
  doConsume(buf, fin, 0);
  doSize(buf, fin, 0);
  doEmpty(buf, fin, 0);
  return dumpLogs(logs);
}

template <typename T>
static Json concVal(const Json &sc)
{
  const int N = (int)sc["N"].num(), M = (int)sc["M"].num();
  const int pj = (int)sc["pj"].num(), cj = (int)sc["cj"].num();
  const unsigned seed = (unsigned)sc["seed"].num();
  const bool defaultCtor = sc["ctor"].str() == "default";
  const bool spin = sc["spin"].boolean();
  const int pre = (int)sc["pre"].num();   // start state: 0 fresh, 1 one value assigned and pending, 2 assigned and installed (consumer caught up)
  typedef rkcommon::utility::TransactionalValue<T> TV;
  // "value": constructed from the initial value 0; "default": default-constructed, and the
  // consumer does not read the (unspecified) content before the first successful update()
  TV tvDefault;
  TV tvValue(Codec<T>::value(0));
  TV &tv = defaultCtor ? tvDefault : tvValue;
  std::vector<Log> logs(4);
  std::atomic<int> ready{0};
  std::atomic<bool> go{false};
  std::atomic<bool> pdone{false};
  bool readable = !defaultCtor;  // consumer-side only
  int first = 1;
  if (pre >= 1) { doAssign(tv, logs[3], 1, 1); first = 2; }
  if (pre >= 2) { if (doUpdate(tv, logs[3], 0)) readable = true; if (readable) doGet(tv, logs[3], 0, false); }
  std::thread prod([&]() {
    std::mt19937 r(seed * 7919u + 1u);
    Log &log = logs[1];
    log.reserve(N);
    ready.fetch_add(1);
    awaitGo(go, spin);
    for (int v = first; v < first + N; ++v) {
      jitter(r, pj);
      doAssign(tv, log, 1, v);
    }
    pdone.store(true);
  });
  std::thread cons([&]() {
    std::mt19937 r(seed * 7919u);
    Log &log = logs[0];
    log.reserve(2 * M);
    ready.fetch_add(1);
    awaitGo(go, spin);
    for (int m = 0; m < M; ++m) {
      jitter(r, cj);
      if (doUpdate(tv, log, 0)) readable = true;
      if (readable) doGet(tv, log, 0, (r() & 3u) == 0);
      if (pdone.load() && (r() & 1u)) break;
    }
  });
  while (ready.load() < 2) std::this_thread::yield();
  go.store(true);
  prod.join();
  cons.join();
  // the producer has stopped: one more update(), then get()
  Log &fin = logs[2];
  if (doUpdate(tv, fin, 0)) readable = true;
  if (readable) doGet(tv, fin, 0, false);
  return dumpLogs(logs);
}

// ---------------------------------------------------------------------------
// concurrent scenarios with long bursts between two consumer polls
//   {"kind":"burst","obj":"val"|"buf","payload":..,"phases":[{"a":3},{"b":256,"wait":true},...],"M":10,"P":1|2,"K":4,..}
// The (first) producer thread runs the phases: {"a":k} = k single calls, each logged; {"b":n,"wait":w} = a burst of
// n calls logged as one record.  Before a burst the producer asks the consumer thread to pause and waits for the
// acknowledgement, after it it releases the consumer (generation counters, no sleeping): no consumer call overlaps
// the burst.  With "wait" the producer then makes no further call until the consumer has completed one more poll
// round (update()+get(), resp. size()+consume()+empty()) - the producer "stops at the boundary" for that poll.
struct BurstCtl
{
  std::atomic<long> reqGen{0}, ackGen{0}, relGen{0}, polls{0}, pollTarget{0};
  std::atomic<bool> pdone{false}, go{false};
  std::atomic<int> ready{0};
};

static inline void consumerPausePoint(BurstCtl &ctl)
{
  long g = ctl.reqGen.load();
  if (g != ctl.relGen.load()) {
    ctl.ackGen.store(g);
    while (ctl.relGen.load() != g) std::this_thread::yield();
  }
}

template <typename BURST, typename SINGLE>
static void runPhases(const Json &phases, BurstCtl &ctl, std::mt19937 &r, int pj, BURST burst, SINGLE single)
{
  for (size_t i = 0; i < phases.size(); ++i) {
    const Json &ph = phases[i];
    if (ph.has("a")) {
      long k = (long)ph["a"].num();
      for (long j = 0; j < k; ++j) { jitter(r, pj); single(); }
    } else {
      long n = (long)ph["b"].num();
      long g = ctl.reqGen.fetch_add(1) + 1;
      while (ctl.ackGen.load() != g) std::this_thread::yield();     // the consumer is between two calls and stays there
      long target = ctl.polls.load() + 1;
      burst(n);
      const bool wait = ph["wait"].boolean();
      if (wait) ctl.pollTarget.store(target);   // exactly one more poll round is asked for
      ctl.relGen.store(g);
      if (wait) {
        while (ctl.polls.load() < target) std::this_thread::yield();
      }
    }
  }
}

template <typename T>
static Json burstVal(const Json &sc)
{
  const int M = (int)sc["M"].num(), pj = (int)sc["pj"].num(), cj = (int)sc["cj"].num();
  const unsigned seed = (unsigned)sc["seed"].num();
  typedef rkcommon::utility::TransactionalValue<T> TV;
  TV tv(Codec<T>::value(0));
  std::vector<Log> logs(3);
  BurstCtl ctl;
  std::thread prod([&]() {
    std::mt19937 r(seed * 7919u + 1u);
    Log &log = logs[1];
    int next = 0;
    ctl.ready.fetch_add(1);
    while (!ctl.go.load()) std::this_thread::yield();
    runPhases(sc["phases"], ctl, r, pj,
              [&](long n) { doBurstAssign(tv, log, 1, next + 1, n); next += (int)n; },
              [&]() { doAssign(tv, log, 1, ++next); });
    ctl.pdone.store(true);
  });
  std::thread cons([&]() {
    std::mt19937 r(seed * 7919u);
    Log &log = logs[0];
    int rounds = 0;
    ctl.ready.fetch_add(1);
    while (!ctl.go.load()) std::this_thread::yield();
    for (;;) {
      consumerPausePoint(ctl);
      if (ctl.pdone.load()) break;
      if (rounds < M || ctl.polls.load() < ctl.pollTarget.load()) {
        jitter(r, cj);
        doUpdate(tv, log, 0);
        doGet(tv, log, 0, (r() & 3u) == 0);
        ++rounds;
        ctl.polls.fetch_add(1);
      } else std::this_thread::yield();
    }
  });
  while (ctl.ready.load() < 2) std::this_thread::yield();
  ctl.go.store(true);
  prod.join();
  cons.join();
  Log &fin = logs[2];
  doUpdate(tv, fin, 0);
  doGet(tv, fin, 0, false);
  return dumpLogs(logs);
}

template <typename T>
static Json burstBuf(const Json &sc)
{
  const int M = (int)sc["M"].num(), pj = (int)sc["pj"].num(), cj = (int)sc["cj"].num();
  const int P = (int)sc["P"].num(), K = (int)sc["K"].num();
  const unsigned seed = (unsigned)sc["seed"].num();
  rkcommon::containers::TransactionalBuffer<T> buf;
  std::vector<Log> logs(P + 2);
  BurstCtl ctl;
  std::vector<std::thread> th;
  th.emplace_back([&]() {
    std::mt19937 r(seed * 7919u + 1u);
    Log &log = logs[1];
    int next = 0;
    ctl.ready.fetch_add(1);
    while (!ctl.go.load()) std::this_thread::yield();
    runPhases(sc["phases"], ctl, r, pj,
              [&](long n) { doBurstPush(buf, log, 1, 1, next + 1, n); next += (int)n; },
              [&]() { ++next; doPush(buf, log, 1, 1, next, (r() & 1u) != 0); });
    ctl.pdone.store(true);
  });
  for (int p = 2; p <= P; ++p) {
    th.emplace_back([&, p]() {
      std::mt19937 r(seed * 7919u + (unsigned)p);
      Log &log = logs[p];
      ctl.ready.fetch_add(1);
      while (!ctl.go.load()) std::this_thread::yield();
      for (int s = 1; s <= K; ++s) { jitter(r, pj); doPush(buf, log, p, p, s, (r() & 1u) != 0); }
    });
  }
  std::thread cons([&]() {
    std::mt19937 r(seed * 7919u);
    Log &log = logs[0];
    int rounds = 0;
    ctl.ready.fetch_add(1);
    while (!ctl.go.load()) std::this_thread::yield();
    for (;;) {
      consumerPausePoint(ctl);
      if (ctl.pdone.load()) break;
      if (rounds < M || ctl.polls.load() < ctl.pollTarget.load()) {
        jitter(r, cj);
        doSize(buf, log, 0);
        doConsume(buf, log, 0);
        doEmpty(buf, log, 0);
        ++rounds;
        ctl.polls.fetch_add(1);
      } else std::this_thread::yield();
    }
  });
  while (ctl.ready.load() < P + 1) std::this_thread::yield();
  ctl.go.store(true);
  for (auto &t : th) t.join();
  cons.join();
  Log &fin = logs[P + 1];
  doConsume(buf, fin, 0);
  doSize(buf, fin, 0);
  doEmpty(buf, fin, 0);
  return dumpLogs(logs);
}


// ---------------------------------------------------------------------------
// observers contending with observers
//   {"kind":"obs","obj":"buf","payload":..,"R":1..4,"P":0..2,"K":k,"limit":2..4,"MA":polls,"block":b,"calls":cap,"maxrec":cap,
//    "pre":n,"cj":..,"seed":s}
// R reader threads (thread ids 9..12) do nothing but call size() / empty() (blocks of `block` calls of one accessor, then the
// other), released from a busy-wait barrier together with the consumer.
//   phase A (no producer at all): `pre` elements were pushed and consumed before the threads start; the consumer polls
//            empty() / size() MA times (and calls consume() now and then) while the readers spin;
//   phase B (P > 0): the consumer releases P producers that throttle themselves with size() (back-pressure:
//            while (size() >= limit) yield; push_back) and itself runs the documented poll loop
//            if (!empty()) consume()   resp.   if (size() > 0) consume()   until every producer has returned.
// Every size() / empty() call of every thread is recorded, in lossless run-length form: consecutive calls of one thread
// to the same accessor that returned the same result are ONE record {"op":"sizes"|"empties", result, "cnt":n} whose window
// spans from the invocation stamp of the first to the response stamp of the last (each call has its own linearisation
// point inside that window; the contract's macro action BSizeRun_ / BEmptyRun_ asks for one of them).
template <typename T>
struct RunLogger
{
  rkcommon::containers::TransactionalBuffer<T> &buf;
  Log &log;
  int t;
  bool open = false;
  Call cur;
  long calls = 0;
  RunLogger(rkcommon::containers::TransactionalBuffer<T> &b, Log &l, int tt) : buf(b), log(l), t(tt) {}
  void add(Op op, long n, bool b, uint64_t inv, uint64_t res)
  {
    ++calls;
    if (open && cur.op == op && cur.n == n && cur.b == b) { cur.res = res; ++cur.cnt; return; }
    flush();
    cur = Call(); cur.t = t; cur.op = op; cur.n = n; cur.b = b; cur.inv = inv; cur.res = res; cur.cnt = 1;
    open = true;
  }
  size_t size()
  {
    uint64_t i = stamp();
    size_t n = buf.size();
    uint64_t r = stamp();
    add(SIZES, (long)n, false, i, r);
    return n;
  }
  bool empty()
  {
    uint64_t i = stamp();
    bool b = buf.empty();
    uint64_t r = stamp();
    add(EMPTIES, 0, b, i, r);
    return b;
  }
  void flush() { if (open) { log.push_back(cur); open = false; } }
};

template <typename T>
static Json obsBuf(const Json &sc)
{
  const int R = (int)sc["R"].num(), P = (int)sc["P"].num(), K = (int)sc["K"].num();
  const long limit = (long)sc["limit"].num(), MA = (long)sc["MA"].num(), block = (long)sc["block"].num();
  const long callCap = (long)sc["calls"].num();
  const size_t maxrec = (size_t)sc["maxrec"].num();
  const int pre = (int)sc["pre"].num(), cj = (int)sc["cj"].num();
  const unsigned seed = (unsigned)sc["seed"].num();
  rkcommon::containers::TransactionalBuffer<T> buf;
  std::vector<Log> logs(14);                    // 0 consumer, 1..8 producers, 9..12 readers, 13 before / after
  std::atomic<int> ready{0}, pdone{0};
  std::atomic<bool> go{false}, goProd{false}, stop{false};
  // "nothing has been pushed since the last consume() returned"
  for (int s = 1; s <= pre; ++s) doPush(buf, logs[13], 1, 1, s, (s & 1) != 0);
  if (pre > 0) doConsume(buf, logs[13], 0);
  std::vector<std::thread> readers, prods;
  for (int i = 0; i < R; ++i) {
    readers.emplace_back([&, i]() {
      RunLogger<T> rl(buf, logs[9 + i], 9 + i);
      logs[9 + i].reserve(maxrec + 2);
      ready.fetch_add(1);
      awaitGo(go, true);
      long n = 0;
      while (!stop.load(std::memory_order_relaxed) && n < callCap && logs[9 + i].size() < maxrec) {
        if (((n / block) + i) & 1) rl.size(); else rl.empty();
        ++n;
      }
      rl.flush();
    });
  }
  for (int p = 1; p <= P; ++p) {
    prods.emplace_back([&, p]() {
      std::mt19937 r(seed * 7919u + (unsigned)p);
      RunLogger<T> rl(buf, logs[p], p);
      ready.fetch_add(1);
      awaitGo(goProd, true);
      const int first = (p == 1 ? pre : 0) + 1;
      for (int s = first; s < first + K; ++s) {
        while ((long)rl.size() >= limit) std::this_thread::yield();   // back-pressure
        rl.flush();
        doPush(buf, logs[p], p, p, s, (r() & 1u) != 0);
      }
      pdone.fetch_add(1);
    });
  }
  std::thread cons([&]() {
    std::mt19937 r(seed * 7919u);
    Log &log = logs[0];
    RunLogger<T> rl(buf, log, 0);
    ready.fetch_add(1);
    awaitGo(go, true);
    // phase A: no producer exists yet
    for (long m = 0; m < MA; ++m) {
      if ((m / block) & 1) rl.size(); else rl.empty();
      if (m % 1024 == 1023 && (r() & 3u) == 0) { rl.flush(); doConsume(buf, log, 0); }
    }
    rl.flush();
    // phase B: the documented poll loop, producers throttled by size()
    if (P > 0) {
      goProd.store(true);
      long round = 0;
      while (pdone.load() < P) {
        jitter(r, cj);
        bool some = (round & 1) ? rl.size() > 0 : !rl.empty();
        if (some) { rl.flush(); doConsume(buf, log, 0); ++round; }
      }
      rl.flush();
    }
    stop.store(true);
  });
  while (ready.load() < R + P + 1) std::this_thread::yield();
  go.store(true);
  cons.join();
  for (auto &t : prods) t.join();
  for (auto &t : readers) t.join();
  Log &fin = logs[13];
  doConsume(buf, fin, 0);
  doSize(buf, fin, 0);
  doEmpty(buf, fin, 0);
  return dumpLogs(logs);
}

// ---------------------------------------------------------------------------
// sequential histories generated by TLC
// Steps may name an object ("o": 0, 1, ...): histories over several instances used by one thread, interleaved.
// Every object gets its own closing calls; the orchestrator validates each object's calls as one execution.
template <typename T>
static void seqBufThrow(rkcommon::containers::TransactionalBuffer<T> &buf, Log &log, int p, int s, std::true_type) { doPushThrow(buf, log, p, p, s); }
template <typename T>
static void seqBufThrow(rkcommon::containers::TransactionalBuffer<T> &, Log &, int, int, std::false_type) {}

template <typename T>
static Json seqBuf(const Json &sc)
{
  const int nobj = sc.has("objs") ? (int)sc["objs"].num() : 1;
  std::vector<std::unique_ptr<rkcommon::containers::TransactionalBuffer<T>>> bufs;
  for (int i = 0; i < nobj; ++i) bufs.emplace_back(new rkcommon::containers::TransactionalBuffer<T>());
  std::vector<Log> logs(1);
  Log &log = logs[0];
  std::vector<std::vector<int>> next(nobj, std::vector<int>(16, 0));
  const Json &h = sc["h"];
  for (size_t i = 0; i < h.size(); ++i) {
    const std::string &a = h[i]["a"].str();
    const Json &arg = h[i]["arg"];
    const int o = arg.has("o") ? (int)arg["o"].num() : 0;
    rkcommon::containers::TransactionalBuffer<T> &buf = *bufs[o];
    const size_t k0 = log.size();
    if (a == "Push") {
      int p = (int)arg["p"].num();
      doPush(buf, log, p, p, ++next[o][p & 15], arg["mv"].boolean());
    } else if (a == "PushThrow") {
      // the copy of the element throws inside push_back(const T&); the sequence number is not reused
      int p = (int)arg["p"].num();
      seqBufThrow(buf, log, p, ++next[o][p & 15], std::is_same<T, Thr>());
    } else if (a == "BurstPush") {
      int p = (int)arg["p"].num();
      long n = (long)arg["n"].num();
      doBurstPush(buf, log, p, p, next[o][p & 15] + 1, n);
      next[o][p & 15] += (int)n;
    } else if (a == "Consume") doConsume(buf, log, 0);
    else if (a == "Size") doSize(buf, log, 0);
    else if (a == "Empty") doEmpty(buf, log, 0);
    for (size_t k = k0; k < log.size(); ++k) log[k].o = o;
  }
  for (int o = 0; o < nobj; ++o) {
    const size_t k0 = log.size();
    doConsume(*bufs[o], log, 0);
    doSize(*bufs[o], log, 0);
    doEmpty(*bufs[o], log, 0);
    for (size_t k = k0; k < log.size(); ++k) log[k].o = o;
  }
  return dumpLogs(logs);
}

template <typename T>
static void seqValThrow(rkcommon::utility::TransactionalValue<T> &tv, Log &log, int v, std::true_type) { doAssignThrow(tv, log, 1, v); }
template <typename T>
static void seqValThrow(rkcommon::utility::TransactionalValue<T> &, Log &, int, std::false_type) {}

// objects of over-aligned types on the heap (C++11 operator new ignores the alignment)
template <typename X>
struct AlignedDel
{
  void operator()(X *p) const { p->~X(); free(p); }
};
template <typename X, typename A>
static std::unique_ptr<X, AlignedDel<X>> makeAligned(const A &a)
{
  void *m = nullptr;
  if (posix_memalign(&m, alignof(X) < sizeof(void *) ? sizeof(void *) : alignof(X), sizeof(X))) abort();
  return std::unique_ptr<X, AlignedDel<X>>(new (m) X(a));
}

// tv = other (operator=(const TransactionalValue<T>&)): only instantiated in the probe build
template <typename T>
static void doAssignFrom(rkcommon::utility::TransactionalValue<T> &tv, rkcommon::utility::TransactionalValue<T> &src, Log &log, int t)
{
  Call c; c.t = t; c.op = ASSIGN;
  c.v = Codec<T>::unvalue(src.ref());   // the value the source holds: that is what the assignment queues
#ifdef HANDOFF_PROBE_TV_COPY_ASSIGN
  c.inv = stamp();
  tv = src;
  c.res = stamp();
  log.push_back(c);
#else
  (void)tv; (void)log; (void)c;
#endif
}

template <typename T>
static Json seqVal(const Json &sc)
{
  typedef rkcommon::utility::TransactionalValue<T> TV;
  const int nobj = sc.has("objs") ? (int)sc["objs"].num() : 1;
  // value indices: object o assigns 1000*o + 1, 1000*o + 2, ... (distinct over all objects); initial value 0
  std::vector<std::unique_ptr<TV, AlignedDel<TV>>> tvs;
  for (int i = 0; i < nobj; ++i) tvs.push_back(makeAligned<TV>(Codec<T>::value(0)));
  std::vector<Log> logs(1);
  Log &log = logs[0];
  std::vector<int> next(nobj, 0);
  const Json &h = sc["h"];
  for (size_t i = 0; i < h.size(); ++i) {
    const std::string &a = h[i]["a"].str();
    const Json &arg = h[i]["arg"];
    const int o = arg.has("o") ? (int)arg["o"].num() : 0;
    TV &tv = *tvs[o];
    const size_t k0 = log.size();
    if (a == "Assign") doAssign(tv, log, 1, 1000 * o + (++next[o]));
    else if (a == "AssignThrow") seqValThrow(tv, log, 1000 * o + (++next[o]), std::is_same<T, Thr>());
    else if (a == "AssignFrom") doAssignFrom(tv, *tvs[(int)arg["from"].num()], log, 1);
    else if (a == "Burst") {
      long n = (long)arg["n"].num();
      doBurstAssign(tv, log, 1, 1000 * o + next[o] + 1, n);
      next[o] += (int)n;
    }
    else if (a == "Update") doUpdate(tv, log, 0);
    else if (a == "Get") doGet(tv, log, 0, arg["ref"].boolean());
    for (size_t k = k0; k < log.size(); ++k) log[k].o = o;
  }
  for (int o = 0; o < nobj; ++o) {
    const size_t k0 = log.size();
    doUpdate(*tvs[o], log, 0);
    doGet(*tvs[o], log, 0, false);
    for (size_t k = k0; k < log.size(); ++k) log[k].o = o;
  }
  return dumpLogs(logs);
}

// ---------------------------------------------------------------------------
static int g_fd = -1;
static long long g_curId = -1;

static void emitLine(const std::string &s0)
{
  std::string s = s0 + "\n";
  size_t off = 0;
  while (off < s.size()) {
    ssize_t n = write(g_fd, s.data() + off, s.size() - off);
    if (n <= 0) _exit(3);
    off += (size_t)n;
  }
}

static void onAlarm(int)
{
  char buf[96];
  int n = snprintf(buf, sizeof buf, "{\"id\":%lld,\"timeout\":true}\n", g_curId);
  if (n > 0) { ssize_t w = write(g_fd, buf, (size_t)n); (void)w; }
  _exit(94);
}

int main(int argc, char **argv)
{
  std::string in, out;
  long timeoutS = 60;
  for (int i = 1; i < argc; ++i) {
    std::string a = argv[i];
    if (a == "--in" && i + 1 < argc) in = argv[++i];
    else if (a == "--out" && i + 1 < argc) out = argv[++i];
    else if (a == "--nostamp") g_stamp = false;
    else if (a == "--timeout-s" && i + 1 < argc) timeoutS = atol(argv[++i]);
  }
  if (in.empty() || out.empty()) {
    fprintf(stderr, "usage: %s --in scenarios.ndjson --out obs.ndjson [--nostamp]\n", argv[0]);
    return 2;
  }
  std::ifstream f(in);
  if (!f) { fprintf(stderr, "cannot read %s\n", in.c_str()); return 2; }
  g_fd = open(out.c_str(), O_WRONLY | O_CREAT | O_TRUNC | O_APPEND, 0644);
  if (g_fd < 0) { perror("open out"); return 2; }
  signal(SIGALRM, onAlarm);
  std::string line;
  while (std::getline(f, line)) {
    if (line.empty()) continue;
    Json sc = vj::parse(line);
    g_curId = sc["id"].num();
    const std::string &kind = sc["kind"].str(), &obj = sc["obj"].str();
    const std::string &pl = sc["payload"].str();
    alarm((unsigned)timeoutS);
    Json calls;
    bool known = true;
#define BUF_DISPATCH(FN)                                             \
  (pl == "int" ? FN<IntElem>(sc) : pl == "str" ? FN<std::string>(sc) : pl == "w24" ? FN<W24>(sc) \
   : pl == "uptr" ? FN<UPtr>(sc) : pl == "thr" ? FN<Thr>(sc) : (known = false, Json()))
#define VAL_DISPATCH(FN)                                             \
  (pl == "int" ? FN<int>(sc) : pl == "str" ? FN<std::string>(sc) : pl == "w24" ? FN<W24>(sc) \
   : pl == "oa" ? FN<OA64>(sc) : pl == "thr" ? FN<Thr>(sc) : (known = false, Json()))
    if (kind == "conc" && obj == "buf") calls = BUF_DISPATCH(concBuf);
    else if (kind == "conc" && obj == "val") calls = VAL_DISPATCH(concVal);
    else if (kind == "burst" && obj == "buf") calls = BUF_DISPATCH(burstBuf);
    else if (kind == "obs" && obj == "buf") calls = BUF_DISPATCH(obsBuf);
    else if (kind == "burst" && obj == "val") calls = VAL_DISPATCH(burstVal);
    else if (kind == "seq" && obj == "buf") calls = BUF_DISPATCH(seqBuf);
    else if (kind == "seq" && obj == "val") calls = VAL_DISPATCH(seqVal);
    else known = false;
    if (!known) { fprintf(stderr, "unknown scenario %s/%s/%s\n", kind.c_str(), obj.c_str(), pl.c_str()); return 2; }
    alarm(0);
    Json r = Json::object();
    r.set("id", sc["id"]);
    r.set("calls", calls);
    emitLine(r.dump());
  }
  close(g_fd);
  return 0;
}
