// Conformance driver for the HandOff contract (property C12):
// rkcommon::containers::TransactionalBuffer<T> and rkcommon::utility::TransactionalValue<T>.
//
// The driver never decides anything.  It runs scenarios on the REAL objects and
// reports every call it made as a record with an invocation stamp and a response
// stamp taken from ONE global atomic counter (never a clock).  The orchestrator
// merges the records by stamp and TLC (spec/containers/HandOffTrace.tla) searches
// for a linearisation that explains every observed result.
//
//   drv_handoff --in scenarios.ndjson --out obs.ndjson [--nostamp]
//
// scenario line (one of):
//   {"id":n,"kind":"conc","obj":"buf","payload":"int"|"str","P":4,"K":4,"M":10,"pj":300,"cj":300,"seed":s}
//        P producer threads push K elements <<p,1..K>> each while one consumer thread makes
//        up to M calls of consume()/size()/empty(); after joining everything: one more consume().
//   {"id":n,"kind":"conc","obj":"val","payload":"int"|"str","N":8,"M":12,"pj":..,"cj":..,"ctor":"value"|"default","seed":s}
//        one producer thread assigns 1..N, one consumer thread makes up to M update()+get() rounds;
//        after joining both: one more update()+get().
//   {"id":n,"kind":"seq","obj":"buf"|"val","payload":..,"h":[{"a":"Push","arg":{"p":1}},{"a":"Consume"},{"a":"Size"},
//        {"a":"Empty"} | {"a":"Assign"},{"a":"Update"},{"a":"Get"}]}
//        the calls of a TLC-generated history made one after the other by a single thread, then the
//        same final call(s).
//        steps {"a":"Burst","arg":{"n":256}} / {"a":"BurstPush","arg":{"p":1,"n":256}}: n real calls, logged as ONE
//        record {"op":"burst"|"bpush","first":..,"n":..} whose window spans all of them.
//   {"id":n,"kind":"burst",...}: concurrent scenario with long bursts between two consumer polls (see burstVal / burstBuf)
// output line: {"id":n,"calls":[{"t":thread,"op":..,"inv":stamp,"res":stamp, arguments, results}, ...]}
//              {"id":n,"timeout":true}   (watchdog; the process then exits with code 94)
//
// Only std::thread / std::atomic are used for the harness threads, so a
// ThreadSanitizer build of this driver sees every synchronisation.  With --nostamp the
// global counter is not touched (all stamps 0): the stamps are atomic read-modify-write
// operations and would add happens-before edges between the threads that are not part of
// the code under test; the ThreadSanitizer instance runs without them.
#include <fcntl.h>
#include <signal.h>
#include <unistd.h>
#include <atomic>
#include <cstdint>
#include <cstdio>
#include <cstdlib>
#include <fstream>
#include <memory>
#include <random>
#include <string>
#include <thread>
#include <vector>
#include "json.h"
#include "rkcommon/containers/TransactionalBuffer.h"
#include "rkcommon/utility/TransactionalValue.h"

using vj::Json;

// ---------------------------------------------------------------------------
// stamps
static std::atomic<uint64_t> g_clock{1};
static bool g_stamp = true;  // written before any thread is started
static inline uint64_t stamp()
{
  return g_stamp ? g_clock.fetch_add(1, std::memory_order_seq_cst) : 0;
}

// ---------------------------------------------------------------------------
// payloads: an element is <<producer, seq>>, a value is an integer; both are mapped
// injectively to a trivially copyable type and to a heap-owning std::string
struct IntElem
{
  int p;
  int s;
};

static std::string pad(const std::string &s)
{
  return s + std::string(40, '#');  // far beyond any small-string buffer: the payload owns heap memory
}

template <typename T>
struct Codec;

template <>
struct Codec<IntElem>
{
  static IntElem elem(int p, int s) { IntElem e; e.p = p; e.s = s; return e; }
  static void unelem(const IntElem &e, int &p, int &s) { p = e.p; s = e.s; }
};

template <>
struct Codec<int>
{
  static int value(int v) { return v; }
  static long unvalue(const int &v) { return v; }
};

template <>
struct Codec<std::string>
{
  static std::string elem(int p, int s) { return pad("e:" + std::to_string(p) + ":" + std::to_string(s) + ":"); }
  static void unelem(const std::string &e, int &p, int &s)
  {
    // decode and re-encode: anything that is not exactly an encoded element is reported as <<-1,-1>>
    int pp = -1, ss = -1;
    if (sscanf(e.c_str(), "e:%d:%d:", &pp, &ss) == 2 && elem(pp, ss) == e) { p = pp; s = ss; }
    else { p = -1; s = -1; }
  }
  static std::string value(int v) { return pad("v:" + std::to_string(v) + ":"); }
  static long unvalue(const std::string &e)
  {
    int vv = -1;
    if (sscanf(e.c_str(), "v:%d:", &vv) == 1 && value(vv) == e) return vv;
    return -1;  // not a value anybody assigned (e.g. a moved-from string)
  }
};

// ---------------------------------------------------------------------------
// call records (per-thread logs, no sharing)
enum Op { PUSH, CONSUME, SIZE, EMPTY, ASSIGN, UPDATE, GET, BPUSH, BURST };
static const char *opName[] = {"push", "consume", "size", "empty", "assign", "update", "get", "bpush", "burst"};

struct Call
{
  int t = 0;
  Op op = PUSH;
  uint64_t inv = 0, res = 0;
  int p = 0, s = 0;       // push
  bool mv = false;        // push: rvalue overload
  std::vector<std::pair<int, int>> batch;
  long n = 0;             // size
  bool b = false;         // empty / update
  long v = 0;             // assign / get
  bool viaRef = false;    // get through ref()
};

static Json toJson(const Call &c)
{
  Json j = Json::object();
  j.set("t", c.t);
  j.set("op", opName[c.op]);
  j.set("inv", (unsigned long long)c.inv);
  j.set("res", (unsigned long long)c.res);
  switch (c.op) {
  case PUSH: {
    Json v = Json::array();
    v.push(c.p); v.push(c.s);
    j.set("v", v);
    j.set("mv", c.mv);
    break;
  }
  case CONSUME: {
    if (c.batch.size() <= 64) {
      Json b = Json::array();
      for (auto &e : c.batch) { Json v = Json::array(); v.push(e.first); v.push(e.second); b.push(v); }
      j.set("batch", b);
    } else {
      // long batches are written as runs [p, s_lo, s_hi] = elements <<p,s_lo>>, <<p,s_lo+1>>, ..., <<p,s_hi>> in this
      // order (lossless run-length form of the same sequence; a single element is a run of length one)
      Json rs = Json::array();
      size_t i = 0;
      while (i < c.batch.size()) {
        size_t k = i;
        while (k + 1 < c.batch.size() && c.batch[k + 1].first == c.batch[i].first && c.batch[k + 1].second == c.batch[k].second + 1) ++k;
        Json r = Json::array();
        r.push(c.batch[i].first); r.push(c.batch[i].second); r.push(c.batch[k].second);
        rs.push(r);
        i = k + 1;
      }
      j.set("runs", rs);
    }
    break;
  }
  case SIZE: j.set("n", c.n); break;
  case EMPTY: j.set("b", c.b); break;
  case ASSIGN: j.set("v", c.v); break;
  case UPDATE: j.set("ret", c.b); break;
  case GET: j.set("v", c.v); j.set("ref", c.viaRef); break;
  case BPUSH: j.set("p", c.p); j.set("first", c.s); j.set("n", c.n); break;   // n push_backs of <<p,first>>, <<p,first+1>>, ...
  case BURST: j.set("first", c.v); j.set("n", c.n); break;                    // n assignments of first, first+1, ...
  }
  return j;
}

typedef std::vector<Call> Log;

static inline void jitter(std::mt19937 &r, int maxSpin)
{
  // seeded diversification of the interleaving only; nothing is assumed about its effect
  if (maxSpin <= 0) return;
  int n = (int)(r() % (unsigned)(maxSpin + 1));
  for (volatile int i = 0; i < n; ++i) {}
  if ((r() & 31u) == 0) std::this_thread::yield();
}

// ---------------------------------------------------------------------------
// the calls themselves (each logs one record)
template <typename T>
static void doPush(rkcommon::containers::TransactionalBuffer<T> &buf, Log &log, int t, int p, int s, bool mv)
{
  Call c; c.t = t; c.op = PUSH; c.p = p; c.s = s; c.mv = mv;
  T x = Codec<T>::elem(p, s);
  c.inv = stamp();
  if (mv) buf.push_back(std::move(x)); else buf.push_back(x);
  c.res = stamp();
  log.push_back(c);
}

template <typename T>
static void doConsume(rkcommon::containers::TransactionalBuffer<T> &buf, Log &log, int t)
{
  Call c; c.t = t; c.op = CONSUME;
  c.inv = stamp();
  std::vector<T> batch = buf.consume();
  c.res = stamp();
  for (auto &e : batch) { int p, s; Codec<T>::unelem(e, p, s); c.batch.push_back(std::make_pair(p, s)); }
  log.push_back(c);
}

template <typename T>
static void doSize(rkcommon::containers::TransactionalBuffer<T> &buf, Log &log, int t)
{
  Call c; c.t = t; c.op = SIZE;
  c.inv = stamp();
  size_t n = buf.size();
  c.res = stamp();
  c.n = (long)n;
  log.push_back(c);
}

template <typename T>
static void doEmpty(rkcommon::containers::TransactionalBuffer<T> &buf, Log &log, int t)
{
  Call c; c.t = t; c.op = EMPTY;
  c.inv = stamp();
  bool b = buf.empty();
  c.res = stamp();
  c.b = b;
  log.push_back(c);
}

template <typename T>
static void doAssign(rkcommon::utility::TransactionalValue<T> &tv, Log &log, int t, int v)
{
  Call c; c.t = t; c.op = ASSIGN; c.v = v;
  T x = Codec<T>::value(v);
  c.inv = stamp();
  tv = x;
  c.res = stamp();
  log.push_back(c);
}

template <typename T>
static bool doUpdate(rkcommon::utility::TransactionalValue<T> &tv, Log &log, int t)
{
  Call c; c.t = t; c.op = UPDATE;
  c.inv = stamp();
  bool r = tv.update();
  c.res = stamp();
  c.b = r;
  log.push_back(c);
  return r;
}

template <typename T>
static void doGet(rkcommon::utility::TransactionalValue<T> &tv, Log &log, int t, bool viaRef)
{
  Call c; c.t = t; c.op = GET; c.viaRef = viaRef;
  c.inv = stamp();
  T x = viaRef ? tv.ref() : tv.get();
  c.res = stamp();
  c.v = Codec<T>::unvalue(x);
  log.push_back(c);
}

// A burst: n real calls by one thread, logged as ONE record whose window spans all of them
// (invocation stamp before the first call, response stamp after the last).
template <typename T>
static void doBurstPush(rkcommon::containers::TransactionalBuffer<T> &buf, Log &log, int t, int p, int first, long n)
{
  Call c; c.t = t; c.op = BPUSH; c.p = p; c.s = first; c.n = n;
  c.inv = stamp();
  for (long i = 0; i < n; ++i) {
    T x = Codec<T>::elem(p, first + (int)i);
    if (i & 1) buf.push_back(std::move(x)); else buf.push_back(x);
  }
  c.res = stamp();
  log.push_back(c);
}

template <typename T>
static void doBurstAssign(rkcommon::utility::TransactionalValue<T> &tv, Log &log, int t, int first, long n)
{
  Call c; c.t = t; c.op = BURST; c.v = first; c.n = n;
  c.inv = stamp();
  for (long i = 0; i < n; ++i) {
    T x = Codec<T>::value(first + (int)i);
    tv = x;
  }
  c.res = stamp();
  log.push_back(c);
}

static Json dumpLogs(const std::vector<Log> &logs)
{
  Json a = Json::array();
  for (auto &l : logs) for (auto &c : l) a.push(toJson(c));
  return a;
}

// ---------------------------------------------------------------------------
// concurrent scenarios
template <typename T>
static Json concBuf(const Json &sc)
{
  const int P = (int)sc["P"].num(), K = (int)sc["K"].num(), M = (int)sc["M"].num();
  const int pj = (int)sc["pj"].num(), cj = (int)sc["cj"].num();
  const unsigned seed = (unsigned)sc["seed"].num();
  rkcommon::containers::TransactionalBuffer<T> buf;
  std::vector<Log> logs(P + 2);
  std::atomic<int> ready{0};
  std::atomic<bool> go{false};
  std::vector<std::thread> th;
  for (int p = 1; p <= P; ++p) {
    th.emplace_back([&, p]() {
      std::mt19937 r(seed * 7919u + (unsigned)p);
      Log &log = logs[p];
      log.reserve(K);
      ready.fetch_add(1);
      while (!go.load()) std::this_thread::yield();
      for (int s = 1; s <= K; ++s) {
        jitter(r, pj);
        doPush(buf, log, p, p, s, (r() & 1u) != 0);
      }
    });
  }
  std::thread cons([&]() {
    std::mt19937 r(seed * 7919u);
    Log &log = logs[0];
    log.reserve(M);
    ready.fetch_add(1);
    while (!go.load()) std::this_thread::yield();
    for (int m = 0; m < M; ++m) {
      jitter(r, cj);
      unsigned x = r() % 10u;
      if (x < 5) doConsume(buf, log, 0);
      else if (x < 8) doSize(buf, log, 0);
      else doEmpty(buf, log, 0);
    }
  });
  while (ready.load() < P + 1) std::this_thread::yield();
  go.store(true);
  for (auto &t : th) t.join();
  cons.join();
  // every producer has stopped: the final consume() (plus size()/empty() of the drained buffer)
  Log &fin = logs[P + 1];
  doConsume(buf, fin, 0);
  doSize(buf, fin, 0);
  doEmpty(buf, fin, 0);
  return dumpLogs(logs);
}

template <typename T>
static Json concVal(const Json &sc)
{
  const int N = (int)sc["N"].num(), M = (int)sc["M"].num();
  const int pj = (int)sc["pj"].num(), cj = (int)sc["cj"].num();
  const unsigned seed = (unsigned)sc["seed"].num();
  const bool defaultCtor = sc["ctor"].str() == "default";
  typedef rkcommon::utility::TransactionalValue<T> TV;
  // "value": constructed from the initial value 0; "default": default-constructed, and the
  // consumer does not read the (unspecified) content before the first successful update()
  std::unique_ptr<TV> tvp(defaultCtor ? new TV() : new TV(Codec<T>::value(0)));
  TV &tv = *tvp;
  std::vector<Log> logs(3);
  std::atomic<int> ready{0};
  std::atomic<bool> go{false};
  std::atomic<bool> pdone{false};
  bool readable = !defaultCtor;  // consumer-side only
  std::thread prod([&]() {
    std::mt19937 r(seed * 7919u + 1u);
    Log &log = logs[1];
    log.reserve(N);
    ready.fetch_add(1);
    while (!go.load()) std::this_thread::yield();
    for (int v = 1; v <= N; ++v) {
      jitter(r, pj);
      doAssign(tv, log, 1, v);
    }
    pdone.store(true);
  });
  std::thread cons([&]() {
    std::mt19937 r(seed * 7919u);
    Log &log = logs[0];
    log.reserve(2 * M);
    ready.fetch_add(1);
    while (!go.load()) std::this_thread::yield();
    for (int m = 0; m < M; ++m) {
      jitter(r, cj);
      if (doUpdate(tv, log, 0)) readable = true;
      if (readable) doGet(tv, log, 0, (r() & 3u) == 0);
      if (pdone.load() && (r() & 1u)) break;
    }
  });
  while (ready.load() < 2) std::this_thread::yield();
  go.store(true);
  prod.join();
  cons.join();
  // the producer has stopped: one more update(), then get()
  Log &fin = logs[2];
  if (doUpdate(tv, fin, 0)) readable = true;
  if (readable) doGet(tv, fin, 0, false);
  return dumpLogs(logs);
}

// ---------------------------------------------------------------------------
// concurrent scenarios with long bursts between two consumer polls
//   {"kind":"burst","obj":"val"|"buf","payload":..,"phases":[{"a":3},{"b":256,"wait":true},...],"M":10,"P":1|2,"K":4,..}
// The (first) producer thread runs the phases: {"a":k} = k single calls, each logged; {"b":n,"wait":w} = a burst of
// n calls logged as one record.  Before a burst the producer asks the consumer thread to pause and waits for the
// acknowledgement, after it it releases the consumer (generation counters, no sleeping): no consumer call overlaps
// the burst.  With "wait" the producer then makes no further call until the consumer has completed one more poll
// round (update()+get(), resp. size()+consume()+empty()) - the producer "stops at the boundary" for that poll.
struct BurstCtl
{
  std::atomic<long> reqGen{0}, ackGen{0}, relGen{0}, polls{0};
  std::atomic<bool> pollWanted{false}, pdone{false}, go{false};
  std::atomic<int> ready{0};
};

static inline void consumerPausePoint(BurstCtl &ctl)
{
  long g = ctl.reqGen.load();
  if (g != ctl.relGen.load()) {
    ctl.ackGen.store(g);
    while (ctl.relGen.load() != g) std::this_thread::yield();
  }
}

template <typename BURST, typename SINGLE>
static void runPhases(const Json &phases, BurstCtl &ctl, std::mt19937 &r, int pj, BURST burst, SINGLE single)
{
  for (size_t i = 0; i < phases.size(); ++i) {
    const Json &ph = phases[i];
    if (ph.has("a")) {
      long k = (long)ph["a"].num();
      for (long j = 0; j < k; ++j) { jitter(r, pj); single(); }
    } else {
      long n = (long)ph["b"].num();
      long g = ctl.reqGen.fetch_add(1) + 1;
      while (ctl.ackGen.load() != g) std::this_thread::yield();     // the consumer is between two calls and stays there
      long target = ctl.polls.load() + 1;
      burst(n);
      const bool wait = ph["wait"].boolean();
      if (wait) ctl.pollWanted.store(true);
      ctl.relGen.store(g);
      if (wait) {
        while (ctl.polls.load() < target) std::this_thread::yield();
        ctl.pollWanted.store(false);
      }
    }
  }
}

template <typename T>
static Json burstVal(const Json &sc)
{
  const int M = (int)sc["M"].num(), pj = (int)sc["pj"].num(), cj = (int)sc["cj"].num();
  const unsigned seed = (unsigned)sc["seed"].num();
  typedef rkcommon::utility::TransactionalValue<T> TV;
  TV tv(Codec<T>::value(0));
  std::vector<Log> logs(3);
  BurstCtl ctl;
  std::thread prod([&]() {
    std::mt19937 r(seed * 7919u + 1u);
    Log &log = logs[1];
    int next = 0;
    ctl.ready.fetch_add(1);
    while (!ctl.go.load()) std::this_thread::yield();
    runPhases(sc["phases"], ctl, r, pj,
              [&](long n) { doBurstAssign(tv, log, 1, next + 1, n); next += (int)n; },
              [&]() { doAssign(tv, log, 1, ++next); });
    ctl.pdone.store(true);
  });
  std::thread cons([&]() {
    std::mt19937 r(seed * 7919u);
    Log &log = logs[0];
    int rounds = 0;
    ctl.ready.fetch_add(1);
    while (!ctl.go.load()) std::this_thread::yield();
    for (;;) {
      consumerPausePoint(ctl);
      if (ctl.pdone.load()) break;
      if (rounds < M || ctl.pollWanted.load()) {
        jitter(r, cj);
        doUpdate(tv, log, 0);
        doGet(tv, log, 0, (r() & 3u) == 0);
        ++rounds;
        ctl.polls.fetch_add(1);
      } else std::this_thread::yield();
    }
  });
  while (ctl.ready.load() < 2) std::this_thread::yield();
  ctl.go.store(true);
  prod.join();
  cons.join();
  Log &fin = logs[2];
  doUpdate(tv, fin, 0);
  doGet(tv, fin, 0, false);
  return dumpLogs(logs);
}

template <typename T>
static Json burstBuf(const Json &sc)
{
  const int M = (int)sc["M"].num(), pj = (int)sc["pj"].num(), cj = (int)sc["cj"].num();
  const int P = (int)sc["P"].num(), K = (int)sc["K"].num();
  const unsigned seed = (unsigned)sc["seed"].num();
  rkcommon::containers::TransactionalBuffer<T> buf;
  std::vector<Log> logs(P + 2);
  BurstCtl ctl;
  std::vector<std::thread> th;
  th.emplace_back([&]() {
    std::mt19937 r(seed * 7919u + 1u);
    Log &log = logs[1];
    int next = 0;
    ctl.ready.fetch_add(1);
    while (!ctl.go.load()) std::this_thread::yield();
    runPhases(sc["phases"], ctl, r, pj,
              [&](long n) { doBurstPush(buf, log, 1, 1, next + 1, n); next += (int)n; },
              [&]() { ++next; doPush(buf, log, 1, 1, next, (r() & 1u) != 0); });
    ctl.pdone.store(true);
  });
  for (int p = 2; p <= P; ++p) {
    th.emplace_back([&, p]() {
      std::mt19937 r(seed * 7919u + (unsigned)p);
      Log &log = logs[p];
      ctl.ready.fetch_add(1);
      while (!ctl.go.load()) std::this_thread::yield();
      for (int s = 1; s <= K; ++s) { jitter(r, pj); doPush(buf, log, p, p, s, (r() & 1u) != 0); }
    });
  }
  std::thread cons([&]() {
    std::mt19937 r(seed * 7919u);
    Log &log = logs[0];
    int rounds = 0;
    ctl.ready.fetch_add(1);
    while (!ctl.go.load()) std::this_thread::yield();
    for (;;) {
      consumerPausePoint(ctl);
      if (ctl.pdone.load()) break;
      if (rounds < M || ctl.pollWanted.load()) {
        jitter(r, cj);
        doSize(buf, log, 0);
        doConsume(buf, log, 0);
        doEmpty(buf, log, 0);
        ++rounds;
        ctl.polls.fetch_add(1);
      } else std::this_thread::yield();
    }
  });
  while (ctl.ready.load() < P + 1) std::this_thread::yield();
  ctl.go.store(true);
  for (auto &t : th) t.join();
  cons.join();
  Log &fin = logs[P + 1];
  doConsume(buf, fin, 0);
  doSize(buf, fin, 0);
  doEmpty(buf, fin, 0);
  return dumpLogs(logs);
}

// ---------------------------------------------------------------------------
// sequential histories generated by TLC
template <typename T>
static Json seqBuf(const Json &sc)
{
  rkcommon::containers::TransactionalBuffer<T> buf;
  std::vector<Log> logs(1);
  Log &log = logs[0];
  std::vector<int> next(16, 0);
  const Json &h = sc["h"];
  for (size_t i = 0; i < h.size(); ++i) {
    const std::string &a = h[i]["a"].str();
    if (a == "Push") {
      int p = (int)h[i]["arg"]["p"].num();
      doPush(buf, log, p, p, ++next[p & 15], h[i]["arg"]["mv"].boolean());
    } else if (a == "BurstPush") {
      int p = (int)h[i]["arg"]["p"].num();
      long n = (long)h[i]["arg"]["n"].num();
      doBurstPush(buf, log, p, p, next[p & 15] + 1, n);
      next[p & 15] += (int)n;
    } else if (a == "Consume") doConsume(buf, log, 0);
    else if (a == "Size") doSize(buf, log, 0);
    else if (a == "Empty") doEmpty(buf, log, 0);
  }
  doConsume(buf, log, 0);
  doSize(buf, log, 0);
  doEmpty(buf, log, 0);
  return dumpLogs(logs);
}

template <typename T>
static Json seqVal(const Json &sc)
{
  rkcommon::utility::TransactionalValue<T> tv(Codec<T>::value(0));
  std::vector<Log> logs(1);
  Log &log = logs[0];
  int next = 0;
  const Json &h = sc["h"];
  for (size_t i = 0; i < h.size(); ++i) {
    const std::string &a = h[i]["a"].str();
    if (a == "Assign") doAssign(tv, log, 1, ++next);
    else if (a == "Burst") {
      long n = (long)h[i]["arg"]["n"].num();
      doBurstAssign(tv, log, 1, next + 1, n);
      next += (int)n;
    }
    else if (a == "Update") doUpdate(tv, log, 0);
    else if (a == "Get") doGet(tv, log, 0, h[i]["arg"]["ref"].boolean());
  }
  doUpdate(tv, log, 0);
  doGet(tv, log, 0, false);
  return dumpLogs(logs);
}

// ---------------------------------------------------------------------------
static int g_fd = -1;
static long long g_curId = -1;

static void emitLine(const std::string &s0)
{
  std::string s = s0 + "\n";
  size_t off = 0;
  while (off < s.size()) {
    ssize_t n = write(g_fd, s.data() + off, s.size() - off);
    if (n <= 0) _exit(3);
    off += (size_t)n;
  }
}

static void onAlarm(int)
{
  char buf[96];
  int n = snprintf(buf, sizeof buf, "{\"id\":%lld,\"timeout\":true}\n", g_curId);
  if (n > 0) { ssize_t w = write(g_fd, buf, (size_t)n); (void)w; }
  _exit(94);
}

int main(int argc, char **argv)
{
  std::string in, out;
  long timeoutS = 60;
  for (int i = 1; i < argc; ++i) {
    std::string a = argv[i];
    if (a == "--in" && i + 1 < argc) in = argv[++i];
    else if (a == "--out" && i + 1 < argc) out = argv[++i];
    else if (a == "--nostamp") g_stamp = false;
    else if (a == "--timeout-s" && i + 1 < argc) timeoutS = atol(argv[++i]);
  }
  if (in.empty() || out.empty()) {
    fprintf(stderr, "usage: %s --in scenarios.ndjson --out obs.ndjson [--nostamp]\n", argv[0]);
    return 2;
  }
  std::ifstream f(in);
  if (!f) { fprintf(stderr, "cannot read %s\n", in.c_str()); return 2; }
  g_fd = open(out.c_str(), O_WRONLY | O_CREAT | O_TRUNC | O_APPEND, 0644);
  if (g_fd < 0) { perror("open out"); return 2; }
  signal(SIGALRM, onAlarm);
  std::string line;
  while (std::getline(f, line)) {
    if (line.empty()) continue;
    Json sc = vj::parse(line);
    g_curId = sc["id"].num();
    const std::string &kind = sc["kind"].str(), &obj = sc["obj"].str();
    const bool str = sc["payload"].str() == "str";
    alarm((unsigned)timeoutS);
    Json calls;
    if (kind == "conc" && obj == "buf") calls = str ? concBuf<std::string>(sc) : concBuf<IntElem>(sc);
    else if (kind == "conc" && obj == "val") calls = str ? concVal<std::string>(sc) : concVal<int>(sc);
    else if (kind == "burst" && obj == "buf") calls = str ? burstBuf<std::string>(sc) : burstBuf<IntElem>(sc);
    else if (kind == "burst" && obj == "val") calls = str ? burstVal<std::string>(sc) : burstVal<int>(sc);
    else if (kind == "seq" && obj == "buf") calls = str ? seqBuf<std::string>(sc) : seqBuf<IntElem>(sc);
    else if (kind == "seq" && obj == "val") calls = str ? seqVal<std::string>(sc) : seqVal<int>(sc);
    else { fprintf(stderr, "unknown scenario %s/%s\n", kind.c_str(), obj.c_str()); return 2; }
    alarm(0);
    Json r = Json::object();
    r.set("id", sc["id"]);
    r.set("calls", calls);
    emitLine(r.dump());
  }
  close(g_fd);
  return 0;
}
