// Conformance driver for spec/tracing/TraceLog.tla (property C20, trace log).
//
// The recorder of rkcommon/tracing/Tracing.cpp is a process-wide singleton, so
// the orchestrator runs ONE HISTORY PER PROCESS (--isolate 1: every history in a
// freshly forked child of a parent that never touched the recorder).
//
// Actions (the specification's thread t is a real std::thread of its own, created
// by ThreadStart (or at its first action) and alive until ThreadExit joins it or the
// history ends.  The driver's main thread does every creation and every join and
// stamps them with one logical clock: born[t] is taken just before the std::thread
// is constructed, died[t] just after join() returned, so died[t] < born[u] means
// thread t had ended before thread u was created - only then can the OS hand t's
// std::thread::id to u):
//   ThreadStart {t} / ThreadExit {t}
//   Begin / End / Marker / Counter {t, name, cat, val}   executed on thread t, synchronously
//   SetName {t, name}                                     setThreadName on thread t
//   MemUse {t}                                            recordMemUse on thread t (built-in counters)
//   RunThreads {progs: [{n, seed, maxdepth, tname, memuse}]}
//        every listed thread generates and records n events of its own (seeded,
//        begin/end balanced while running, all open events closed inside the n
//        events), all threads at the same time; reports what each thread called
//   RunSequential {lead: prog | null, workers: [prog, ...]}
//        thread 1 (lead, optional) records the first half of its events, then the
//        workers (threads 2, 3, ...) are created, record and are joined ONE AFTER THE
//        OTHER - the next std::thread is constructed right after the join, which is
//        what makes the OS recycle the thread id -, then the lead records its second
//        half and stays alive; reports what each thread called
//   sessions (spec/tracing/TraceSessions.tla): private instances of the exported class
//   TraceRecorder beside the global API (recorder 0 = the free functions)
//     RCreate {r} / RDestroy {r}      new TraceRecorder / the recorder and every list it handed out are
//                                     destroyed, followed by a few thousand small std::string allocations
//                                     and frees (what a program does between two sessions)
//     RMarker / RCounter / RBegin / REnd {r, t, src, csrc, val}   thread t records into recorder r through
//                                     r.getThreadTraceList(its id); the name comes from source src:
//                                     L1 / L2 string literals (the same `static const char *` for every
//                                     session), D a run-time string with the text of L1 at its own address,
//                                     BUF the thread's scratch buffer (one address) holding "buf<r>";
//                                     reports the texts it passed
//     RSave {r, pname}                r.saveLog(...), observation as for SaveLog, plus same_ptr_after_destroy:
//                                     number of events so far whose name pointer was the last name pointer
//                                     the same thread had used in an earlier, already destroyed recorder
//   SaveLog {pname, raw}    saveLog(file, pname or nullptr) from the driver's main thread,
//        then reads the file back with the strict JSON reader below and reports
//          json     "wellformed" | "malformed" (+ why / head / tail of the text)
//          threads  the entries with ph in {B, E, i, C}, without the counters whose
//                   name no recorded counter used, grouped by tid in order of first
//                   appearance, each projected to the fields the contract constrains
//          log      (raw = true, or at most 100 entries) every entry as [tid, ph, name, cat, val] for TLC
//          life     [t, born, died] of every thread created so far (died = 0: still alive)
//          threads_created / thread_ids_distinct   observation: did the OS recycle a std::thread::id
// Nothing is decided here.
#include <unistd.h>
#include <atomic>
#include <condition_variable>
#include <fstream>
#include <functional>
#include <map>
#include <memory>
#include <mutex>
#include <set>
#include <sstream>
#include <thread>
#include "driver.h"
#include "rkcommon/tracing/Tracing.h"

using vj::Json;
namespace tr = rkcommon::tracing;

// ---- strict JSON reader (RFC 8259), independent of harness/common/json.h's lenient one ----
struct Strict
{
  const char *p, *e, *b0;
  std::string err;
  int depth = 0;
  Strict(const std::string &s) : p(s.data()), e(s.data() + s.size()), b0(s.data()) {}
  void ws() { while (p < e && (*p == ' ' || *p == '\t' || *p == '\n' || *p == '\r')) ++p; }
  bool fail(const std::string &m)
  {
    if (err.empty()) {
      std::ostringstream o;
      o << m << " at byte " << (long long)(p - b0);
      err = o.str();
    }
    return false;
  }
  bool lit(const char *w)
  {
    size_t n = strlen(w);
    if ((size_t)(e - p) < n || strncmp(p, w, n) != 0) return fail("bad literal");
    p += n;
    return true;
  }
  bool str(std::string &out)
  {
    if (p >= e || *p != '"') return fail("string expected");
    ++p;
    out.clear();
    while (p < e && *p != '"') {
      unsigned char c = (unsigned char)*p;
      if (c < 0x20) return fail("control character in string");
      if (c == '\\') {
        ++p;
        if (p >= e) return fail("unterminated escape");
        switch (*p) {
        case '"': out += '"'; break;
        case '\\': out += '\\'; break;
        case '/': out += '/'; break;
        case 'b': out += '\b'; break;
        case 'f': out += '\f'; break;
        case 'n': out += '\n'; break;
        case 'r': out += '\r'; break;
        case 't': out += '\t'; break;
        case 'u': {
          if (e - p < 5) return fail("short \\u escape");
          unsigned v = 0;
          for (int k = 1; k <= 4; ++k) {
            char h = p[k];
            v <<= 4;
            if (h >= '0' && h <= '9') v |= (unsigned)(h - '0');
            else if (h >= 'a' && h <= 'f') v |= (unsigned)(h - 'a' + 10);
            else if (h >= 'A' && h <= 'F') v |= (unsigned)(h - 'A' + 10);
            else return fail("bad \\u escape");
          }
          p += 4;
          out += v < 0x80 ? (char)v : '?';
          break;
        }
        default: return fail("bad escape");
        }
        ++p;
      } else {
        out += (char)c;
        ++p;
      }
    }
    if (p >= e) return fail("unterminated string");
    ++p;
    return true;
  }
  bool number(Json &out)
  {
    const char *b = p;
    bool isd = false;
    if (p < e && *p == '-') ++p;
    if (p >= e) return fail("number expected");
    if (*p == '0') ++p;
    else if (*p >= '1' && *p <= '9') { while (p < e && *p >= '0' && *p <= '9') ++p; }
    else return fail("value expected");
    if (p < e && *p == '.') {
      isd = true;
      ++p;
      if (p >= e || *p < '0' || *p > '9') return fail("digits expected after '.'");
      while (p < e && *p >= '0' && *p <= '9') ++p;
    }
    if (p < e && (*p == 'e' || *p == 'E')) {
      isd = true;
      ++p;
      if (p < e && (*p == '+' || *p == '-')) ++p;
      if (p >= e || *p < '0' || *p > '9') return fail("digits expected in exponent");
      while (p < e && *p >= '0' && *p <= '9') ++p;
    }
    std::string t(b, p);
    if (isd || t.size() > 18) out = Json(strtod(t.c_str(), nullptr));
    else out = Json((long long)strtoll(t.c_str(), nullptr, 10));
    out.s = t;             // the token itself: counter values are compared exactly, as numerals
    return true;
  }
  bool value(Json &out)
  {
    ws();
    if (p >= e) return fail("unexpected end of text");
    if (++depth > 64) return fail("nesting too deep");
    bool ok = false;
    char c = *p;
    if (c == '{') {
      ++p;
      out = Json::object();
      ws();
      if (p < e && *p == '}') { ++p; ok = true; }
      else for (;;) {
        ws();
        std::string k;
        if (!str(k)) break;
        ws();
        if (p >= e || *p != ':') { fail("':' expected"); break; }
        ++p;
        Json v;
        if (!value(v)) break;
        out.o.emplace_back(k, v);
        ws();
        if (p < e && *p == ',') { ++p; continue; }
        if (p < e && *p == '}') { ++p; ok = true; break; }
        fail("',' or '}' expected");
        break;
      }
    } else if (c == '[') {
      ++p;
      out = Json::array();
      ws();
      if (p < e && *p == ']') { ++p; ok = true; }
      else for (;;) {
        Json v;
        if (!value(v)) break;
        out.a.push_back(v);
        ws();
        if (p < e && *p == ',') { ++p; continue; }
        if (p < e && *p == ']') { ++p; ok = true; break; }
        fail("',' or ']' expected");
        break;
      }
    } else if (c == '"') {
      std::string s;
      ok = str(s);
      if (ok) out = Json(s);
    } else if (c == 't') { ok = lit("true"); if (ok) out = Json(true); }
    else if (c == 'f') { ok = lit("false"); if (ok) out = Json(false); }
    else if (c == 'n') { ok = lit("null"); if (ok) out = Json(); }
    else ok = number(out);
    --depth;
    return ok;
  }
  bool document(Json &out)
  {
    if (!value(out)) return false;
    ws();
    if (p != e) return fail("text after the JSON value");
    return true;
  }
};

// The decimal numeral of the NUMBER a JSON number token denotes, exactly (no floating point): "1e3", "1000.0" -> "1000";
// a token that does not denote an integer -> "not-an-integer:<token>".
static std::string numeralOf(const std::string &tok)
{
  size_t i = 0;
  bool neg = false;
  if (i < tok.size() && tok[i] == '-') { neg = true; ++i; }
  std::string digits;
  while (i < tok.size() && tok[i] >= '0' && tok[i] <= '9') digits += tok[i++];
  long long shift = 0;
  if (i < tok.size() && tok[i] == '.') {
    ++i;
    while (i < tok.size() && tok[i] >= '0' && tok[i] <= '9') { digits += tok[i++]; --shift; }
  }
  if (i < tok.size() && (tok[i] == 'e' || tok[i] == 'E')) {
    ++i;
    bool eneg = false;
    if (i < tok.size() && (tok[i] == '+' || tok[i] == '-')) { eneg = tok[i] == '-'; ++i; }
    long long ex = 0;
    while (i < tok.size() && tok[i] >= '0' && tok[i] <= '9') { if (ex < 100000) ex = ex * 10 + (tok[i] - '0'); ++i; }
    shift += eneg ? -ex : ex;
  }
  if (i != tok.size() || digits.empty()) return "not-an-integer:" + tok;
  if (shift > 400) return "not-an-integer:" + tok;
  if (shift >= 0) digits.append((size_t)shift, '0');
  else {
    size_t cut = (size_t)(-shift);
    std::string frac = cut <= digits.size() ? digits.substr(digits.size() - cut) : std::string(cut - digits.size(), '0') + digits;
    if (frac.find_first_not_of('0') != std::string::npos) return "not-an-integer:" + tok;
    digits = cut < digits.size() ? digits.substr(0, digits.size() - cut) : std::string("0");
  }
  size_t nz = digits.find_first_not_of('0');
  digits = nz == std::string::npos ? std::string("0") : digits.substr(nz);
  return (neg && digits != "0" ? "-" : "") + digits;
}

// Symbolic names of spec/tracing/TraceLog.tla (HardPool): "@..." stands for a text that the specification does not spell.
// textOf is injective; symbolOf maps a text found in the log back (any other text is reported as it is).
static std::string textOf(const std::string &sym)
{
  if (sym.empty() || sym[0] != '@') return sym;
  if (sym == "@quote") return "a\"b";
  if (sym == "@quote-first") return "\"ab";
  if (sym == "@quote-last") return "ab\"";
  if (sym == "@backslash") return "a\\b";
  if (sym == "@winpath") return "C:\\temp\\new";
  if (sym == "@trailing-backslash") return "a\\";
  if (sym == "@newline") return "a\nb";
  if (sym == "@tab") return "a\tb";
  if (sym == "@ctrl1") return "\x01";
  if (sym == "@del") return "a\x7f";
  if (sym == "@utf8") return "caf\xc3\xa9";
  if (sym == "@slash") return "a/b";
  if (sym.compare(0, 4, "@len") == 0) {
    size_t n = (size_t)atoll(sym.c_str() + 4);
    std::string t = "L" + std::to_string(n) + ":";
    if (t.size() > n) t = std::string(n, 'y');
    t.append(n - t.size(), 'x');
    return t;
  }
  return "unknown symbol " + sym;
}

static std::string symbolOf(const std::string &text)
{
  static const char *const syms[] = {"@quote", "@quote-first", "@quote-last", "@backslash", "@winpath", "@trailing-backslash", "@newline", "@tab",
                                     "@ctrl1", "@del", "@utf8", "@slash", "@len15", "@len16", "@len17", "@len255", "@len256", "@len257",
                                     "@len1023", "@len1024", "@len1025", "@len4097", "@len65537"};
  for (const char *sy : syms)
    if (textOf(sy) == text) return sy;
  return text;
}

// ---- one real thread per specification thread -----------------------------------
struct Worker
{
  std::thread th;
  std::mutex m;
  std::condition_variable cv;
  std::function<void()> job;
  bool hasJob = false, busy = false, quit = false;
  std::map<std::string, std::unique_ptr<std::string>> names; // one stable pointer per distinct text

  char buf[32];                       // scratch buffer: one address, text depends on the recorder
  const char *lastPtr = nullptr;      // last name pointer this thread recorded with, and into which recorder
  long long lastRec = -1;
  std::thread::id id;
  Worker() { th = std::thread([this] { loop(); }); id = th.get_id(); }
  ~Worker()
  {
    {
      std::lock_guard<std::mutex> l(m);
      quit = true;
    }
    cv.notify_all();
    th.join();
  }
  void loop()
  {
    std::unique_lock<std::mutex> l(m);
    for (;;) {
      cv.wait(l, [this] { return hasJob || quit; });
      if (hasJob) {
        std::function<void()> j = job;
        hasJob = false;
        l.unlock();
        j();
        l.lock();
        busy = false;
        cv.notify_all();
        continue;
      }
      if (quit) return;
    }
  }
  void post(std::function<void()> j)
  {
    std::lock_guard<std::mutex> l(m);
    job = j;
    hasJob = true;
    busy = true;
    cv.notify_all();
  }
  void wait()
  {
    std::unique_lock<std::mutex> l(m);
    cv.wait(l, [this] { return !busy; });
  }
  // only called on the worker's own thread
  const char *intern(const std::string &s)
  {
    if (s.empty()) return nullptr;
    auto it = names.find(s);
    if (it == names.end()) it = names.emplace(s, std::unique_ptr<std::string>(new std::string(s))).first;
    return it->second->c_str();
  }
};

struct Rec
{
  char k;
  std::string name, cat;
  unsigned long long val;
};

struct World
{
  std::map<long long, std::unique_ptr<Worker>> workers;
  std::set<std::string> counterNames; // names of the counters the history recorded (global recorder)
  struct Session
  {
    std::unique_ptr<tr::TraceRecorder> rec;
    std::map<long long, std::shared_ptr<tr::ThreadEventList>> lists; // per specification thread
    std::set<std::string> counterNames;
  };
  std::map<long long, Session> sessions;
  std::set<long long> destroyed;
  std::vector<std::unique_ptr<std::string>> dynNames; // run-time strings, each at its own address, alive to the end
  long long samePtrAfterDestroy = 0;
  std::string dir;
  long counter = 0;
  long long clock = 0;                               // logical time of creations and joins (main thread only)
  std::map<long long, long long> born, died;         // per specification thread
  std::vector<std::thread::id> idsSeen;              // the std::thread::id of every thread ever created

  World(const Json &hist) { dir = hist.has("tmpdir") ? hist["tmpdir"].str() : std::string("/tmp"); }

  Worker &worker(long long t)
  {
    auto it = workers.find(t);
    if (it == workers.end()) {
      if (born.count(t)) throw std::runtime_error("driver: action on a thread that has ended");
      born[t] = ++clock;
      it = workers.emplace(t, std::unique_ptr<Worker>(new Worker())).first;
      idsSeen.push_back(it->second->id);
    }
    return *it->second;
  }

  void endThread(long long t)
  {
    auto it = workers.find(t);
    if (it == workers.end()) throw std::runtime_error("driver: ThreadExit of a thread that is not alive");
    workers.erase(it);                               // ~Worker joins
    died[t] = ++clock;
  }

  void lifeInto(Json &o)
  {
    Json life = Json::array();
    for (auto &b : born) {
      Json e = Json::array();
      e.push(Json(b.first));
      e.push(Json(b.second));
      e.push(Json(died.count(b.first) ? died[b.first] : 0LL));
      life.push(e);
    }
    o.set("life", life);
    std::set<std::thread::id> distinct(idsSeen.begin(), idsSeen.end());
    o.set("threads_created", (long long)idsSeen.size());
    o.set("thread_ids_distinct", (long long)distinct.size());
  }

  Json recJson(const std::vector<std::vector<Rec>> &recs)
  {
    Json all = Json::array();
    for (size_t i = 0; i < recs.size(); ++i) {
      Json one = Json::array();
      for (const Rec &r : recs[i]) {
        Json e = Json::array();
        e.push(Json(std::string(1, r.k)));
        e.push(Json(r.name));
        e.push(Json(r.cat));
        e.push(Json(r.k == 'C' ? std::to_string(r.val) : std::string()));
        one.push(e);
        if (r.k == 'C') counterNames.insert(r.name);
      }
      all.push(one);
    }
    return all;
  }

  static Json entry(const Json &e, bool &shapeOk)
  {
    // [tid, ph, name, cat, val]
    Json r = Json::array();
    if (e.type != Json::Obj || e["ph"].type != Json::Str || e["tid"].type != Json::Int) {
      shapeOk = false;
      return r;
    }
    r.push(e["tid"]);
    r.push(e["ph"]);
    const std::string &ph = e["ph"].str();
    if (ph == "M") {
      r.push(e["name"].type == Json::Str ? e["name"] : Json(""));
      r.push(Json(""));
      r.push(Json(""));
      return r;
    }
    r.push(e["name"].type == Json::Str ? Json(symbolOf(e["name"].str())) : Json("<no name>"));
    r.push(e["cat"].type == Json::Str ? Json(symbolOf(e["cat"].str())) : Json(""));
    const Json &v = e["args"]["value"];
    if (v.type == Json::Int || v.type == Json::Dbl) r.push(Json(numeralOf(v.s)));   // exact, whatever the notation
    else if (v.type == Json::Null) r.push(Json(""));
    else r.push(Json("not-a-number"));
    return r;
  }

  Json saveLog(const Json &arg) { return saveLogOf(arg, nullptr, counterNames); }

  Json saveLogOf(const Json &arg, tr::TraceRecorder *priv, const std::set<std::string> &counterNames)
  {
    char name[64];
    const bool samePath = arg.has("samepath") && arg["samepath"].boolean();   // every such save of the process goes to ONE file,
    if (samePath) snprintf(name, sizeof name, "/trace-%ld-same.json", (long)getpid()); // which is neither removed nor truncated by the driver
    else snprintf(name, sizeof name, "/trace-%ld-%ld.json", (long)getpid(), counter++);
    const std::string path = dir + name;
    if (!samePath) unlink(path.c_str());
    const bool emptyName = arg["pname"].str() == "@empty";                    // "" passed as a non-null pointer
    const std::string pname = emptyName ? std::string() : textOf(arg["pname"].str());
    const char *pn = emptyName ? "" : (pname.empty() ? nullptr : pname.c_str());
    if (priv) priv->saveLog(path.c_str(), pn);
    else tr::saveLog(path.c_str(), pn);
    std::string text;
    {
      std::ifstream f(path, std::ios::binary);
      std::ostringstream ss;
      ss << f.rdbuf();
      text = ss.str();
    }
    if (!samePath) unlink(path.c_str());
    Json o = Json::object();
    Json doc;
    Strict sp(text);
    bool ok = sp.document(doc);
    std::string why = sp.err;
    if (ok && doc.type != Json::Arr) { ok = false; why = "the document is not an array"; }
    Json raw = Json::array();
    if (ok) {
      bool shapeOk = true;
      for (size_t i = 0; i < doc.a.size() && shapeOk; ++i) raw.push(entry(doc.a[i], shapeOk));
      if (!shapeOk) { ok = false; why = "an array element is not an object with string ph and integer tid"; }
    }
    o.set("json", ok ? "wellformed" : "malformed");
    o.set("bytes", (long long)text.size());
    lifeInto(o);
    o.set("same_ptr_after_destroy", samePtrAfterDestroy);
    if (!ok) {
      o.set("why", why);
      o.set("head", text.substr(0, 120));
      o.set("tail", text.size() > 120 ? text.substr(text.size() - 120) : text);
      return o;
    }
    // projection: relevant entries grouped by tid in order of first appearance
    std::vector<long long> order;
    std::map<long long, Json> groups;
    long long extras = 0;
    for (size_t i = 0; i < raw.size(); ++i) {
      const Json &r = raw[i];
      const std::string &ph = r[1].str();
      bool relevant = ph == "B" || ph == "E" || ph == "i" || (ph == "C" && counterNames.count(r[2].str()));
      bool allowedExtra = ph == "M" || ph == "C";
      if (!relevant && allowedExtra) { ++extras; continue; }
      long long tid = r[0].num();
      if (!groups.count(tid)) { groups[tid] = Json::array(); order.push_back(tid); }
      Json ev = Json::object();
      ev.set("ph", ph);
      if (ph == "E" ) { ev.set("name", ""); ev.set("cat", ""); ev.set("val", ""); }
      else if (ph == "C") { ev.set("name", r[2]); ev.set("cat", ""); ev.set("val", r[4]); }
      else { ev.set("name", r[2]); ev.set("cat", r[3]); ev.set("val", ""); }   // B, i, and any unknown kind as it is
      groups[tid].push(ev);
    }
    Json th = Json::array();
    for (long long tid : order) th.push(groups[tid]);
    o.set("threads", th);
    o.set("entries", (long long)raw.size());
    o.set("extra_entries", extras);
    if ((arg.has("raw") && arg["raw"].boolean()) || raw.size() <= 100) o.set("log", raw);
    return o;
  }

  // what happens between two sessions of a program: many small strings come and go
  void churn()
  {
    uint64_t s = 0x9E3779B97F4A7C15ull + (uint64_t)destroyed.size();
    std::vector<std::unique_ptr<std::string>> v;
    for (int i = 0; i < 4000; ++i) {
      s ^= s << 13; s ^= s >> 7; s ^= s << 17;
      v.emplace_back(new std::string((size_t)(4 + s % 40), (char)('a' + s % 26)));
      if (i % 3 == 2) v[(size_t)(s % v.size())].reset();
    }
  }

  Json sessionRecord(const std::string &a, const Json &arg)
  {
    const long long r = arg["r"].num(), t = arg["t"].num();
    const unsigned long long val = arg["val"].type == Json::Str ? strtoull(arg["val"].str().c_str(), nullptr, 10) : (unsigned long long)arg["val"].num();
    const std::string src = arg["src"].type == Json::Str ? arg["src"].str() : std::string();
    const std::string csrc = arg["csrc"].type == Json::Str ? arg["csrc"].str() : std::string();
    Session *ses = nullptr;
    if (r != 0) {
      auto it = sessions.find(r);
      if (it == sessions.end()) throw std::runtime_error("driver: recording into a recorder that does not exist");
      ses = &it->second;
    }
    Worker *w = &worker(t);
    std::string nameText, catText;
    const char *namePtr = nullptr;
    World *self = this;
    w->post([=, &nameText, &catText, &namePtr] {
      // the pointers are formed on the recording thread, as a caller would
      auto resolve = [&](const std::string &sc, char *buf) -> const char * {
        static const char *const kL1 = "frame";
        static const char *const kL2 = "tick";
        if (sc == "L1") return kL1;
        if (sc == "L2") return kL2;
        if (sc == "D") {
          self->dynNames.emplace_back(new std::string("frame"));
          return self->dynNames.back()->c_str();
        }
        if (sc == "BUF") {
          snprintf(buf, 32, "buf%lld", r);
          return buf;
        }
        return nullptr;
      };
      static thread_local char catBuf[32];
      const char *np = resolve(src, w->buf);
      const char *cp = resolve(csrc, catBuf);
      namePtr = np;
      if (np) nameText = np;
      if (cp) catText = cp;
      if (ses) {
        std::shared_ptr<tr::ThreadEventList> &l = ses->lists[t];
        if (!l) l = ses->rec->getThreadTraceList(std::this_thread::get_id());
        if (a == "RMarker") l->setMarker(np, cp);
        else if (a == "RCounter") l->setCounter(np, (uint64_t)val);
        else if (a == "RBegin") l->beginEvent(np, cp);
        else l->endEvent();
      } else {
        if (a == "RMarker") tr::setMarker(np, cp);
        else if (a == "RCounter") tr::setCounter(np, (uint64_t)val);
        else if (a == "RBegin") tr::beginEvent(np, cp);
        else tr::endEvent();
      }
    });
    w->wait();
    if (a == "RCounter") (ses ? ses->counterNames : counterNames).insert(nameText);
    if (namePtr) {
      if (namePtr == w->lastPtr && w->lastRec != r && destroyed.count(w->lastRec)) ++samePtrAfterDestroy;
      w->lastPtr = namePtr;
      w->lastRec = r;
    }
    Json o = Json::object();
    o.set("ret", "void");
    o.set("name", nameText);
    o.set("cat", catText);
    return o;
  }

  static uint64_t rnd(uint64_t &s)
  {
    s ^= s << 13; s ^= s >> 7; s ^= s << 17;
    return s;
  }

  // what thread t does in RunThreads; runs on the worker's thread
  static void program(Worker &w, long long t, const Json &prog, std::vector<Rec> &out)
  {
    const long long n = prog["n"].num();
    const long long maxdepth = prog["maxdepth"].num() > 0 ? prog["maxdepth"].num() : 3;
    uint64_t s = (uint64_t)prog["seed"].num() * 0x9E3779B97F4A7C15ull + 0x1234567ull + (uint64_t)t;
    if (prog["tname"].type == Json::Str && !prog["tname"].str().empty()) tr::setThreadName(prog["tname"].str().c_str());
    const long long memuse = prog["memuse"].num();
    const bool climb = prog["climb"].type == vj::Json::Bool && prog["climb"].boolean();
    const long long pool = prog["pool"].num() > 0 ? prog["pool"].num() : 0;        // number of distinct names per kind (0: the small default pools)
    const bool longNames = prog["longnames"].type == vj::Json::Bool && prog["longnames"].boolean();
    static const size_t lens[] = {1, 15, 16, 17, 31, 32, 33, 255, 256, 257, 1023, 1024, 1025, 4097};
    auto shape = [&](std::string &nm, uint64_t &st) {                               // pad a name to a length around a buffer size
      if (!longNames) return;
      size_t L = lens[rnd(st) % (sizeof lens / sizeof lens[0])];
      if (nm.size() < L) nm.append(L - nm.size(), 'x');
    };
    char buf[64];
    long long depth = 0;
    out.reserve((size_t)n);
    for (long long i = 0; i < n; ++i) {
      const long long left = n - i; // events still to record, this one included
      unsigned x = (unsigned)(rnd(s) % 100);
      char k;
      if (depth >= left) k = 'E';                               // close what is open within the n events
      else if (climb && i < maxdepth && depth < maxdepth && depth + 2 <= left) k = 'B';   // straight up to the maximal depth first
      else if (x < 30 && depth < maxdepth && depth + 2 <= left) k = 'B';
      else if (x < 55 && depth > 0) k = 'E';
      else if (x < 78) k = 'i';
      else k = 'C';
      Rec r;
      r.k = k;
      r.val = 0;
      if (k == 'B') {
        snprintf(buf, sizeof buf, "t%lld.scope%u", t, (unsigned)(rnd(s) % (pool ? (uint64_t)pool : 5)));
        r.name = buf;
        shape(r.name, s);
        r.cat = (rnd(s) & 1) ? "render" : "";
        tr::beginEvent(w.intern(r.name), w.intern(r.cat));
        ++depth;
      } else if (k == 'E') {
        tr::endEvent();
        --depth;
      } else if (k == 'i') {
        snprintf(buf, sizeof buf, "t%lld.mark%u", t, (unsigned)(rnd(s) % (pool ? (uint64_t)pool : 3)));
        r.name = buf;
        shape(r.name, s);
        r.cat = (rnd(s) & 1) ? "" : "sync";
        tr::setMarker(w.intern(r.name), w.intern(r.cat));
      } else {
        snprintf(buf, sizeof buf, "t%lld.ctr%u", t, (unsigned)(rnd(s) % 2));
        r.name = buf;
        // counter values: every magnitude up to 2^64 - 1, and the neighbourhoods of 2^31, 2^32, 2^53, 2^63, 2^64
        static const unsigned long long edge[] = {0ull, 1ull, 999999ull, 1000001ull, 2147483647ull, 2147483648ull, 2147483649ull, 4294967295ull,
                                                  4294967296ull, 4294967297ull, 9007199254740991ull, 9007199254740993ull, 9223372036854775807ull,
                                                  9223372036854775808ull, 9223372036854775809ull, 18446744073709551614ull, 18446744073709551615ull};
        const unsigned pick = (unsigned)(rnd(s) % 4);
        if (pick == 0) r.val = edge[rnd(s) % (sizeof edge / sizeof edge[0])];
        else if (pick == 1) r.val = (unsigned long long)i;
        else r.val = rnd(s) >> (rnd(s) % 64);
        tr::setCounter(w.intern(r.name), (uint64_t)r.val);
      }
      out.push_back(r);
      if (memuse > 0 && i % memuse == memuse - 1) tr::recordMemUse();
    }
  }

  Json step(const Json &act)
  {
    const std::string &a = act["a"].str();
    const Json &arg = act["arg"];
    Json o = Json::object();
    if (a == "SaveLog") return saveLog(arg);
    if (a == "RunThreads") {
      const Json &progs = arg["progs"];
      std::vector<std::vector<Rec>> recs(progs.size());
      for (size_t i = 0; i < progs.size(); ++i) worker((long long)i + 1); // all threads exist before any of them starts
      // spin barrier: every thread is inside its job and released at the same moment, so the first events (the registration of the
      // threads' lists in the recorder) really happen at the same time
      std::atomic<int> arrived(0);
      std::atomic<bool> go(false);
      std::atomic<int> *ap = &arrived;
      std::atomic<bool> *gp = &go;
      for (size_t i = 0; i < progs.size(); ++i) {
        Worker *w = &worker((long long)i + 1);
        std::vector<Rec> *out = &recs[i];
        const Json *pr = &progs[i];
        long long t = (long long)i + 1;
        w->post([w, t, pr, out, ap, gp] {
          ap->fetch_add(1);
          while (!gp->load(std::memory_order_acquire)) {}
          program(*w, t, *pr, *out);
        });
      }
      while (arrived.load() < (int)progs.size()) std::this_thread::yield();
      go.store(true, std::memory_order_release);
      for (size_t i = 0; i < progs.size(); ++i) worker((long long)i + 1).wait();
      Json all = recJson(recs);
      o.set("rec", all);
      return o;
    }
    if (a == "RunSequential") {
      const Json &lead = arg["lead"];
      const Json &ws = arg["workers"];
      const bool hasLead = lead.type == Json::Obj;
      std::vector<std::vector<Rec>> recs(1 + ws.size());
      Json half1, half2;
      if (hasLead) {
        // the lead records n/2 events before and n - n/2 events after the workers, each half closed in itself
        half1 = lead; half2 = lead;
        const long long n = lead["n"].num();
        half1.set("n", n / 2);
        half2.set("n", n - n / 2);
        half2.set("seed", lead["seed"].num() + 7919);
        half2.set("tname", "");
        Worker *w = &worker(1);
        std::vector<Rec> *out = &recs[0];
        const Json *pr = &half1;
        w->post([w, pr, out] { program(*w, 1, *pr, *out); });
        w->wait();
      }
      for (size_t i = 0; i < ws.size(); ++i) {
        const long long t = (long long)i + 2;
        Worker *w = &worker(t);                       // created right after the previous worker was joined
        std::vector<Rec> *out = &recs[i + 1];
        const Json *pr = &ws[i];
        w->post([w, t, pr, out] { program(*w, t, *pr, *out); });
        w->wait();
        endThread(t);
      }
      if (hasLead) {
        Worker *w = &worker(1);
        std::vector<Rec> *out = &recs[0];
        const Json *pr = &half2;
        w->post([w, pr, out] { program(*w, 1, *pr, *out); });
        w->wait();
      }
      o.set("rec", recJson(recs));
      return o;
    }
    if (a == "RCreate") {
      const long long r = arg["r"].num();
      if (r <= 0 || sessions.count(r) || destroyed.count(r)) throw std::runtime_error("driver: RCreate of an existing recorder");
      sessions[r].rec.reset(new tr::TraceRecorder());
      o.set("ret", "void");
      return o;
    }
    if (a == "RDestroy") {
      const long long r = arg["r"].num();
      auto it = sessions.find(r);
      if (it == sessions.end()) throw std::runtime_error("driver: RDestroy of a recorder that does not exist");
      sessions.erase(it);      // the lists handed out and the recorder itself
      destroyed.insert(r);
      churn();
      o.set("ret", "void");
      return o;
    }
    if (a == "RSave") {
      const long long r = arg["r"].num();
      if (r == 0) return saveLog(arg);
      auto it = sessions.find(r);
      if (it == sessions.end()) throw std::runtime_error("driver: RSave of a recorder that does not exist");
      return saveLogOf(arg, it->second.rec.get(), it->second.counterNames);
    }
    if (a == "RMarker" || a == "RCounter" || a == "RBegin" || a == "REnd") return sessionRecord(a, arg);
    const long long t = arg["t"].num();
    if (a == "ThreadStart") {
      if (workers.count(t) || born.count(t)) throw std::runtime_error("driver: ThreadStart of a thread that already exists");
      worker(t);
      o.set("ret", "void");
      return o;
    }
    if (a == "ThreadExit") {
      endThread(t);
      o.set("ret", "void");
      return o;
    }
    Worker &w = worker(t);
    const std::string name = arg["name"].type == Json::Str ? textOf(arg["name"].str()) : std::string();
    const std::string cat = arg["cat"].type == Json::Str ? textOf(arg["cat"].str()) : std::string();
    const unsigned long long val = arg["val"].type == Json::Str ? strtoull(arg["val"].str().c_str(), nullptr, 10) : (unsigned long long)arg["val"].num();
    Worker *wp = &w;
    if (a == "Begin") w.post([wp, name, cat] { tr::beginEvent(wp->intern(name), wp->intern(cat)); });
    else if (a == "End") w.post([] { tr::endEvent(); });
    else if (a == "Marker") w.post([wp, name, cat] { tr::setMarker(wp->intern(name), wp->intern(cat)); });
    else if (a == "Counter") {
      counterNames.insert(arg["name"].str());   // as the log reader reports it (symbol for a symbolic name)
      w.post([wp, name, val] { tr::setCounter(wp->intern(name), (uint64_t)val); });
    } else if (a == "SetName") w.post([name] { tr::setThreadName(name.c_str()); });
    else if (a == "MemUse") w.post([] { tr::recordMemUse(); });
    else {
      o.set("ret", "unknown action " + a);
      return o;
    }
    w.wait();
    o.set("ret", "void");
    return o;
  }
};

int main(int argc, char **argv)
{
  return vdrv::run<World>(argc, argv);
}
