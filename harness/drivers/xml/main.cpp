// Conformance driver for spec/xml/XmlDoc.tla (property C16): rkcommon::xml::readXML.
//
// Every input is written to a regular file and given to the REAL readXML(fileName);
// the driver reports how the call ended and, if it returned, the tree it returned.
// It decides nothing: expected trees / admissible outcomes come from the TLA+
// specification and are compared by the orchestrator or by TLC.
//
// Actions (one-step histories):
//   Read{doc}                         -> {outcome, detail?, tree?}
//        doc: JSON string (bytes 0..255 as \u00XX) or array of one-character strings;
//        with "chars":true in the history line every string of the tree is written
//        as an array of one-character strings (what the TLA+ modules work on)
//        every node also reports what the accessors say: "get": per property [getProp(n), getProp(n, fallback), hasProp(n)],
//        "absent": [hasProp, getProp, getProp with fallback "fb"] for the name "zz-absent"
//   ReadSeq{docs}                     -> {steps: [{outcome, tree?}...]}   the files one after the other, same thread, same process
//   ReadThreads{threads,rounds}       -> {threads: [[{first: observation, distinct: n}...]...]}  thread k reads its list of files
//        `rounds` times, all threads released together by a spin barrier; per file the first observation and the number of
//        distinct observations over the rounds (observed at the quiescent point after joining)
//   ReadRep{nofile,parts:[{doc,n}...]} -> {nofile, parts: [{first: observation, distinct, fd_delta_min, fd_delta_max}...], fd_delta_total}
//        in a forked child whose soft RLIMIT_NOFILE is lowered to `nofile`: part after part, the file `doc` n times
//   every single read also reports "fd_delta": open descriptors of the process (entries of /proc/self/fd) after the call minus
//   before it; bulk actions report "fds": [at the start, at the end] of the child that read the last inputs; ReadThreads
//   "fds": [before the threads start, after they are joined]
//   ReadMissing{}                     -> {outcome}   a file name that does not exist
//   Big{kind,n}                       -> {outcome, bytes, doc? (n <= 16), ctree?}   document built here by the formula of
//        XmlDocGen!BigDoc; ctree = the returned tree with runs compressed: strings as [[char, count]...], consecutive equal
//        children as [[ctree, count]...] (lossless)
//   Nest{depth,form}                  -> {outcome, depth?, names_ok?}   document built here:
//        form "closed": <a> x (depth-1), <a/>, </a> x (depth-1)   (= Render(NestTree(depth), Plain))
//        form "open"  : <a> x depth, end of file
//   bulk actions: the inputs are derived here, each one goes through readXML in a
//   forked child (a crash / sanitizer abort / hang is attributed to the input that
//   was being read; the rest continues in a fresh child); the answer is the histogram
//   of outcomes plus the inputs of every outcome not listed in arg.quiet
//   Enumerate{alphabet,maxlen,x,y,prefixlen,quiet}
//        all strings over alphabet of length <= maxlen that start with the prefix
//        alphabet[x-1] (prefixlen 1) or alphabet[x-1] alphabet[y-1] (prefixlen 2);
//        x = 0: the strings shorter than the prefix
//   Mutations{doc,alphabet,quiet}     in this order, L = length of doc, A = alphabet:
//        L truncations doc[0,k) k=0..L-1; L deletions of doc[k]; L*|A| substitutions
//        doc[k]:=a (k outer, a inner); (L+1)*|A| insertions of a before position k
//   Random{seed,n,maxtok,tokens,quiet} n pseudo-random inputs (xorshift64*): 1..maxtok
//        pieces, each a token of `tokens` (3 of 4) or one uniformly random byte
//   Batch{docs,quiet}                 the given documents
// Outcomes: "ok" | "runtime_error" | "exception:<type>" | "crash" | "timeout" | "not_run".
#include <dirent.h>
#include <fcntl.h>
#include <sys/resource.h>
#include <signal.h>
#include <sys/mman.h>
#include <sys/stat.h>
#include <sys/wait.h>
#include <time.h>
#include <unistd.h>
#include <cstdlib>
#include <cstring>
#include <atomic>
#include <functional>
#include <thread>
#include <map>
#include <set>
#include <stdexcept>
#include <string>
#include <typeinfo>
#include <vector>
#include "driver.h"
#include "rkcommon/xml/XML.h"

using vj::Json;
namespace rx = rkcommon::xml;

static bool g_chars = false;
static std::string g_tmpdir = "/tmp";
static long g_hangSecs = 120;
static long g_maxCrashes = 400;
static long g_maxInputs = 400;

static Json S(const std::string &s)
{
  if (!g_chars) return Json(s);
  Json a = Json::array();
  for (char c : s) a.push(Json(std::string(1, c)));
  return a;
}

static std::string str(const Json &j)
{
  if (j.type == Json::Arr) {
    std::string r;
    for (size_t i = 0; i < j.size(); ++i) r += j[i].str();
    return r;
  }
  return j.str();
}

// ---------------------------------------------------------------------------
// the file every input goes through (one per process: forked children get their own)
// ---------------------------------------------------------------------------
static std::string g_path;
static pid_t g_pathPid = 0;
static int g_fd = -1;

static void removeInputFile();

static const std::string &inputFile(const std::string &bytes)
{
  pid_t me = getpid();
  if (g_fd < 0 || g_pathPid != me) {
    g_path = g_tmpdir + "/xml-" + std::to_string((long)me) + ".xml";
    g_fd = open(g_path.c_str(), O_WRONLY | O_CREAT | O_TRUNC, 0644);
    if (g_fd < 0) { perror(("open " + g_path).c_str()); _exit(4); }
    if (g_pathPid == 0) atexit(removeInputFile);
    g_pathPid = me;
  }
  if (ftruncate(g_fd, 0) != 0) { perror("ftruncate"); _exit(4); }
  size_t off = 0;
  while (off < bytes.size()) {
    ssize_t n = pwrite(g_fd, bytes.data() + off, bytes.size() - off, (off_t)off);
    if (n <= 0) { perror("pwrite"); _exit(4); }
    off += (size_t)n;
  }
  return g_path;
}

static void removeInputFile()
{
  if (g_fd >= 0 && g_pathPid == getpid()) {
    close(g_fd);
    unlink(g_path.c_str());
    g_fd = -1;
  }
}

// number of open descriptors of this process (-1 if they cannot be counted, e.g. because none is left for the directory)
static long countFds()
{
  DIR *d = opendir("/proc/self/fd");
  if (!d) return -1;
  long n = 0;
  while (struct dirent *e = readdir(d))
    if (e->d_name[0] != '.') ++n;
  closedir(d);
  return n - 1;  // without the handle used for counting
}
static long g_fdDelta = 0;  // of the last call through readOne
static bool g_countFds = true;  // (off inside the bulk children: they count once at the start and once at the end)

static Json treeOf(const rx::Node &n)
{
  Json o = Json::object();
  o.set("name", S(n.name));
  Json ps = Json::array();
  for (auto &kv : n.properties) {   // std::map: ascending by name
    Json p = Json::array();
    p.push(S(kv.first));
    p.push(S(kv.second));
    ps.push(p);
  }
  o.set("props", ps);
  o.set("content", S(n.content));
  Json ch = Json::array();
  for (auto &c : n.child) ch.push(treeOf(c));
  o.set("child", ch);
  if (g_chars) return o;  // (record mode: exactly the four fields XmlJudge compares)
  // the same properties through the accessors of Node
  Json gs = Json::array();
  for (auto &kv : n.properties) {
    Json g = Json::array();
    g.push(S(n.getProp(kv.first)));
    g.push(S(n.getProp(kv.first, "\x01" "fallback")));
    g.push(Json(n.hasProp(kv.first)));
    gs.push(g);
  }
  o.set("get", gs);
  Json ab = Json::array();
  ab.push(Json(n.hasProp("zz-absent")));
  ab.push(S(n.getProp("zz-absent")));
  ab.push(S(n.getProp("zz-absent", "fb")));
  o.set("absent", ab);
  return o;
}

// run-length compressed projection of a tree (lossless): strings as [[char, count]...], equal consecutive children merged
static Json rle(const std::string &s)
{
  Json a = Json::array();
  size_t i = 0;
  while (i < s.size()) {
    size_t j = i;
    while (j < s.size() && s[j] == s[i]) ++j;
    Json e = Json::array();
    e.push(Json(std::string(1, s[i])));
    e.push(Json((long long)(j - i)));
    a.push(e);
    i = j;
  }
  return a;
}

static Json ctreeOf(const rx::Node &n)
{
  Json o = Json::object();
  o.set("name", rle(n.name));
  Json ps = Json::array();
  for (auto &kv : n.properties) {
    Json p = Json::array();
    p.push(rle(kv.first));
    p.push(rle(kv.second));
    ps.push(p);
  }
  o.set("props", ps);
  o.set("content", rle(n.content));
  Json ch = Json::array();
  Json prev;
  long long cnt = 0;
  for (auto &c : n.child) {
    Json cur = ctreeOf(c);
    if (cnt > 0 && cur == prev) { ++cnt; continue; }
    if (cnt > 0) { Json e = Json::array(); e.push(prev); e.push(Json(cnt)); ch.push(e); }
    prev = cur;
    cnt = 1;
  }
  if (cnt > 0) { Json e = Json::array(); e.push(prev); e.push(Json(cnt)); ch.push(e); }
  o.set("child", ch);
  return o;
}

// one call of the real reader; code: 'o' returned, 'r' std::runtime_error, 'x' anything else thrown
static char readOne(const std::string &bytes, rx::XMLDoc *docOut, std::string *detail)
{
  const std::string &fn = inputFile(bytes);
  const long before = g_countFds ? countFds() : 0;
  char code;
  try {
    rx::XMLDoc d = rx::readXML(fn);
    if (docOut) *docOut = d;
    code = 'o';
  } catch (const std::runtime_error &) {
    code = 'r';
  } catch (const std::exception &e) {
    if (detail) *detail = typeid(e).name();
    code = 'x';
  } catch (...) {
    if (detail) *detail = "unknown";
    code = 'x';
  }
  if (g_countFds) {
    const long after = countFds();
    g_fdDelta = (before < 0 || after < 0) ? -1000000 : after - before;
  }
  return code;
}

// the same through an explicitly named file (threads: one file per thread)
static Json observeAt(const std::string &path, const std::string &bytes)
{
  FILE *f = fopen(path.c_str(), "w");
  if (!f) { perror(("fopen " + path).c_str()); _exit(4); }
  if (!bytes.empty() && fwrite(bytes.data(), 1, bytes.size(), f) != bytes.size()) { perror("fwrite"); _exit(4); }
  fclose(f);
  Json o = Json::object();
  try {
    rx::XMLDoc d = rx::readXML(path);
    o.set("outcome", "ok");
    o.set("tree", treeOf(d));
  } catch (const std::runtime_error &) {
    o.set("outcome", "runtime_error");
  } catch (const std::exception &e) {
    o.set("outcome", std::string("exception:") + typeid(e).name());
  } catch (...) {
    o.set("outcome", "exception:unknown");
  }
  return o;
}

static std::string outcomeName(char c, const std::string &detail)
{
  switch (c) {
  case 'o': return "ok";
  case 'r': return "runtime_error";
  case 'x': return "exception:" + detail;
  case 'c': return "crash";
  case 'h': return "timeout";
  default: return "not_run";
  }
}

// ---------------------------------------------------------------------------
// bulk runs with per-input attribution of abnormal endings
// ---------------------------------------------------------------------------
struct Shared
{
  volatile long long cur;
  volatile long long beat;
  volatile long long fdStart;
  volatile long long fdEnd;
};

static double nowSecs()
{
  struct timespec ts;
  clock_gettime(CLOCK_MONOTONIC, &ts);
  return (double)ts.tv_sec + 1e-9 * (double)ts.tv_nsec;
}

static Json runBulk(long long n, const std::function<std::string(long long)> &gen, const Json &quietJ)
{
  std::set<std::string> quiet;
  for (size_t i = 0; i < quietJ.size(); ++i) quiet.insert(quietJ[i].str());
  size_t bytes = sizeof(Shared) + (size_t)n + 1;
  char *mem = (char *)mmap(nullptr, bytes, PROT_READ | PROT_WRITE, MAP_SHARED | MAP_ANONYMOUS, -1, 0);
  if (mem == MAP_FAILED) throw std::runtime_error("driver: mmap failed");
  Shared *sh = (Shared *)mem;
  char *codes = mem + sizeof(Shared);
  memset(codes, 'n', (size_t)n);
  std::map<long long, std::pair<int, int>> crashInfo;  // input -> (exit status, signal)
  long long next = 0;
  long crashes = 0;
  while (next < n && crashes <= g_maxCrashes) {
    sh->cur = next;
    sh->beat = 0;
    sh->fdStart = -1;
    sh->fdEnd = -1;
    fflush(nullptr);
    pid_t pid = fork();
    if (pid < 0) throw std::runtime_error("driver: fork failed");
    if (pid == 0) {
      g_countFds = false;
      if (next < n) readOne(gen(next), nullptr, nullptr);  // (opens this child's input file before the descriptors are counted)
      sh->fdStart = countFds();
      for (long long i = next; i < n; ++i) {
        sh->cur = i;
        sh->beat = sh->beat + 1;
        codes[i] = readOne(gen(i), nullptr, nullptr);
      }
      sh->fdEnd = countFds();
      sh->cur = n;
      removeInputFile();
      _exit(0);
    }
    int status = 0;
    bool hung = false;
    long long lastBeat = -1;
    double lastChange = nowSecs();
    for (;;) {
      pid_t w = waitpid(pid, &status, WNOHANG);
      if (w == pid) break;
      usleep(1000);
      long long b = sh->beat;
      if (b != lastBeat) {
        lastBeat = b;
        lastChange = nowSecs();
      } else if (nowSecs() - lastChange > (double)g_hangSecs) {  // no input finished for g_hangSecs seconds
        kill(pid, SIGKILL);
        waitpid(pid, &status, 0);
        hung = true;
        break;
      }
    }
    unlink((g_tmpdir + "/xml-" + std::to_string((long)pid) + ".xml").c_str());
    long long at = sh->cur;
    if (!hung && WIFEXITED(status) && WEXITSTATUS(status) == 0) break;
    if (at >= n) break;  // died after the last input
    if (WIFEXITED(status) && WEXITSTATUS(status) == 4) throw std::runtime_error("driver: cannot write the input file");
    codes[at] = hung ? 'h' : 'c';
    if (!hung) crashInfo[at] = std::make_pair(WIFEXITED(status) ? WEXITSTATUS(status) : -1, WIFSIGNALED(status) ? WTERMSIG(status) : 0);
    ++crashes;
    next = at + 1;
  }
  std::map<std::string, long long> hist;
  Json inputs = Json::array();
  long long listed = 0, unlisted = 0;
  for (long long i = 0; i < n; ++i) {
    std::string detail;
    char c = codes[i];
    if (c == 'x') readOne(gen(i), nullptr, &detail);  // thrown, not crashed: safe to repeat here for the type name
    std::string name = outcomeName(c, detail);
    hist[name] += 1;
    if (quiet.count(name)) continue;
    if (listed >= g_maxInputs) { ++unlisted; continue; }
    ++listed;
    Json e = Json::object();
    e.set("i", i);
    e.set("doc", S(gen(i)));
    e.set("outcome", name);
    if (c == 'c') {
      e.set("status", crashInfo[i].first);
      e.set("sig", crashInfo[i].second);
    }
    inputs.push(e);
  }
  Json fds = Json::array();
  fds.push(Json((long long)sh->fdStart));
  fds.push(Json((long long)sh->fdEnd));
  munmap(mem, bytes);
  Json o = Json::object();
  o.set("count", n);
  o.set("fds", fds);
  Json h = Json::object();
  for (auto &kv : hist) h.set(kv.first, kv.second);
  o.set("outcomes", h);
  o.set("inputs", inputs);
  o.set("inputs_not_listed", unlisted);
  return o;
}

static std::vector<std::string> symbols(const Json &a)
{
  std::vector<std::string> r;
  for (size_t i = 0; i < a.size(); ++i) r.push_back(str(a[i]));
  return r;
}

struct World
{
  World(const Json &hist)
  {
    g_chars = hist.has("chars") && hist["chars"].boolean();
    if (hist.has("tmpdir")) g_tmpdir = hist["tmpdir"].str();
    if (hist.has("hang_s")) g_hangSecs = (long)hist["hang_s"].num();
    if (hist.has("max_crashes")) g_maxCrashes = (long)hist["max_crashes"].num();
    if (hist.has("max_inputs")) g_maxInputs = (long)hist["max_inputs"].num();
    std::cout.rdbuf(nullptr);  // the reader prints a warning on std::cout for files that end inside a node
  }

  Json step(const Json &action)
  {
    const std::string a = action["a"].str();
    const Json &arg = action["arg"];
    Json o = Json::object();
    if (a == "Read") {
      rx::XMLDoc doc;
      std::string detail;
      char c = readOne(str(arg["doc"]), &doc, &detail);
      o.set("outcome", outcomeName(c, detail));
      o.set("fd_delta", (long long)g_fdDelta);
      if (c == 'o') o.set("tree", treeOf(doc));
    } else if (a == "ReadRep") {
      int pfd[2];
      if (pipe(pfd) != 0) throw std::runtime_error("driver: pipe failed");
      fflush(nullptr);
      pid_t pid = fork();
      if (pid < 0) throw std::runtime_error("driver: fork failed");
      if (pid == 0) {
        close(pfd[0]);
        struct rlimit rl;
        getrlimit(RLIMIT_NOFILE, &rl);
        rl.rlim_cur = (rlim_t)arg["nofile"].num();
        setrlimit(RLIMIT_NOFILE, &rl);
        getrlimit(RLIMIT_NOFILE, &rl);
        Json res = Json::object();
        res.set("nofile", (long long)rl.rlim_cur);
        readOne("<a/>", nullptr, nullptr);  // (opens this child's input file before the descriptors are counted)
        const long start = countFds();
        Json parts = Json::array();
        for (size_t k = 0; k < arg["parts"].size(); ++k) {
          const std::string d = str(arg["parts"][k]["doc"]);
          const long long n = arg["parts"][k]["n"].num();
          Json first;
          std::set<std::string> seen;
          long lo = 0, hi = 0;
          for (long long i = 0; i < n; ++i) {
            rx::XMLDoc doc;
            std::string detail;
            char c = readOne(d, &doc, &detail);
            Json ob = Json::object();
            ob.set("outcome", outcomeName(c, detail));
            if (c == 'o') ob.set("tree", treeOf(doc));
            if (i == 0) { first = ob; lo = hi = g_fdDelta; }
            lo = std::min(lo, g_fdDelta);
            hi = std::max(hi, g_fdDelta);
            seen.insert(ob.dump());
          }
          Json pr = Json::object();
          pr.set("first", first);
          pr.set("reads", n);
          pr.set("distinct", (long long)seen.size());
          pr.set("fd_delta_min", (long long)lo);
          pr.set("fd_delta_max", (long long)hi);
          parts.push(pr);
        }
        const long end = countFds();
        res.set("parts", parts);
        res.set("fd_delta_total", (long long)((start < 0 || end < 0) ? -1000000 : end - start));
        std::string out = res.dump();
        size_t off = 0;
        while (off < out.size()) {
          ssize_t w = write(pfd[1], out.data() + off, out.size() - off);
          if (w <= 0) _exit(5);
          off += (size_t)w;
        }
        close(pfd[1]);
        removeInputFile();
        _exit(0);
      }
      close(pfd[1]);
      std::string in;
      char buf[65536];
      for (;;) {
        ssize_t r = read(pfd[0], buf, sizeof buf);
        if (r <= 0) break;
        in.append(buf, (size_t)r);
      }
      close(pfd[0]);
      int status = 0;
      waitpid(pid, &status, 0);
      unlink((g_tmpdir + "/xml-" + std::to_string((long)pid) + ".xml").c_str());
      if (WIFEXITED(status) && WEXITSTATUS(status) == 0 && !in.empty()) o = vj::parse(in);
      else {
        o.set("child_status", WIFEXITED(status) ? WEXITSTATUS(status) : -1);
        o.set("child_signal", WIFSIGNALED(status) ? WTERMSIG(status) : 0);
      }
    } else if (a == "ReadSeq") {
      Json steps = Json::array();
      for (size_t i = 0; i < arg["docs"].size(); ++i) {
        rx::XMLDoc doc;
        std::string detail;
        char c = readOne(str(arg["docs"][i]), &doc, &detail);
        Json st = Json::object();
        st.set("outcome", outcomeName(c, detail));
        st.set("fd_delta", (long long)g_fdDelta);
        if (c == 'o') st.set("tree", treeOf(doc));
        steps.push(st);
      }
      o.set("steps", steps);
    } else if (a == "ReadThreads") {
      const Json &T = arg["threads"];
      const long long rounds = arg["rounds"].num();
      const size_t nt = T.size();
      std::vector<std::vector<std::string>> docs(nt);
      for (size_t t = 0; t < nt; ++t)
        for (size_t i = 0; i < T[t].size(); ++i) docs[t].push_back(str(T[t][i]));
      std::vector<std::vector<Json>> first(nt);
      std::vector<std::vector<std::set<std::string>>> seen(nt);
      for (size_t t = 0; t < nt; ++t) { first[t].resize(docs[t].size()); seen[t].resize(docs[t].size()); }
      const long fdBefore = countFds();
      std::atomic<size_t> ready(0);
      std::vector<std::thread> th;
      for (size_t t = 0; t < nt; ++t) {
        th.emplace_back([&, t]() {
          const std::string path = g_tmpdir + "/xml-" + std::to_string((long)getpid()) + "-t" + std::to_string(t) + ".xml";
          ready.fetch_add(1);
          while (ready.load() < nt) { }  // spin barrier
          for (long long r = 0; r < rounds; ++r)
            for (size_t i = 0; i < docs[t].size(); ++i) {
              Json ob = observeAt(path, docs[t][i]);
              if (r == 0) first[t][i] = ob;
              seen[t][i].insert(ob.dump());
            }
          unlink(path.c_str());
        });
      }
      for (auto &x : th) x.join();
      Json out = Json::array();
      for (size_t t = 0; t < nt; ++t) {
        Json per = Json::array();
        for (size_t i = 0; i < docs[t].size(); ++i) {
          Json e = Json::object();
          e.set("first", first[t][i]);
          e.set("distinct", (long long)seen[t][i].size());
          per.push(e);
        }
        out.push(per);
      }
      o.set("threads", out);
      Json fds = Json::array();
      fds.push(Json((long long)fdBefore));
      fds.push(Json((long long)countFds()));
      o.set("fds", fds);
    } else if (a == "ReadMissing") {
      const std::string path = g_tmpdir + "/no-such-file-" + std::to_string((long)getpid()) + ".xml";
      unlink(path.c_str());
      const long fdBefore = countFds();
      try {
        rx::XMLDoc d = rx::readXML(path);
        o.set("outcome", "ok");
      } catch (const std::runtime_error &) {
        o.set("outcome", "runtime_error");
      } catch (const std::exception &e) {
        o.set("outcome", std::string("exception:") + typeid(e).name());
      } catch (...) {
        o.set("outcome", "exception:unknown");
      }
      o.set("fd_delta", (long long)(countFds() - fdBefore));
    } else if (a == "Big") {
      const std::string kind = arg["kind"].str();
      const long long n = arg["n"].num();
      auto rp = [](long long k, char c) { return std::string((size_t)(k < 0 ? 0 : k), c); };
      std::string s;
      if (kind == "name") s = "<" + rp(n, 'a') + "/>";
      else if (kind == "value") s = "<a q=\"" + rp(n, 'v') + "\"/>";
      else if (kind == "content") s = "<a>" + rp(n, 't') + "</a>";
      else if (kind == "comment") s = "<a><!--" + rp(n, 'c') + "--><b/></a>";
      else if (kind == "blank") s = "<a>" + rp(n, ' ') + "<b/></a>";
      else if (kind == "attrs") {
        s = "<a";
        for (long long k = 1; k <= n; ++k) {
          char buf[40];
          snprintf(buf, sizeof buf, " p%05lld=\"%05lld\"", k, k);
          s += buf;
        }
        s += "/>";
      } else if (kind == "children") {
        s = "<a>";
        for (long long k = 0; k < n; ++k) s += "<b/>";
        s += "</a>";
      } else if (kind == "size") s = "<a>" + rp(n - 7, 't') + "</a>";
      else if (kind == "sizepad") s = "<a/>" + rp(n - 4, '\n');
      else { o.set("unknown_action", "Big/" + kind); return o; }
      rx::XMLDoc doc;
      std::string detail;
      char c = readOne(s, &doc, &detail);
      o.set("outcome", outcomeName(c, detail));
      o.set("fd_delta", (long long)g_fdDelta);
      o.set("bytes", (long long)s.size());
      if (n <= 16) o.set("doc", s);
      if (c == 'o') o.set("ctree", ctreeOf(doc));
    } else if (a == "Nest") {
      long long d = arg["depth"].num();
      const std::string form = arg["form"].str();
      std::string s;
      if (form == "closed") {
        for (long long i = 0; i + 1 < d; ++i) s += "<a>";
        s += "<a/>";
        for (long long i = 0; i + 1 < d; ++i) s += "</a>";
      } else {
        for (long long i = 0; i < d; ++i) s += "<a>";
      }
      rx::XMLDoc doc;
      std::string detail;
      char c = readOne(s, &doc, &detail);
      o.set("outcome", outcomeName(c, detail));
      o.set("fd_delta", (long long)g_fdDelta);
      o.set("bytes", (long long)s.size());
      if (c == 'o') {
        long long depth = 0;
        bool chain = doc.name.empty() && doc.content.empty() && doc.properties.empty();
        const rx::Node *n = &doc;
        while (n->child.size() == 1) {
          n = &n->child[0];
          ++depth;
          chain = chain && n->name == "a" && n->content.empty() && n->properties.empty();
        }
        o.set("depth", depth);
        o.set("chain", chain && n->child.empty());
      }
    } else if (a == "Enumerate") {
      std::vector<std::string> A = symbols(arg["alphabet"]);
      long long K = (long long)A.size();
      long long maxlen = arg["maxlen"].num(), x = arg["x"].num(), y = arg["y"].num(), pl = arg["prefixlen"].num();
      std::string pre;
      long long lo = 0, hi = 0;  // lengths of the free part
      if (x == 0) { lo = 0; hi = pl - 1; }
      else {
        pre = A.at((size_t)x - 1);
        if (pl == 2) pre += A.at((size_t)y - 1);
        lo = 0;
        hi = maxlen - pl;
      }
      std::vector<long long> start;  // first index of the strings whose free part has length lo + b
      long long total = 0, pw = 1;
      for (long long k = lo; k <= hi; ++k) {
        start.push_back(total);
        total += pw;  // K^k strings have a free part of length k (lo is 0)
        pw *= K;
      }
      auto gen = [&](long long i) {
        size_t b = start.size() - 1;
        while (start[b] > i) --b;
        long long k = lo + (long long)b, r = i - start[b];
        std::string s = pre, t;
        for (long long j = 0; j < k; ++j) { t += A[(size_t)(r % K)]; r /= K; }
        return s + t;
      };
      o = runBulk(hi < lo ? 0 : total, gen, arg["quiet"]);
    } else if (a == "Mutations") {
      const std::string d = str(arg["doc"]);
      std::vector<std::string> A = symbols(arg["alphabet"]);
      long long L = (long long)d.size(), K = (long long)A.size();
      long long n = L + L + L * K + (L + 1) * K;
      auto gen = [&](long long i) {
        if (i < L) return d.substr(0, (size_t)i);
        i -= L;
        if (i < L) return d.substr(0, (size_t)i) + d.substr((size_t)i + 1);
        i -= L;
        if (i < L * K) return d.substr(0, (size_t)(i / K)) + A[(size_t)(i % K)] + d.substr((size_t)(i / K) + 1);
        i -= L * K;
        return d.substr(0, (size_t)(i / K)) + A[(size_t)(i % K)] + d.substr((size_t)(i / K));
      };
      o = runBulk(n, gen, arg["quiet"]);
    } else if (a == "Random") {
      std::vector<std::string> T = symbols(arg["tokens"]);
      unsigned long long seed = (unsigned long long)arg["seed"].num();
      long long n = arg["n"].num(), maxtok = arg["maxtok"].num();
      auto gen = [&](long long i) {
        unsigned long long x = (seed + 1) * 0x9E3779B97F4A7C15ull + (unsigned long long)(i + 1) * 0xD1B54A32D192ED03ull;
        auto next = [&]() {
          x ^= x >> 12; x ^= x << 25; x ^= x >> 27;
          return x * 0x2545F4914F6CDD1Dull;
        };
        next();
        long long k = 1 + (long long)(next() >> 33) % maxtok;
        std::string s;
        for (long long j = 0; j < k; ++j) {
          unsigned long long r = next() >> 33;
          if ((r & 3) != 0 && !T.empty()) s += T[(size_t)((r >> 2) % T.size())];
          else s += (char)(unsigned char)((r >> 2) & 0xff);
        }
        return s;
      };
      o = runBulk(n, gen, arg["quiet"]);
    } else if (a == "Batch") {
      std::vector<std::string> D = symbols(arg["docs"]);
      auto gen = [&](long long i) { return D[(size_t)i]; };
      o = runBulk((long long)D.size(), gen, arg["quiet"]);
    } else if (a == "Policy") {
      o.set("ran", true);
    } else {
      o.set("unknown_action", a);
    }
    return o;
  }
};

int main(int argc, char **argv)
{
  return vdrv::run<World>(argc, argv);
}
