// Recorder for the real enki::LockLessMultiReadPipe (Internal tasking backend, property C01):
// the template is instantiated with 2 and 4 slots, so that "pipe full" and index
// wrap-around happen all the time (the production size of 256 never fills in any test).
// One writer thread (WriterTryWriteFront / WriterTryReadFront in a seeded random mix) and
// R reader threads (ReaderTryReadBack); unique item values; every call is logged with the
// stamps of its invocation and of its response (one atomic counter).  After the readers
// stopped the writer drains the pipe.  TLC validates the log against PipeContract:
// every written item is handed out exactly once, only written items are handed out, and
// nothing is left behind.
//   drv_pipe --out file --seed S --execs N --ops K --readers R --slotslog2 1|2
#include <algorithm>
#include <atomic>
#include <fstream>
#include <random>
#include <thread>
#include <vector>
#include <sched.h>
#include "json.h"
#include "rkcommon/tasking/detail/enkiTS/LockLessMultiReadPipe.h"

using vj::Json;

struct Item { int v; int pad; };
struct Ev { long s0, s1; int t; char op; int v; bool ok; };

static std::atomic<long> g_stamp{0};

template <int LOG2>
static Json runOne(unsigned seed, int ops, int readers)
{
  enki::LockLessMultiReadPipe<LOG2, Item> *pipe = new enki::LockLessMultiReadPipe<LOG2, Item>();
  std::vector<std::vector<Ev>> logs(readers + 1);
  std::atomic<bool> stop{false};
  g_stamp = 0;
  std::vector<std::thread> ths;
  for (int r = 0; r < readers; ++r) {
    ths.emplace_back([&, r] {
      std::vector<Ev> &lg = logs[r + 1];
      while (!stop.load()) {
        Item it; it.v = -1;
        long s0 = g_stamp++;
        bool ok = pipe->ReaderTryReadBack(&it);
        long s1 = g_stamp++;
        if (ok) lg.push_back(Ev{s0, s1, r + 1, 'B', it.v, true});
        else std::this_thread::yield();
      }
    });
  }
  {
    std::mt19937 rng(seed);
    std::vector<Ev> &lg = logs[0];
    int next = 1;
    for (int k = 0; k < ops; ++k) {
      if (rng() % 100 < 70) {
        Item it; it.v = next; it.pad = 0;
        long s0 = g_stamp++;
        bool ok = pipe->WriterTryWriteFront(it);
        long s1 = g_stamp++;
        lg.push_back(Ev{s0, s1, 0, 'W', next, ok});
        ++next;
      } else {
        Item it; it.v = -1;
        long s0 = g_stamp++;
        bool ok = pipe->WriterTryReadFront(&it);
        long s1 = g_stamp++;
        if (ok) lg.push_back(Ev{s0, s1, 0, 'F', it.v, true});
      }
      if (rng() % 8 == 0) std::this_thread::yield();
    }
  }
  // let the readers take what they can, then stop them and drain as the writer
  for (int i = 0; i < 2000 && !pipe->IsPipeEmpty(); ++i) std::this_thread::yield();
  stop = true;
  for (auto &t : ths) t.join();
  for (int i = 0; i < 64; ++i) {
    Item it; it.v = -1;
    long s0 = g_stamp++;
    bool ok = pipe->WriterTryReadFront(&it);
    long s1 = g_stamp++;
    if (ok) logs[0].push_back(Ev{s0, s1, 0, 'F', it.v, true});
    else break;
  }
  // events: write invocation (offered from then on), write response (ok?), read response (value handed out)
  struct X { long s; Json j; };
  std::vector<X> xs;
  for (auto &lg : logs)
    for (auto &e : lg) {
      if (e.op == 'W') {
        Json a = Json::object(); a.set("ev", "WInv").set("v", e.v); xs.push_back(X{e.s0, a});
        Json b = Json::object(); b.set("ev", "WRet").set("v", e.v).set("ok", e.ok); xs.push_back(X{e.s1, b});
      } else {
        Json a = Json::object(); a.set("ev", "Got").set("v", e.v).set("t", e.t).set("front", e.op == 'F'); xs.push_back(X{e.s1, a});
      }
    }
  std::sort(xs.begin(), xs.end(), [](const X &a, const X &b) { return a.s < b.s; });
  Json evs = Json::array();
  for (auto &x : xs) evs.push(x.j);
  Json end = Json::object(); end.set("ev", "End"); evs.push(end);
  delete pipe;
  return evs;
}

// ---- enki::LocklessMultiWriteIntrusiveList (multi-writer, single reader) -----------------------------------
// writers add distinct nodes, the owner reads; same event vocabulary as the pipe (WInv/WRet/Got/End), so the
// executions are validated against the same contract (PipeContract): exactly-once hand-out, nothing left behind
struct LNode { LNode *volatile pNext; int v; };

static Json runList(unsigned seed, int perWriter, int writers, int cpus)
{
  if (cpus > 0) {
    cpu_set_t set; CPU_ZERO(&set);
    for (int c = 0; c < cpus; ++c) CPU_SET(c, &set);
    sched_setaffinity(0, sizeof(set), &set);
  }
  enki::LocklessMultiWriteIntrusiveList<LNode> *list = new enki::LocklessMultiWriteIntrusiveList<LNode>();
  std::vector<std::vector<Ev>> logs(writers + 1);
  std::vector<LNode> nodes((size_t)writers * perWriter);
  std::atomic<int> writersDone{0};
  g_stamp = 0;
  std::vector<std::thread> ths;
  for (int w = 0; w < writers; ++w) {
    ths.emplace_back([&, w] {
      std::mt19937 rng(seed * 31 + w);
      for (int k = 0; k < perWriter; ++k) {
        LNode *n = &nodes[(size_t)w * perWriter + k];
        n->v = w * perWriter + k + 1;
        long s0 = g_stamp++;
        list->WriterWriteFront(n);
        long s1 = g_stamp++;
        logs[w + 1].push_back(Ev{s0, s1, w + 1, 'W', n->v, true});
        if (rng() % 4 == 0) std::this_thread::yield();
      }
      writersDone++;
    });
  }
  {
    std::vector<Ev> &lg = logs[0];
    int idle = 0;
    while (idle < 2000) {
      long s0 = g_stamp++;
      LNode *n = list->ReaderReadBack();
      long s1 = g_stamp++;
      if (n) { lg.push_back(Ev{s0, s1, 0, 'B', n->v, true}); idle = 0; }
      else if (writersDone.load() == writers) ++idle;
      else std::this_thread::yield();
    }
  }
  for (auto &t : ths) t.join();
  struct X { long s; Json j; };
  std::vector<X> xs;
  for (auto &lg : logs)
    for (auto &e : lg) {
      if (e.op == 'W') {
        Json a = Json::object(); a.set("ev", "WInv").set("v", e.v); xs.push_back(X{e.s0, a});
        Json b = Json::object(); b.set("ev", "WRet").set("v", e.v).set("ok", true); xs.push_back(X{e.s1, b});
      } else {
        Json a = Json::object(); a.set("ev", "Got").set("v", e.v).set("t", e.t).set("front", false); xs.push_back(X{e.s1, a});
      }
    }
  std::sort(xs.begin(), xs.end(), [](const X &a, const X &b) { return a.s < b.s; });
  Json evs = Json::array();
  for (auto &x : xs) evs.push(x.j);
  Json end = Json::object(); end.set("ev", "End"); evs.push(end);
  // the list object is leaked on purpose (nodes may still be linked from it)
  return evs;
}

int main(int argc, char **argv)
{
  std::string out;
  unsigned seed = 1; int execs = 10, ops = 40, readers = 3, log2 = 1, listWriters = 0, cpus = 0;
  for (int i = 1; i < argc; ++i) {
    std::string a = argv[i];
    if (a == "--out" && i + 1 < argc) out = argv[++i];
    else if (a == "--seed" && i + 1 < argc) seed = (unsigned)atol(argv[++i]);
    else if (a == "--execs" && i + 1 < argc) execs = atoi(argv[++i]);
    else if (a == "--ops" && i + 1 < argc) ops = atoi(argv[++i]);
    else if (a == "--readers" && i + 1 < argc) readers = atoi(argv[++i]);
    else if (a == "--slotslog2" && i + 1 < argc) log2 = atoi(argv[++i]);
    else if (a == "--list" && i + 1 < argc) { listWriters = atoi(argv[++i]); }
    else if (a == "--cpus" && i + 1 < argc) { cpus = atoi(argv[++i]); }
  }
  std::ofstream of(out);
  for (int k = 0; k < execs; ++k) {
    Json r = Json::object();
    r.set("id", k);
    if (listWriters > 0) r.set("events", runList(seed * 1000 + k, ops, listWriters, cpus));
    else r.set("events", log2 == 1 ? runOne<1>(seed * 1000 + k, ops, readers) : runOne<2>(seed * 1000 + k, ops, readers));
    of << r.dump() << "\n";
  }
  return 0;
}
