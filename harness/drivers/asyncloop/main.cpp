// Schedule controller and recorder for rkcommon::tasking::AsyncLoop (property C03).
//
// The loop thread ("L") and the controlling thread ("C") run the REAL AsyncLoop
// code; every RKCOMMON_VERIF_POINT in AsyncLoop.h (and the harness points H_next,
// H_settle, B_in) parks the calling thread until the scheduler grants it the next
// step, so executions are serialised and a chosen interleaving can be forced:
//   follow : grant threads in the order of a TLC-generated path of spec/tasking/AsyncLoop.tla
//            (list of [process, label]); when the path ends or cannot be followed, continue at random
//   random : seeded random choice among parked threads; a granted thread that does not
//            reach its next point within a timeout is taken to be blocked in the kernel
//   free   : no serialisation, seeded random delays at the points
// Everything that happens is logged with stamps from one counter taken under one
// mutex: grants (= steps of the mechanism model), and the contract events
// StartCall/StartRet/StopCall/StopRet/DtorCall/DtorRet/BodyEnter/BodyExit/SettleOk/SettleTimeout.
// The verdict is TLC's: the orchestrator validates the contract events against
// spec/tasking/AsyncLoopContract.tla and the grants against the mechanism model.
#include <atomic>
#include <chrono>
#include <condition_variable>
#include <fstream>
#include <iostream>
#include <memory>
#include <mutex>
#include <random>
#include <thread>
#include "json.h"
#include "rkcommon/tasking/AsyncLoop.h"
#include "rkcommon/tasking/tasking_system_init.h"

using vj::Json;
using rkcommon::tasking::AsyncLoop;
typedef std::chrono::steady_clock Clock;

enum St { NotStarted, Running, Parked, Blocked, Done, Granted };
enum Mode { FOLLOW, RANDOM, FREE };

struct Th
{
  St st = NotStarted;
  std::string site;
  bool grant = false;
};

static Clock::time_point T0;
struct Ev
{
  long us;
  long s;
  char t;
  std::string e;    // "G" grant, "W" autonomous wake-up observed, or a contract event
  std::string site;
};

static std::mutex M;
static std::condition_variable CV;
static Th th[2];     // 0 = L, 1 = C
static std::vector<Ev> events;
static long stampCtr = 0;
static Mode mode = RANDOM;
static bool enteredSinceStart = false, startedFlag = false;
static std::atomic<unsigned> freeRng{12345};
static int blockMs = 25;

static int tidOf(const char *site)
{
  return (site[0] == 'L' || site[0] == 'B') ? 0 : 1;
}

static void logLocked(char t, const std::string &e, const std::string &site)
{
  events.push_back(Ev{(long)std::chrono::duration_cast<std::chrono::microseconds>(Clock::now() - T0).count(), stampCtr++, t, e, site});
}

static void logEvent(char t, const std::string &e)
{
  std::unique_lock<std::mutex> lk(M);
  logLocked(t, e, "");
}

static void freeDelay()
{
  unsigned x = freeRng.load();
  x ^= x << 13; x ^= x >> 17; x ^= x << 5;
  freeRng.store(x);
  unsigned k = x % 16;
  if (k < 6) return;
  if (k < 11) { std::this_thread::yield(); return; }
  if (k < 15) { for (volatile int i = 0; i < (int)(x % 4000); ++i) {} return; }
  std::this_thread::sleep_for(std::chrono::microseconds(x % 300));
}

static std::atomic<bool> loopExited{false};
static std::atomic<long> curExec{0};

static void pointFcn(const char *site, const void *)
{
  if (mode == FREE) {
    if (site[0] == 'L' && site[2] == 'e' && site[3] == 'x') loopExited = true;   // "L_exit": mainLoop is returning
    else freeDelay();
    return;
  }
  int t = tidOf(site);
  std::unique_lock<std::mutex> lk(M);
  bool wasBlocked = th[t].st == Blocked;
  th[t].st = Parked;
  th[t].site = site;
  if (getenv("VERIF_AL_DEBUG")) logLocked(t == 0 ? 'L' : 'C', wasBlocked ? "AB" : "A", site);
  if (wasBlocked && t == 0 && std::string(site) == "L_pred")
    logLocked('L', "W", "L_wait");   // the loop thread was notified and came back from the kernel
  CV.notify_all();
  CV.wait(lk, [&] { return th[t].grant; });
  th[t].grant = false;
  th[t].st = Running;
  CV.notify_all();
  logLocked(t == 0 ? 'L' : 'C', "G", site);
  if (std::string(site) == "L_exit") {
    th[0].st = Done;
    CV.notify_all();
  }
}

static void bodyFcn(long execId)
{
  // a loop task of an earlier execution that is still winding down (TASK launch: the destructor does not
  // wait for it) must not write into the log of the current execution
  if (execId != curExec.load()) return;
  {
    std::unique_lock<std::mutex> lk(M);
    logLocked('L', "BodyEnter", "");
    enteredSinceStart = true;
  }
  if (mode == FREE) {
    for (int i = 0; i < 3; ++i) freeDelay();
  } else {
    pointFcn("B_in", nullptr);
  }
  if (execId == curExec.load()) logEvent('L', "BodyExit");
}

struct Exec
{
  std::vector<std::string> script;
  AsyncLoop::LaunchMethod method;
  long settleMs;
};

static void ctlThread(const Exec &ex)
{
  {
    std::unique_ptr<AsyncLoop> al;
    const long myExec = curExec.load();
    al.reset(new AsyncLoop([myExec] { bodyFcn(myExec); }, ex.method));
    for (size_t ip = 0; ip <= ex.script.size(); ++ip) {
      const std::string c = ip < ex.script.size() ? ex.script[ip] : "destroy";
      pointFcn("H_next", nullptr);
      if (c == "settle") {
        if (mode == FREE) {
          bool need;
          { std::unique_lock<std::mutex> lk(M); need = startedFlag && !enteredSinceStart; }
          if (need) {
            auto t0 = Clock::now();
            bool ok = false;
            while (std::chrono::duration_cast<std::chrono::milliseconds>(Clock::now() - t0).count() < ex.settleMs) {
              { std::unique_lock<std::mutex> lk(M); if (enteredSinceStart) { ok = true; break; } }
              std::this_thread::sleep_for(std::chrono::microseconds(200));
            }
            logEvent('C', ok ? "SettleOk" : "SettleTimeout");
          }
        } else {
          pointFcn("H_settle", nullptr);   // the scheduler grants this only when a body entry happened, or logs SettleTimeout
        }
        continue;
      }
      if (c == "start") {
        { std::unique_lock<std::mutex> lk(M); logLocked('C', "StartCall", ""); enteredSinceStart = false; startedFlag = false; }
        al->start();
        { std::unique_lock<std::mutex> lk(M); logLocked('C', "StartRet", ""); startedFlag = true; }
      } else if (c == "stop") {
        { std::unique_lock<std::mutex> lk(M); logLocked('C', "StopCall", ""); startedFlag = false; }
        al->stop();
        logEvent('C', "StopRet");
      } else {   // destroy
        { std::unique_lock<std::mutex> lk(M); logLocked('C', "DtorCall", ""); startedFlag = false; }
        al.reset();
        logEvent('C', "DtorRet");
        break;
      }
    }
    pointFcn("H_next", nullptr);   // the model's last step: the script is exhausted
  }
  std::unique_lock<std::mutex> lk(M);
  th[1].st = Done;
  CV.notify_all();
}

static bool ownedThread = true;

// model-aware enabledness (used while following a TLC path and while draining after it, so that the
// recorded steps stay comparable with the mechanism model; the random mode does not use it)
static bool lockBlocked(int t)
{
  if (t == 1)
    return (th[1].site == "T_lock" || th[1].site == "D_lock") && th[0].st == Parked && th[0].site == "L_predexit";
  return (th[0].site == "L_lock" || th[0].site == "L_pred") && th[1].st == Parked && th[1].site == "D_mid";
}
static bool joinBlocked(int t)
{
  return t == 1 && th[1].site == "D_join" && ownedThread && th[0].st != Done;
}

static bool settleBlocked()
{
  // C parked at H_settle may only continue once the body was entered after the last start()
  return th[1].st == Parked && th[1].site == "H_settle" && startedFlag && !enteredSinceStart;
}

int main(int argc, char **argv)
{
  std::string in, out;
  for (int i = 1; i < argc; ++i) {
    std::string a = argv[i];
    if (a == "--in" && i + 1 < argc) in = argv[++i];
    else if (a == "--out" && i + 1 < argc) out = argv[++i];
    else if (a == "--block-ms" && i + 1 < argc) blockMs = atoi(argv[++i]);
  }
  if (in.empty() || out.empty()) { fprintf(stderr, "usage: --in schedules.ndjson --out events.ndjson\n"); return 2; }
  rkcommon::tasking::initTaskingSystem(6);
  rkcommon::verif::setPointFcn(pointFcn);
  std::ifstream f(in);
  std::ofstream of(out);
  std::string line;
  while (std::getline(f, line)) {
    if (line.empty()) continue;
    Json j = vj::parse(line);
    Exec ex;
    for (size_t i = 0; i < j["script"].size(); ++i) {
      const std::string c = j["script"][i].str();
      if (c != "destroy") ex.script.push_back(c);
    }
    ex.method = j["method"].str() == "TASK" ? AsyncLoop::TASK : AsyncLoop::THREAD;
    ownedThread = ex.method == AsyncLoop::THREAD;
    ex.settleMs = j.has("settle_ms") ? j["settle_ms"].num() : 2000;
    const std::string ms = j["mode"].str();
    mode = ms == "follow" ? FOLLOW : ms == "free" ? FREE : RANDOM;
    std::mt19937 rng((unsigned)j["seed"].num());
    freeRng.store((unsigned)j["seed"].num() * 2654435761u + 1);
    const Json &sched = j["sched"];
    size_t sp = 0;
    Json drift;
    bool stuck = false, livelock = false;
    {
      std::unique_lock<std::mutex> lk(M);
      events.clear();
      stampCtr = 0;
      th[0] = Th();
      th[1] = Th();
      th[1].st = Running;
      th[0].st = Running;   // the loop thread is started by the constructor
      enteredSinceStart = false;
      startedFlag = false;
    }
    auto tStart = Clock::now();
    T0 = tStart;
    loopExited = false;
    curExec++;
    std::thread c(ctlThread, std::cref(ex));
    if (mode != FREE) {
      std::unique_lock<std::mutex> lk(M);
      bool following = mode == FOLLOW;
      const bool aware = mode == FOLLOW;
      int idleMs = 0;
      long grants = 0;
      std::string lastSite;
      for (;;) {
        // a script has at most a dozen calls and a model path at most a few hundred steps: an execution that is still
        // being granted steps after 4000 of them does not terminate (livelock) - report it instead of logging for ever
        if (grants > 4000) { livelock = true; break; }
        // let every running thread reach its next point (or decide that it is blocked in the kernel)
        auto quiet = [&] { return th[0].st != Running && th[1].st != Running && th[0].st != Granted && th[1].st != Granted; };
        // (model-aware modes never grant a step that blocks in the kernel, except the loop thread's wait(), which is
        // handled below: there a thread that is slow to park is just slow, so wait much longer before giving up on it)
        if (!CV.wait_for(lk, std::chrono::milliseconds(aware ? 2000 : blockMs), quiet)) {
          // a thread that has not even consumed its grant yet (no CPU) is not blocked: keep waiting for it
          if (th[0].st == Granted || th[1].st == Granted) continue;
          for (int t = 0; t < 2; ++t)
            if (th[t].st == Running) th[t].st = Blocked;
        }
        if ((lastSite == "T_notify" || lastSite == "D_notify") && th[0].st == Blocked) {
          // a notify was just issued: let the notified loop thread come back from the kernel (it parks at
          // L_pred) before anybody else is granted, so that the wake-up is logged where it happened
          CV.wait_for(lk, std::chrono::milliseconds(20), [&] { return th[0].st == Parked; });
        }
        lastSite.clear();
        if (th[1].st == Done && th[0].st == Done) break;
        int pick = -1;
        if (following && sp >= sched.size()) following = false;
        if (following) {
          const std::string p = sched[sp][0].str(), lbl = sched[sp][1].str();
          int t = p == "L" ? 0 : 1;
          if (lbl == "L_wait") {
            // autonomous step of the real thread: it wakes up and parks at L_pred
            if (!(th[0].st == Parked && th[0].site == "L_pred")) {
              CV.wait_for(lk, std::chrono::milliseconds(200), [&] { return th[0].st == Parked && th[0].site == "L_pred"; });
            }
            if (th[0].st == Parked && th[0].site == "L_pred") { ++sp; continue; }
            drift = Json::object();
            drift.set("at", (long long)sp).set("expected", lbl).set("found", th[0].st == Parked ? th[0].site : std::string("not-parked"));
            following = false;
            continue;
          }
          if (th[t].st != Parked) {
            CV.wait_for(lk, std::chrono::milliseconds(200), [&] { return th[t].st == Parked; });
          }
          if (th[t].st == Parked && th[t].site == lbl && !(t == 1 && settleBlocked())) {
            pick = t;
            ++sp;
          } else {
            drift = Json::object();
            drift.set("at", (long long)sp).set("proc", p).set("expected", lbl).set("found", th[t].st == Parked ? th[t].site : std::string("not-parked"));
            following = false;
            continue;
          }
        } else {
          int cand[2], n = 0;
          for (int t = 0; t < 2; ++t)
            if (th[t].st == Parked && !(t == 1 && settleBlocked()) && !(aware && (lockBlocked(t) || joinBlocked(t)))) cand[n++] = t;
          if (n == 0) {
            bool anyAlive = th[0].st != Done || th[1].st != Done;
            if (!anyAlive) break;
            // nobody can be granted: wait for arrivals (a notified thread coming back, a join returning)
            if (idleMs < 2000) {
              St s0 = th[0].st, s1 = th[1].st;
              CV.wait_for(lk, std::chrono::milliseconds(10), [&] { return th[0].st != s0 || th[1].st != s1; });
              idleMs += 10;
              continue;
            }
            idleMs = 0;
            if (settleBlocked()) {
              // the loop thread is not going to enter the body: lost wake-up / no progress
              logLocked('C', "SettleTimeout", "");
              enteredSinceStart = true;   // let the script continue so that the object is destroyed
              continue;
            }
            stuck = true;
            break;
          }
          idleMs = 0;
          pick = cand[rng() % n];
        }
        if (pick == 1 && th[1].site == "H_settle" && startedFlag) logLocked('C', "SettleOk", "");
        ++grants;
        th[pick].grant = true;
        th[pick].st = Granted;
        lastSite = th[pick].site;
        // a thread granted at L_predexit either blocks in wait() or continues: do not wait the full timeout for it
        CV.notify_all();
        if (pick == 0 && th[0].site == "L_predexit") {
          CV.wait_for(lk, std::chrono::milliseconds(2000), [&] { return th[0].st != Granted; });
          CV.wait_for(lk, std::chrono::microseconds(500), [&] { return th[0].st != Running; });
          if (th[0].st == Running) th[0].st = Blocked;
        }
      }
    }
    if (stuck || livelock) {
      // cannot tear down cleanly: report and leave (threads are blocked in the kernel, or never stop asking for steps)
      Json r = Json::object();
      r.set("id", j["id"]).set(stuck ? "stuck" : "hang", true);
      Json evs = Json::array();
      size_t kept = 0;
      for (auto &e : events) {
        if (livelock && ++kept > 600) break;   // a prefix is enough: the verdict is the missing termination
        Json x = Json::object(); x.set("s", (long long)e.s).set("t", std::string(1, e.t)).set("e", e.e).set("site", e.site); evs.push(x); }
      r.set("events", evs);
      of << r.dump() << "\n";
      of.flush();
      _exit(3);
    }
    c.join();
    if (mode == FREE) {
      // TASK launch: the loop task ends on its own after the destructor; wait until mainLoop has returned
      // so that everything this execution can still log is in its log
      auto t1 = Clock::now();
      while (!loopExited.load() && std::chrono::duration_cast<std::chrono::milliseconds>(Clock::now() - t1).count() < 3000)
        std::this_thread::sleep_for(std::chrono::microseconds(100));
    }
    Json r = Json::object();
    r.set("id", j["id"]);
    r.set("followed", (long long)sp);
    r.set("us", (long long)std::chrono::duration_cast<std::chrono::microseconds>(Clock::now() - tStart).count());
    r.set("drift", drift);
    Json evs = Json::array();
    {
      std::unique_lock<std::mutex> lk(M);
      for (auto &e : events) {
        Json x = Json::object();
        x.set("s", (long long)e.s).set("t", std::string(1, e.t)).set("e", e.e).set("us", (long long)e.us);
        if (!e.site.empty()) x.set("site", e.site);
        evs.push(x);
      }
    }
    r.set("events", evs);
    of << r.dump() << "\n";
  }
  return 0;
}
