// Conformance driver for spec/math/BoxAlgebra.tla (property C05).
//
// Interprets the cases / actions of the specification on the real rkcommon
// range_t<T> (dimension 1), box_t<T,N> (N = 2..4) and box_t<T,3,true> (padded
// 3-vectors), xfmBounds and intersectRayBox, and reports what it observed.  It
// decides nothing: expected values come from TLC (replay), or the observations
// are validated by TLC (BoxTrace, BoxRayValidate).
//
// variant (input line key "variant"): "i" int, "f" float, "d" double, "fa" float
// with padded 3-vectors (dimension 3 only; other dimensions answer "n/a").
// The model's sentinel +-INF (1000000) is mapped to pos_inf / neg_inf of the
// element type; a box whose bounds are the sentinel is DEFAULT-CONSTRUCTED.
//
// Guards that only look at the INPUT integers (never at results): size / center /
// area / volume / clamp / scale / translate are not evaluated for a box whose input
// bounds are inverted (the library documents them as undefined for empty boxes and
// the specification does not constrain them).
#include <cmath>
#include <string>
#include "driver.h"
#include "rkcommon/math/AffineSpace.h"
#include "rkcommon/math/box.h"
#include "rkcommon/math/range.h"
#include "rkcommon/math/vec.h"

using namespace rkcommon::math;
using vj::Json;

static const long long INF_M = 1000000;

// ---- scalars ----------------------------------------------------------------
template <typename T>
static T toScalar(long long v)
{
  if (v == INF_M) return (T)pos_inf;
  if (v == -INF_M) return (T)neg_inf;
  return (T)v;
}
template <typename T>
static Json fromScalar(T x)
{
  if (x != x) return Json("nan");
  if (x == (T)pos_inf) return Json(INF_M);
  if (x == (T)neg_inf) return Json(-INF_M);
  double d = (double)x;
  if (d == std::floor(d) && std::fabs(d) < 9e15) return Json((long long)d);
  return Json(d);
}

// ---- vectors: V is T for N == 1 and vec_t<T,N,A> otherwise --------------------
template <typename T, int N, bool A>
struct VT
{
  typedef vec_t<T, N, A> V;
  static V make(const Json &a)
  {
    V v;
    for (int i = 0; i < N; ++i) v[i] = toScalar<T>(a[(size_t)i].num());
    return v;
  }
  static Json out(const V &v)
  {
    Json a = Json::array();
    for (int i = 0; i < N; ++i) a.push(fromScalar<T>(v[i]));
    return a;
  }
  static V twice(const V &v) { return v + v; }
};
template <typename T>
struct VT<T, 1, false>
{
  typedef T V;
  static V make(const Json &a) { return toScalar<T>(a[(size_t)0].num()); }
  static Json out(const V &v)
  {
    Json a = Json::array();
    a.push(fromScalar<T>(v));
    return a;
  }
  static V twice(const V &v) { return v + v; }
};

static bool isDefaultEmpty(const Json &lo) { return lo[(size_t)0].num() == INF_M; }
static bool inputInverted(const Json &lo, const Json &hi)
{
  for (size_t i = 0; i < lo.size(); ++i)
    if (lo[i].num() > hi[i].num()) return true;
  return false;
}

// ---- operations that exist only for some dimensions ----------------------------
template <typename T, int N, bool A>
struct Extra
{
  typedef range_t<typename VT<T, N, A>::V> B;
  static void unary(const B &, Json &) {}
  static void pair(const B &a, const B &b, Json &o, bool all)
  {
    B r = intersectionOf(a, b);
    o.set("inter", boxResult(r));
    if (all) o.set("disjoint", disjoint(a, b));
  }
  static Json boxResult(const B &r)
  {
    Json j = Json::object();
    j.set("empty", r.empty());
    j.set("lo", VT<T, N, A>::out(r.lower));
    j.set("hi", VT<T, N, A>::out(r.upper));
    return j;
  }
};
template <typename T>
struct Extra<T, 1, false>
{
  typedef range_t<T> B;
  static void unary(const B &, Json &) {}
  static void pair(const B &, const B &, Json &, bool) {}
  static Json boxResult(const B &r)
  {
    Json j = Json::object();
    j.set("empty", r.empty());
    j.set("lo", VT<T, 1, false>::out(r.lower));
    j.set("hi", VT<T, 1, false>::out(r.upper));
    return j;
  }
};
template <typename T>
struct Extra<T, 2, false>
{
  typedef range_t<vec_t<T, 2>> B;
  static void unary(const B &b, Json &o) { o.set("area", fromScalar<T>(area(b))); }
  static void pair(const B &a, const B &b, Json &o, bool all)
  {
    B r = intersectionOf(a, b);
    o.set("inter", boxResult(r));
    if (all) {
      o.set("disjoint", disjoint(a, b));
      o.set("touching", touchingOrOverlapping(a, b));
    }
  }
  static Json boxResult(const B &r)
  {
    Json j = Json::object();
    j.set("empty", r.empty());
    j.set("lo", VT<T, 2, false>::out(r.lower));
    j.set("hi", VT<T, 2, false>::out(r.upper));
    return j;
  }
};
template <typename T, bool A>
struct Extra<T, 3, A>
{
  typedef range_t<vec_t<T, 3, A>> B;
  static void unary(const B &b, Json &o)
  {
    o.set("area", fromScalar<T>(area(b)));
    o.set("volume", fromScalar<T>(volume(b)));
  }
  static void pair(const B &a, const B &b, Json &o, bool all)
  {
    B r = intersectionOf(a, b);
    o.set("inter", boxResult(r));
    if (all) {
      o.set("disjoint", disjoint(a, b));
      o.set("touching", touchingOrOverlapping(a, b));
    }
  }
  static Json boxResult(const B &r)
  {
    Json j = Json::object();
    j.set("empty", r.empty());
    j.set("lo", VT<T, 3, A>::out(r.lower));
    j.set("hi", VT<T, 3, A>::out(r.upper));
    return j;
  }
};

// ---- the interpreter for one (element type, dimension, padding) -----------------
struct IBox
{
  virtual ~IBox() {}
  virtual Json step(const std::string &a, const Json &arg) = 0;
};

template <typename T, int N, bool A>
struct Ops : IBox
{
  typedef VT<T, N, A> W;
  typedef typename W::V V;
  typedef range_t<V> B;
  typedef Extra<T, N, A> X;

  B cur;  // state of the recorded executions (actions New .. Relate)

  static B makeBox(const Json &lo, const Json &hi)
  {
    if (isDefaultEmpty(lo)) return B();  // the default-constructed empty box
    return B(W::make(lo), W::make(hi));
  }
  static Json boxOut(const B &b)
  {
    Json j = Json::object();
    j.set("lo", W::out(b.lower));
    j.set("hi", W::out(b.upper));
    return j;
  }
  Json state(Json o) const
  {
    o.set("lo", W::out(cur.lower));
    o.set("hi", W::out(cur.upper));
    return o;
  }

  Json step(const std::string &a, const Json &arg) override
  {
    Json o = Json::object();
    // ------------------------------------------------------------------ cases
    if (a == "Unary") {
      const B b = makeBox(arg["lo"], arg["hi"]);
      o.set("empty", b.empty());
      if (!inputInverted(arg["lo"], arg["hi"])) {
        o.set("size", W::out(b.size()));
        X::unary(b, o);
      }
    } else if (a == "Center") {
      const B b = makeBox(arg["lo"], arg["hi"]);
      o.set("center2", W::out(W::twice(b.center())));
    } else if (a == "Points") {
      const B b = makeBox(arg["lo"], arg["hi"]);
      const bool inv = inputInverted(arg["lo"], arg["hi"]);
      const bool def = isDefaultEmpty(arg["lo"]);
      const Json &pts = arg["pts"];
      Json cont = Json::array(), ext = Json::array(), clp = Json::array();
      for (size_t k = 0; k < pts.size(); ++k) {
        const V p = W::make(pts[k]);
        cont.push(b.contains(p));
        if (!inv || def) {
          B e = b;
          e.extend(p);
          ext.push(boxOut(e));
        }
        if (!inv) clp.push(W::out(b.clamp(p)));
      }
      o.set("contains", cont);
      if (!inv || def) o.set("extend", ext);
      if (!inv) o.set("clamp", clp);
    } else if (a == "Pair" || a == "PairInv") {
      const B x = makeBox(arg["a"]["lo"], arg["a"]["hi"]);
      const B y = makeBox(arg["b"]["lo"], arg["b"]["hi"]);
      if (a == "Pair") {
        B e = x;
        e.extend(y);
        o.set("extend", X::boxResult(e));
      }
      X::pair(x, y, o, a == "Pair");
    } else if (a == "Scale" || a == "Translate") {
      const B b = makeBox(arg["lo"], arg["hi"]);
      const V v = W::make(arg["v"]);
      if (a == "Scale") {
        o.set("r", boxOut(b * v));
        o.set("l", boxOut(v * b));
      } else {
        o.set("r", boxOut(b + v));
        o.set("l", boxOut(v + b));
      }
      // ------------------------------------------------- recorded executions
    } else if (a == "New" || a == "Clear") {
      cur = B();
      o.set("empty", cur.empty());
      return state(o);
    } else if (a == "ExtendPt") {
      cur.extend(W::make(arg["p"]));
      return state(o);
    } else if (a == "ExtendBox") {
      cur.extend(makeBox(arg["lo"], arg["hi"]));
      return state(o);
    } else if (a == "Intersect") {
      Json tmp = Json::object();
      intersectInto(arg, tmp);
      o.set("empty", cur.empty());
      return state(o);
    } else if (a == "Translate1" || a == "Scale1") {
      if (cur.empty()) {
        o.set("skipped", true);
      } else {
        const V v = W::make(arg["v"]);
        cur = (a == "Scale1") ? (cur * v) : (v + cur);
      }
      return state(o);
    } else if (a == "ContainsQ") {
      o.set("ret", cur.contains(W::make(arg["p"])));
      return state(o);
    } else if (a == "ClampQ") {
      o.set("ret", W::out(cur.clamp(W::make(arg["p"]))));
      return state(o);
    } else if (a == "Measure") {
      o.set("empty", cur.empty());
      if (cur.empty()) {
        o.set("skipped", true);
      } else {
        o.set("size", W::out(cur.size()));
        o.set("center2", W::out(W::twice(cur.center())));
        o.set("int", (bool)std::is_integral<T>::value);
      }
      return state(o);
    } else if (a == "Relate") {
      const B y = makeBox(arg["lo"], arg["hi"]);
      Json tmp = Json::object();
      X::pair(cur, y, tmp, true);
      if (tmp.has("disjoint")) o.set("disjoint", tmp["disjoint"]);
      if (tmp.has("touching")) o.set("touching", tmp["touching"]);
      if (tmp.has("inter")) o.set("inter_empty", tmp["inter"]["empty"]);
      return state(o);
    } else {
      o.set("ret", "unknown action " + a);
    }
    return o;
  }

  template <int M = N>
  typename std::enable_if<(M > 1), void>::type intersectInto(const Json &arg, Json &)
  {
    cur = intersectionOf(cur, makeBox(arg["lo"], arg["hi"]));
  }
  template <int M = N>
  typename std::enable_if<(M == 1), void>::type intersectInto(const Json &arg, Json &)
  {
    // range_t<scalar> has no intersectionOf: the recorded executions do not use Intersect in dimension 1
    (void)arg;
  }
};

// ---- xfmBounds -------------------------------------------------------------------
template <typename T, bool A>
static Json xfmCase(const Json &arg)
{
  typedef vec_t<T, 3, A> V;
  typedef VT<T, 3, A> W;
  typedef AffineSpaceT<LinearSpace3<V>> Aff;
  const Json &m = arg["m"];
  const Aff xfm(W::make(m[(size_t)0]), W::make(m[(size_t)1]), W::make(m[(size_t)2]), W::make(m[(size_t)3]));
  const range_t<V> b(W::make(arg["lo"]), W::make(arg["hi"]));
  const range_t<V> dst = xfmBounds(xfm, b);
  Json o = Json::object();
  Json cont = Json::array();
  const Json &imgs = arg["imgs"];
  for (size_t k = 0; k < imgs.size(); ++k) cont.push(dst.contains(W::make(imgs[k])));
  o.set("contains", cont);
  o.set("lo", W::out(dst.lower));
  o.set("hi", W::out(dst.upper));
  return o;
}

// ---- intersectRayBox ---------------------------------------------------------------
static const double PD = 65536.0;
static const long long SAT = 16777216;
template <typename T>
static void scaledEnd(T t, Json &o, const char *key, bool &nan)
{
  if (t != t) {
    nan = true;
    o.set(key, 0);
    return;
  }
  double s = (double)t * PD;
  long long v;
  if (s >= (double)SAT) v = SAT;
  else if (s <= -(double)SAT) v = -SAT;
  else v = std::llround(s);
  o.set(key, v);
}
static Json readable(double t)
{
  if (t != t) return Json("nan");
  if (std::isinf(t)) return Json(t > 0 ? "inf" : "-inf");
  return Json(t);
}
template <typename T, int N>
static Json rayCase(const Json &arg)
{
  typedef vec_t<T, N> V;
  typedef VT<T, N, false> W;
  const V org = W::make(arg["org"]), dir = W::make(arg["dir"]);
  const range_t<V> box(W::make(arg["lo"]), W::make(arg["hi"]));
  const long long tlo2 = arg["tlo2"].num(), thi2 = arg["thi2"].num();
  range_t<T> r;
  if (tlo2 == 0 && thi2 == INF_M) r = intersectRayBox(org, dir, box);  // default range [0, inf)
  else r = intersectRayBox(org, dir, box, range_t<T>((T)tlo2 / (T)2, thi2 == INF_M ? (T)inf : (T)thi2 / (T)2));
  Json o = Json::object();
  bool nan = false;
  scaledEnd<T>(r.lower, o, "T0", nan);
  scaledEnd<T>(r.upper, o, "T1", nan);
  o.set("nan", nan);
  o.set("t0", readable((double)r.lower));  // for the report only; TLC validates T0 / T1
  o.set("t1", readable((double)r.upper));
  o.set("empty", r.empty());
  return o;
}

// ---- dispatch ------------------------------------------------------------------------
template <typename T>
static IBox *makeOps(int d, bool padded)
{
  if (padded) return d == 3 ? (IBox *)new Ops<T, 3, true>() : nullptr;
  switch (d) {
  case 1: return new Ops<T, 1, false>();
  case 2: return new Ops<T, 2, false>();
  case 3: return new Ops<T, 3, false>();
  case 4: return new Ops<T, 4, false>();
  }
  return nullptr;
}

static int dimOf(const Json &arg)
{
  if (arg.has("d")) return (int)arg["d"].num();
  if (arg.has("lo")) return (int)arg["lo"].size();
  if (arg.has("a")) return (int)arg["a"]["lo"].size();
  if (arg.has("p")) return (int)arg["p"].size();
  return 0;
}

struct World
{
  std::string variant;
  IBox *ops[5];
  IBox *cur;  // recorded executions: the object created by "New"

  World(const Json &hist) : variant(hist["variant"].str()), cur(nullptr)
  {
    for (int i = 0; i < 5; ++i) ops[i] = nullptr;
  }
  ~World()
  {
    for (int i = 0; i < 5; ++i) delete ops[i];
    delete cur;
  }
  IBox *make(int d) const
  {
    if (variant == "i") return makeOps<int>(d, false);
    if (variant == "f") return makeOps<float>(d, false);
    if (variant == "d") return makeOps<double>(d, false);
    if (variant == "fa") return makeOps<float>(d, true);
    return nullptr;
  }
  Json step(const Json &act)
  {
    const std::string &a = act["a"].str();
    const Json &arg = act["arg"];
    if (a == "Xfm") {
      if (variant == "f") return xfmCase<float, false>(arg);
      if (variant == "fa") return xfmCase<float, true>(arg);
      if (variant == "d") return xfmCase<double, false>(arg);
      Json o = Json::object();
      o.set("ret", "n/a");
      return o;
    }
    if (a == "Ray") {
      const int d = (int)arg["org"].size();
      if (variant == "f" && d == 2) return rayCase<float, 2>(arg);
      if (variant == "f" && d == 3) return rayCase<float, 3>(arg);
      if (variant == "d" && d == 2) return rayCase<double, 2>(arg);
      if (variant == "d" && d == 3) return rayCase<double, 3>(arg);
      Json o = Json::object();
      o.set("ret", "n/a");
      return o;
    }
    if (a == "New") {
      delete cur;
      cur = make(dimOf(arg));
    }
    const bool stateful = a == "New" || a == "Clear" || a == "ExtendPt" || a == "ExtendBox" || a == "Intersect" || a == "Translate1"
        || a == "Scale1" || a == "ContainsQ" || a == "ClampQ" || a == "Measure" || a == "Relate";
    IBox *b = nullptr;
    if (stateful) {
      b = cur;
    } else {
      const int d = dimOf(arg);
      if (d >= 1 && d <= 4) {
        if (!ops[d]) ops[d] = make(d);
        b = ops[d];
      }
    }
    if (!b) {
      Json o = Json::object();
      o.set("ret", "n/a");
      return o;
    }
    return b->step(a, arg);
  }
};

int main(int argc, char **argv)
{
  return vdrv::run<World>(argc, argv);
}
