// Conformance driver for spec/math/BoxAlgebra.tla (property C05).
//
// Interprets the cases / actions of the specification on the real rkcommon
// range_t<T> (dimension 1), box_t<T,N> (N = 2..4) and box_t<T,3,true> (padded
// 3-vectors), xfmBounds and intersectRayBox, and reports what it observed.  It
// decides nothing: expected values come from TLC (replay), or the observations
// are validated by TLC (BoxTrace, BoxRayValidate).
//
// variant (input line key "variant"): "i" int, "f" float, "d" double, "fa" float
// with padded 3-vectors (dimension 3 only; other dimensions answer "n/a").
// More element types: "l" int64_t, "ui" uint32_t, "s" int16_t, "uc" uint8_t, "ia" int with
// padded 3-vectors (dimension 3 only).
// The model's sentinel +-INF (1000000) is mapped to pos_inf / neg_inf of the
// element type; a box whose bounds are the sentinel is DEFAULT-CONSTRUCTED.
//
// Value maps (input line key "vmap", default "id"): the model's small lattice integer k
// is turned into the coordinate f(k) of the real box by a STRICTLY INCREASING map f, and
// results are mapped back with the inverse (table look-up, exact equality).  The
// operations that only compare coordinates (contains, extend, clamp, intersectionOf,
// disjoint, touchingOrOverlapping, empty) commute with such maps (law LawMonotone* of
// the specification), so the expected values computed on the lattice apply unchanged:
//   far   - neighbourhood of the type's limits: +-(2^31-10) for int / double, +-(2^24-8)
//           for float, +-(2^15-10) for int16_t, 2^(w-1)+k for unsigned types (crosses the
//           sign bit of the signed type of the same width), k*2^32-k for int64_t
//   tenth - k * 0.1 (non-dyadic),  sub - k * 1e-41f / 1e-310 (subnormal),
//   huge  - k * 1e37f / 1e307
//
// Guards that only look at the INPUT integers (never at results): size / center /
// area / volume / clamp / scale / translate are not evaluated for a box whose input
// bounds are inverted (the library documents them as undefined for empty boxes and
// the specification does not constrain them).
#include <cmath>
#include <cstdint>
#include <cstring>
#include <string>
#include <type_traits>
#include "driver.h"
#include "rkcommon/math/AffineSpace.h"
#include "rkcommon/math/box.h"
#include "rkcommon/math/range.h"
#include "rkcommon/math/vec.h"

using namespace rkcommon::math;
using vj::Json;

static const long long INF_M = 1000000;
static std::string g_vmap = "id";  // set per input line (World constructor)
static const long long KTAB = 12;  // lattice integers with an inverse under a value map

// ---- scalars ----------------------------------------------------------------
template <typename T, bool FLOATING = std::is_floating_point<T>::value>
struct ValueMap
{  // integral element types
  static T f(long long k)
  {
    if (g_vmap == "far") {
      if (std::is_unsigned<T>::value) return (T)((1ULL << (8 * sizeof(T) - 1)) + (unsigned long long)k);
      if (sizeof(T) == 8) return (T)(k * 4294967296LL - k);
      const long long base = (1LL << (8 * sizeof(T) - 1)) - 10;
      return (T)(k > 0 ? base + k : k < 0 ? -base + k : 0);
    }
    return (T)k;
  }
};
template <typename T>
struct ValueMap<T, true>
{  // float / double
  static T f(long long k)
  {
    const bool single = sizeof(T) == 4;
    if (g_vmap == "far") {
      const double base = single ? 16777216.0 - 8 : 2147483648.0 - 10;
      return (T)(k > 0 ? base + (double)k : k < 0 ? -base + (double)k : 0.0);
    }
    if (g_vmap == "tenth") return (T)k * (T)0.1;
    if (g_vmap == "sub") return (T)k * (single ? (T)1e-41f : (T)1e-310);
    if (g_vmap == "huge") return (T)k * (single ? (T)1e37f : (T)1e307);
    return (T)k;
  }
};
template <typename T>
static T toScalar(long long v)
{
  if (v == INF_M) return (T)pos_inf;
  if (v == -INF_M) return (T)neg_inf;
  if (g_vmap != "id" && v >= -KTAB && v <= KTAB) return ValueMap<T>::f(v);
  return (T)v;
}
template <typename T>
static Json fromScalar(T x)
{
  if (x != x) return Json("nan");
  if (g_vmap != "id")
    for (long long k = -KTAB; k <= KTAB; ++k)
      if (ValueMap<T>::f(k) == x) return Json(k);
  if (x == (T)pos_inf) return Json(INF_M);
  if (x == (T)neg_inf) return Json(-INF_M);
  double d = (double)x;
  if (d == std::floor(d) && std::fabs(d) < 9e15) return Json((long long)d);
  return Json(d);
}

// ---- vectors: V is T for N == 1 and vec_t<T,N,A> otherwise --------------------
template <typename T, int N, bool A>
struct VT
{
  typedef vec_t<T, N, A> V;
  static V make(const Json &a)
  {
    V v;
    for (int i = 0; i < N; ++i) v[i] = toScalar<T>(a[(size_t)i].num());
    return v;
  }
  static V makeQ(const Json &a, long long den)  // rational components num / den (den > 1: floating-point element types only)
  {
    V v;
    for (int i = 0; i < N; ++i) v[i] = den == 1 ? toScalar<T>(a[(size_t)i].num()) : (T)((double)a[(size_t)i].num() / (double)den);
    return v;
  }
  static Json out(const V &v)
  {
    Json a = Json::array();
    for (int i = 0; i < N; ++i) a.push(fromScalar<T>(v[i]));
    return a;
  }
  static V twice(const V &v) { return v + v; }
};
template <typename T>
struct VT<T, 1, false>
{
  typedef T V;
  static V make(const Json &a) { return toScalar<T>(a[(size_t)0].num()); }
  static V makeQ(const Json &a, long long den)
  {
    return den == 1 ? toScalar<T>(a[(size_t)0].num()) : (T)((double)a[(size_t)0].num() / (double)den);
  }
  static Json out(const V &v)
  {
    Json a = Json::array();
    a.push(fromScalar<T>(v));
    return a;
  }
  static V twice(const V &v) { return v + v; }
};

static bool isDefaultEmpty(const Json &lo) { return lo[(size_t)0].num() == INF_M; }
static bool inputInverted(const Json &lo, const Json &hi)
{
  for (size_t i = 0; i < lo.size(); ++i)
    if (lo[i].num() > hi[i].num()) return true;
  return false;
}

// ---- operations that exist only for some dimensions ----------------------------
// images of two boxes (and of their intersection) under scaling / translation, through one operand order
template <typename B, typename V>
static Json imagesOfPair(const B &a, const B &b, const V &v, bool scale, bool boxFirst)
{
  const B ia = scale ? (boxFirst ? a * v : v * a) : (boxFirst ? a + v : v + a);
  const B ib = scale ? (boxFirst ? b * v : v * b) : (boxFirst ? b + v : v + b);
  const B in = intersectionOf(a, b);
  const B iin = scale ? (boxFirst ? in * v : v * in) : (boxFirst ? in + v : v + in);
  Json o = Json::object();
  o.set("inter_of_images_empty", intersectionOf(ia, ib).empty());
  o.set("image_of_inter_empty", iin.empty());
  o.set("disjoint_images", disjoint(ia, ib));
  return o;
}

template <typename T, int N, bool A>
struct Extra
{
  typedef range_t<typename VT<T, N, A>::V> B;
  static void unary(const B &, Json &) {}
  static void imagesPair(const B &a, const B &b, const typename B::bound_t &v, bool scale, Json &o)
  {
    o.set("r", imagesOfPair(a, b, v, scale, true));
    o.set("l", imagesOfPair(a, b, v, scale, false));
  }
  static void centerFree(const B &b, Json &o) { o.set("center2_free", VT<T, N, A>::out(VT<T, N, A>::twice(center(b)))); }
  static void pair(const B &a, const B &b, Json &o, bool all)
  {
    B r = intersectionOf(a, b);
    o.set("inter", boxResult(r));
    if (all) o.set("disjoint", disjoint(a, b));
  }
  static Json boxResult(const B &r)
  {
    Json j = Json::object();
    j.set("empty", r.empty());
    j.set("lo", VT<T, N, A>::out(r.lower));
    j.set("hi", VT<T, N, A>::out(r.upper));
    return j;
  }
};
template <typename T>
struct Extra<T, 1, false>
{
  typedef range_t<T> B;
  static void unary(const B &, Json &) {}
  static void centerFree(const B &, Json &) {}  // the free function center() exists for vector boxes only
  static void imagesPair(const B &, const B &, const T &, bool, Json &) {}  // no intersectionOf / disjoint in dimension 1
  static void pair(const B &, const B &, Json &, bool) {}
  static Json boxResult(const B &r)
  {
    Json j = Json::object();
    j.set("empty", r.empty());
    j.set("lo", VT<T, 1, false>::out(r.lower));
    j.set("hi", VT<T, 1, false>::out(r.upper));
    return j;
  }
};
template <typename T>
struct Extra<T, 2, false>
{
  typedef range_t<vec_t<T, 2>> B;
  static void unary(const B &b, Json &o) { o.set("area", fromScalar<T>(area(b))); }
  static void centerFree(const B &b, Json &o) { o.set("center2_free", VT<T, 2, false>::out(VT<T, 2, false>::twice(center(b)))); }
  static void imagesPair(const B &a, const B &b, const typename B::bound_t &v, bool scale, Json &o)
  {
    o.set("r", imagesOfPair(a, b, v, scale, true));
    o.set("l", imagesOfPair(a, b, v, scale, false));
  }

  static void pair(const B &a, const B &b, Json &o, bool all)
  {
    B r = intersectionOf(a, b);
    o.set("inter", boxResult(r));
    if (all) {
      o.set("disjoint", disjoint(a, b));
      o.set("touching", touchingOrOverlapping(a, b));
    }
  }
  static Json boxResult(const B &r)
  {
    Json j = Json::object();
    j.set("empty", r.empty());
    j.set("lo", VT<T, 2, false>::out(r.lower));
    j.set("hi", VT<T, 2, false>::out(r.upper));
    return j;
  }
};
template <typename T, bool A>
struct Extra<T, 3, A>
{
  typedef range_t<vec_t<T, 3, A>> B;
  static void unary(const B &b, Json &o)
  {
    o.set("area", fromScalar<T>(area(b)));
    o.set("volume", fromScalar<T>(volume(b)));
  }
  static void centerFree(const B &b, Json &o) { o.set("center2_free", VT<T, 3, A>::out(VT<T, 3, A>::twice(center(b)))); }
  static void imagesPair(const B &a, const B &b, const typename B::bound_t &v, bool scale, Json &o)
  {
    o.set("r", imagesOfPair(a, b, v, scale, true));
    o.set("l", imagesOfPair(a, b, v, scale, false));
  }

  static void pair(const B &a, const B &b, Json &o, bool all)
  {
    B r = intersectionOf(a, b);
    o.set("inter", boxResult(r));
    if (all) {
      o.set("disjoint", disjoint(a, b));
      o.set("touching", touchingOrOverlapping(a, b));
    }
  }
  static Json boxResult(const B &r)
  {
    Json j = Json::object();
    j.set("empty", r.empty());
    j.set("lo", VT<T, 3, A>::out(r.lower));
    j.set("hi", VT<T, 3, A>::out(r.upper));
    return j;
  }
};

// ---- the interpreter for one (element type, dimension, padding) -----------------
struct IBox
{
  virtual ~IBox() {}
  virtual Json step(const std::string &a, const Json &arg) = 0;
};

template <typename T, int N, bool A>
struct Ops : IBox
{
  typedef VT<T, N, A> W;
  typedef typename W::V V;
  typedef range_t<V> B;
  typedef Extra<T, N, A> X;

  B cur;  // state of the recorded executions (actions New .. Relate)

  static B makeBox(const Json &lo, const Json &hi)
  {
    if (isDefaultEmpty(lo)) return B();  // the default-constructed empty box
    return B(W::make(lo), W::make(hi));
  }
  static Json boxOut(const B &b)
  {
    Json j = Json::object();
    j.set("lo", W::out(b.lower));
    j.set("hi", W::out(b.upper));
    return j;
  }
  Json state(Json o) const
  {
    o.set("lo", W::out(cur.lower));
    o.set("hi", W::out(cur.upper));
    return o;
  }

  Json step(const std::string &a, const Json &arg) override
  {
    Json o = Json::object();
    // ------------------------------------------------------------------ cases
    if (a == "Unary") {
      const B b = makeBox(arg["lo"], arg["hi"]);
      o.set("empty", b.empty());
      if (!inputInverted(arg["lo"], arg["hi"])) {
        o.set("size", W::out(b.size()));
        X::unary(b, o);
      }
    } else if (a == "Center") {
      const B b = makeBox(arg["lo"], arg["hi"]);
      o.set("center2", W::out(W::twice(b.center())));
      X::centerFree(b, o);  // member and free function must agree (both are compared with the specification)
    } else if (a == "MeasureBig") {
      const B b = makeBox(arg["lo"], arg["hi"]);
      o.set("size", W::out(b.size()));
      o.set("center2", W::out(W::twice(b.center())));
      X::centerFree(b, o);
    } else if (a == "Points") {
      const B b = makeBox(arg["lo"], arg["hi"]);
      const bool inv = inputInverted(arg["lo"], arg["hi"]);
      const bool def = isDefaultEmpty(arg["lo"]);
      const Json &pts = arg["pts"];
      Json cont = Json::array(), ext = Json::array(), clp = Json::array();
      for (size_t k = 0; k < pts.size(); ++k) {
        const V p = W::make(pts[k]);
        cont.push(b.contains(p));
        if (!inv || def) {
          B e = b;
          e.extend(p);
          ext.push(boxOut(e));
        }
        if (!inv) clp.push(W::out(b.clamp(p)));
      }
      o.set("contains", cont);
      if (!inv || def) o.set("extend", ext);
      if (!inv) o.set("clamp", clp);
    } else if (a == "Pair" || a == "PairInv") {
      const B x = makeBox(arg["a"]["lo"], arg["a"]["hi"]);
      const B y = makeBox(arg["b"]["lo"], arg["b"]["hi"]);
      if (a == "Pair") {
        B e = x;
        e.extend(y);
        o.set("extend", X::boxResult(e));
      }
      X::pair(x, y, o, a == "Pair");
    } else if (a == "Scale" || a == "Translate") {
      const B b = makeBox(arg["lo"], arg["hi"]);
      const V v = W::make(arg["v"]);
      if (a == "Scale") {
        o.set("r", boxOut(b * v));
        o.set("l", boxOut(v * b));
      } else {
        o.set("r", boxOut(b + v));
        o.set("l", boxOut(v + b));
      }
    } else if (a == "ScaleEmpty" || a == "TranslateEmpty") {
      // boxes WITHOUT points: the result through both operand orders, what it contains, and (default empty box) extend
      const B b = makeBox(arg["lo"], arg["hi"]);
      const V v = W::makeQ(arg["v"], arg["den"].num());
      const bool def = isDefaultEmpty(arg["lo"]);
      const Json &pts = arg["pts"];
      for (int side = 0; side < 2; ++side) {
        const B r = a == "ScaleEmpty" ? (side == 0 ? b * v : v * b) : (side == 0 ? b + v : v + b);
        Json j = X::boxResult(r);
        Json cont = Json::array(), ext = Json::array();
        for (size_t k = 0; k < pts.size(); ++k) {
          const V p = W::make(pts[k]);
          cont.push(r.contains(p));
          if (def) {
            B e = r;
            e.extend(p);
            ext.push(boxOut(e));
          }
        }
        j.set("contains", cont);
        if (def) j.set("extend", ext);
        o.set(side == 0 ? "r" : "l", j);
      }
    } else if (a == "ScalePair" || a == "TranslatePair") {
      const B x = makeBox(arg["a"]["lo"], arg["a"]["hi"]);
      const B y = makeBox(arg["b"]["lo"], arg["b"]["hi"]);
      X::imagesPair(x, y, W::makeQ(arg["v"], arg["den"].num()), a == "ScalePair", o);
      // ------------------------------------------------- recorded executions
    } else if (a == "New" || a == "Clear") {
      cur = B();
      o.set("empty", cur.empty());
      return state(o);
    } else if (a == "ExtendPt") {
      cur.extend(W::make(arg["p"]));
      return state(o);
    } else if (a == "ExtendBox") {
      cur.extend(makeBox(arg["lo"], arg["hi"]));
      return state(o);
    } else if (a == "Intersect") {
      Json tmp = Json::object();
      intersectInto(arg, tmp);
      o.set("empty", cur.empty());
      return state(o);
    } else if (a == "Translate1" || a == "Scale1") {
      if (cur.empty()) {
        o.set("skipped", true);
      } else {
        const V v = W::make(arg["v"]);
        cur = (a == "Scale1") ? (cur * v) : (v + cur);
      }
      return state(o);
    } else if (a == "ContainsQ") {
      o.set("ret", cur.contains(W::make(arg["p"])));
      return state(o);
    } else if (a == "ClampQ") {
      o.set("ret", W::out(cur.clamp(W::make(arg["p"]))));
      return state(o);
    } else if (a == "Measure") {
      o.set("empty", cur.empty());
      if (cur.empty()) {
        o.set("skipped", true);
      } else {
        o.set("size", W::out(cur.size()));
        o.set("center2", W::out(W::twice(cur.center())));
        o.set("int", (bool)std::is_integral<T>::value);
      }
      return state(o);
    } else if (a == "Relate") {
      const B y = makeBox(arg["lo"], arg["hi"]);
      Json tmp = Json::object();
      X::pair(cur, y, tmp, true);
      if (tmp.has("disjoint")) o.set("disjoint", tmp["disjoint"]);
      if (tmp.has("touching")) o.set("touching", tmp["touching"]);
      if (tmp.has("inter")) o.set("inter_empty", tmp["inter"]["empty"]);
      return state(o);
    } else {
      o.set("ret", "unknown action " + a);
    }
    return o;
  }

  template <int M = N>
  typename std::enable_if<(M > 1), void>::type intersectInto(const Json &arg, Json &)
  {
    cur = intersectionOf(cur, makeBox(arg["lo"], arg["hi"]));
  }
  template <int M = N>
  typename std::enable_if<(M == 1), void>::type intersectInto(const Json &arg, Json &)
  {
    // range_t<scalar> has no intersectionOf: the recorded executions do not use Intersect in dimension 1
    (void)arg;
  }
};

// ---- xfmBounds -------------------------------------------------------------------
template <typename T, bool A>
static Json xfmCase(const Json &arg)
{
  typedef vec_t<T, 3, A> V;
  typedef VT<T, 3, A> W;
  typedef AffineSpaceT<LinearSpace3<V>> Aff;
  const Json &m = arg["m"];
  const Aff xfm(W::make(m[(size_t)0]), W::make(m[(size_t)1]), W::make(m[(size_t)2]), W::make(m[(size_t)3]));
  const range_t<V> b(W::make(arg["lo"]), W::make(arg["hi"]));
  const range_t<V> dst = xfmBounds(xfm, b);
  Json o = Json::object();
  Json cont = Json::array();
  const Json &imgs = arg["imgs"];
  for (size_t k = 0; k < imgs.size(); ++k) cont.push(dst.contains(W::make(imgs[k])));
  o.set("contains", cont);
  o.set("lo", W::out(dst.lower));
  o.set("hi", W::out(dst.upper));
  return o;
}

// ---- intersectRayBox ---------------------------------------------------------------
static const double PD = 65536.0;
static const long long SAT = 16777216;
template <typename T>
static void scaledEnd(T t, Json &o, const char *key, bool &nan)
{
  if (t != t) {
    nan = true;
    o.set(key, 0);
    return;
  }
  double s = (double)t * PD;
  long long v;
  if (s >= (double)SAT) v = SAT;
  else if (s <= -(double)SAT) v = -SAT;
  else v = std::llround(s);
  o.set(key, v);
}
static Json readable(double t)
{
  if (t != t) return Json("nan");
  if (std::isinf(t)) return Json(t > 0 ? "inf" : "-inf");
  return Json(t);
}
template <typename T>
static bool sameBits(T a, T b)
{
  return memcmp(&a, &b, sizeof(T)) == 0;
}
template <typename T, int N>
static Json rayCase(const Json &arg)
{
  typedef vec_t<T, N> V;
  typedef VT<T, N, false> W;
  const V org = W::make(arg["org"]), dir = W::make(arg["dir"]);
  // the model's default empty box is default-constructed, every other box (inverted ones too) is built from its bounds
  const range_t<V> box = isDefaultEmpty(arg["lo"]) ? range_t<V>() : range_t<V>(W::make(arg["lo"]), W::make(arg["hi"]));
  const long long tlo2 = arg["tlo2"].num(), thi2 = arg["thi2"].num();
  range_t<T> r;
  bool differs = false;
  if (tlo2 == 0 && thi2 == INF_M) {
    r = intersectRayBox(org, dir, box);  // default range [0, inf)
    const range_t<T> x = intersectRayBox(org, dir, box, range_t<T>((T)0, (T)inf));  // ... and the same range spelled out
    differs = !(sameBits(r.lower, x.lower) && sameBits(r.upper, x.upper));
  } else r = intersectRayBox(org, dir, box, range_t<T>((T)tlo2 / (T)2, thi2 == INF_M ? (T)inf : (T)thi2 / (T)2));
  Json o = Json::object();
  bool nan = false;
  scaledEnd<T>(r.lower, o, "T0", nan);
  scaledEnd<T>(r.upper, o, "T1", nan);
  o.set("nan", nan);
  o.set("differs", differs);
  o.set("t0", readable((double)r.lower));  // for the report only; TLC validates T0 / T1
  o.set("t1", readable((double)r.upper));
  o.set("empty", r.empty());
  return o;
}

// ---- dispatch ------------------------------------------------------------------------
template <typename T>
static IBox *makeOps(int d, bool padded)
{
  if (padded) return d == 3 ? (IBox *)new Ops<T, 3, true>() : nullptr;
  switch (d) {
  case 1: return new Ops<T, 1, false>();
  case 2: return new Ops<T, 2, false>();
  case 3: return new Ops<T, 3, false>();
  case 4: return new Ops<T, 4, false>();
  }
  return nullptr;
}

static int dimOf(const Json &arg)
{
  if (arg.has("d")) return (int)arg["d"].num();
  if (arg.has("lo")) return (int)arg["lo"].size();
  if (arg.has("a")) return (int)arg["a"]["lo"].size();
  if (arg.has("p")) return (int)arg["p"].size();
  return 0;
}

struct World
{
  std::string variant;
  IBox *ops[5];
  IBox *cur;  // recorded executions: the object created by "New"

  World(const Json &hist) : variant(hist["variant"].str()), cur(nullptr)
  {
    g_vmap = hist.has("vmap") ? hist["vmap"].str() : std::string("id");
    for (int i = 0; i < 5; ++i) ops[i] = nullptr;
  }
  ~World()
  {
    for (int i = 0; i < 5; ++i) delete ops[i];
    delete cur;
  }
  IBox *make(int d) const
  {
    if (variant == "i") return makeOps<int>(d, false);
    if (variant == "f") return makeOps<float>(d, false);
    if (variant == "d") return makeOps<double>(d, false);
    if (variant == "fa") return makeOps<float>(d, true);
    if (variant == "ia") return makeOps<int>(d, true);
    if (variant == "l") return makeOps<int64_t>(d, false);
    if (variant == "ui") return makeOps<uint32_t>(d, false);
    if (variant == "s") return makeOps<int16_t>(d, false);
    if (variant == "uc") return makeOps<uint8_t>(d, false);
    return nullptr;
  }
  Json step(const Json &act)
  {
    const std::string &a = act["a"].str();
    const Json &arg = act["arg"];
    if (a == "Xfm") {
      if (variant == "f") return xfmCase<float, false>(arg);
      if (variant == "fa") return xfmCase<float, true>(arg);
      if (variant == "d") return xfmCase<double, false>(arg);
      Json o = Json::object();
      o.set("ret", "n/a");
      return o;
    }
    if (a == "Ray") {
      const int d = (int)arg["org"].size();
      if (variant == "f" && d == 2) return rayCase<float, 2>(arg);
      if (variant == "f" && d == 3) return rayCase<float, 3>(arg);
      if (variant == "d" && d == 2) return rayCase<double, 2>(arg);
      if (variant == "d" && d == 3) return rayCase<double, 3>(arg);
      Json o = Json::object();
      o.set("ret", "n/a");
      return o;
    }
    if (a == "New") {
      delete cur;
      cur = make(dimOf(arg));
    }
    const bool stateful = a == "New" || a == "Clear" || a == "ExtendPt" || a == "ExtendBox" || a == "Intersect" || a == "Translate1"
        || a == "Scale1" || a == "ContainsQ" || a == "ClampQ" || a == "Measure" || a == "Relate";
    IBox *b = nullptr;
    if (stateful) {
      b = cur;
    } else {
      const int d = dimOf(arg);
      if (d >= 1 && d <= 4) {
        if (!ops[d]) ops[d] = make(d);
        b = ops[d];
      }
    }
    if (!b) {
      Json o = Json::object();
      o.set("ret", "n/a");
      return o;
    }
    return b->step(a, arg);
  }
};

int main(int argc, char **argv)
{
  return vdrv::run<World>(argc, argv);
}
