// payload variant "string": T = std::string, U = const char *, X = OtherX (see world.h)
#include "world.h"
namespace vb {
IWorld *makeWorldString(int nt, int nu, int na)
{
  return new World<std::string, const char *, OtherX, false>(nt, nu, na);
}
} // namespace vb
