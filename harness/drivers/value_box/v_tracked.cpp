// payload variant "tracked": T = Tracked<int,0>, U = Tracked<int,1>, X = Tracked<int,2> (see world.h)
#include "world.h"
namespace vb {
IWorld *makeWorldTracked(int nt, int nu, int na)
{
  return new World<Tracked<int,0>, Tracked<int,1>, Tracked<int,2>, true>(nt, nu, na);
}
} // namespace vb
