// payload variant "vector": T = std::vector<int>, U = VecSrc, X = OtherX (see world.h)
#include "world.h"
namespace vb {
IWorld *makeWorldVector(int nt, int nu, int na)
{
  return new World<std::vector<int>, VecSrc, OtherX, false>(nt, nu, na);
}
} // namespace vb
