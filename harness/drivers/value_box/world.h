// Conformance driver for spec/utility/ValueBox.tla (property C09): interprets the
// actions of the specification on real rkcommon::utility::Optional<T> / Any objects
// that live in raw, separately allocated, 64-byte aligned slots (placement new /
// explicit destructor call, so construction and destruction are steps of the history)
// and reports what the specification's `last.exp` talks about.  Nothing is decided here.
//
// Payload variants (T, U convertible to T, X unrelated type for Any):
//   int      int / short / OtherX                      trivial
//   double   double / float / OtherX                   alignment 8
//   string   std::string / const char* / OtherX        heap-owning
//   vector   std::vector<int> / VecSrc / OtherX        heap-owning
//   over     Over (alignas(32)) / int / OtherX         over-aligned
//   tracked  Tracked<int,0> / Tracked<int,1> / Tracked<int,2>   lifetime-instrumented
//
// Throwing payload operations (tracked variant only): a Tracked object can be "poisoned"; every
// construction or assignment that takes its value FROM a poisoned object throws PayloadThrow before it
// has any effect (a constructor that throws does not register an object).  Actions with "t":true hand
// their value over in a poisoned temporary; Poison / AnyPoison poison the payload a wrapper holds.
#pragma once
#include <cmath>
#include <cstdint>
#include <cstring>
#include <set>
#include <string>
#include <vector>
#include "driver.h"
#include "rkcommon/utility/Any.h"
#include "rkcommon/utility/Optional.h"

namespace vb {

using rkcommon::utility::Any;
using rkcommon::utility::Optional;
using vj::Json;

// ---------------------------------------------------------------------------
// Registry of live instrumented payload objects (by address) + event log.
// It records facts: which special member ran on which address, and whether an
// object was registered live at that address at that moment.
// ---------------------------------------------------------------------------
struct Registry
{
  std::set<uintptr_t> live;
  long dead = 0; // operations (dtor / assign / read) on an address with no live object
  long dup = 0;  // constructions on an address that already holds a live object
  bool quiet = false; // the driver's own observation reads are not operations of the code under test
  std::vector<std::pair<uintptr_t, uintptr_t>> slots; // [begin,end) of the Optional slots, index = slot-1
  Json events = Json::array();

  void resetAll()
  {
    live.clear();
    dead = dup = 0;
    quiet = false;
    slots.clear();
    events = Json::array();
  }
  void beginStep()
  {
    dead = dup = 0;
    events = Json::array();
  }
  int slotOf(uintptr_t a) const
  {
    for (size_t i = 0; i < slots.size(); ++i)
      if (a >= slots[i].first && a < slots[i].second) return (int)i + 1;
    return 0;
  }
  long liveIn(int w) const
  {
    long n = 0;
    for (auto a : live)
      if (slotOf(a) == w) ++n;
    return n;
  }
  void on(const char *k, const void *p)
  {
    if (quiet) return;
    uintptr_t a = (uintptr_t)p;
    bool isLive = live.count(a) != 0;
    if (k[0] == 'c') {
      if (isLive) ++dup;
      live.insert(a);
    } else {
      if (!isLive) ++dead;
      if (k[0] == 'd' && isLive) live.erase(a);
    }
    Json e = Json::object();
    e.set("k", k);
    e.set("w", slotOf(a));
    e.set("live", isLive);
    events.push(e);
  }
};

inline Registry &reg()
{
  static Registry r;
  return r;
}

struct Quiet
{
  bool old;
  Quiet() : old(reg().quiet) { reg().quiet = true; }
  ~Quiet() { reg().quiet = old; }
};

// ---------------------------------------------------------------------------
// Payload types
// ---------------------------------------------------------------------------
template <typename P>
struct PV;

struct PayloadThrow : std::runtime_error
{
  PayloadThrow() : std::runtime_error("payload operation throws") {}
};

template <typename B, int TAG>
struct Tracked
{
  B val;
  bool poison = false; // taking the value from this object throws
  Tracked() : val() { reg().on("ctor", this); }
  Tracked(const B &b) : val(b) { reg().on("ctor", this); }
  Tracked(const Tracked &o) : val(o.val)
  {
    reg().on("read", &o);
    if (o.poison) throw PayloadThrow(); // no object comes into existence
    reg().on("ctor", this);
  }
  Tracked(Tracked &&o) : val(o.val)
  {
    reg().on("read", &o);
    if (o.poison) throw PayloadThrow();
    reg().on("ctor", this);
  }
  template <int T2>
  Tracked(const Tracked<B, T2> &o) : val(o.val) // implicit conversion between tags
  {
    reg().on("read", &o);
    if (o.poison) throw PayloadThrow();
    reg().on("ctor", this);
  }
  Tracked &operator=(const Tracked &o)
  {
    reg().on("read", &o);
    if (o.poison) throw PayloadThrow(); // before any effect on *this
    reg().on("assign", this);
    val = o.val;
    poison = false;
    return *this;
  }
  Tracked &operator=(Tracked &&o)
  {
    reg().on("read", &o);
    if (o.poison) throw PayloadThrow();
    reg().on("assign", this);
    val = o.val;
    poison = false;
    return *this;
  }
  ~Tracked() { reg().on("dtor", this); }
};

// poisoning a payload: only the instrumented payload can throw
template <typename P>
struct Poisoner
{
  static void set(P &) { throw std::logic_error("driver: this payload type cannot be poisoned"); }
};
template <typename B, int TAG>
struct Poisoner<Tracked<B, TAG>>
{
  static void set(Tracked<B, TAG> &x) { x.poison = true; }
};
// the value of an action: a temporary holding model value v, poisoned if the action says so
template <typename P>
struct Arg
{
  P x;
  Arg(long v, bool throws) : x(PV<P>::make(v))
  {
    if (throws) Poisoner<P>::set(x);
  }
};

#define VB_TRACKED_CMP(OP)                                                 \
  template <typename B, int A, int C>                                      \
  inline bool operator OP(const Tracked<B, A> &x, const Tracked<B, C> &y)  \
  {                                                                        \
    reg().on("read", &x);                                                  \
    reg().on("read", &y);                                                  \
    return x.val OP y.val;                                                 \
  }
VB_TRACKED_CMP(==)
VB_TRACKED_CMP(!=)
VB_TRACKED_CMP(<)
VB_TRACKED_CMP(<=)
VB_TRACKED_CMP(>)
VB_TRACKED_CMP(>=)
#undef VB_TRACKED_CMP

struct alignas(32) Over
{
  int v;
  Over() : v(0) {}
  Over(int x) : v(x) {}
};
inline bool operator==(const Over &a, const Over &b) { return a.v == b.v; }
inline bool operator!=(const Over &a, const Over &b) { return a.v != b.v; }
inline bool operator<(const Over &a, const Over &b) { return a.v < b.v; }
inline bool operator<=(const Over &a, const Over &b) { return a.v <= b.v; }
inline bool operator>(const Over &a, const Over &b) { return a.v > b.v; }
inline bool operator>=(const Over &a, const Over &b) { return a.v >= b.v; }

struct OtherX
{
  int v;
  OtherX() : v(0) {}
  explicit OtherX(int x) : v(x) {}
  bool operator==(const OtherX &o) const { return v == o.v; }
};

struct VecSrc // convertible to std::vector<int>
{
  std::vector<int> d;
  operator std::vector<int>() const { return d; }
};
#define VB_VEC_CMP(OP) \
  inline bool operator OP(const std::vector<int> &a, const VecSrc &b) { return a OP b.d; }
VB_VEC_CMP(==)
VB_VEC_CMP(!=)
VB_VEC_CMP(<)
VB_VEC_CMP(<=)
VB_VEC_CMP(>)
VB_VEC_CMP(>=)
#undef VB_VEC_CMP

// model value (small positive integer) <-> concrete payload; back() returns -1 for an unmapped payload
template <typename P>
struct PV;

template <typename I>
struct PVInt
{
  static I make(long v) { return (I)(1000 + v); }
  static long back(const I &x) { return (x >= 1000 && x < 1100) ? (long)x - 1000 : -1; }
};
template <> struct PV<int> : PVInt<int> {};
template <> struct PV<short> : PVInt<short> {};
template <typename F>
struct PVFlt
{
  static F make(long v) { return (F)v + (F)0.5; }
  static long back(const F &x)
  {
    double d = (double)x - 0.5;
    return (d >= 0 && d < 100 && d == std::floor(d)) ? (long)d : -1;
  }
};
template <> struct PV<double> : PVFlt<double> {};
template <> struct PV<float> : PVFlt<float> {};
inline const std::string &strOf(long v)
{
  static std::vector<std::string> tbl;
  if (tbl.empty())
    for (int i = 0; i < 100; ++i) tbl.push_back("payload-" + std::to_string(i) + "-0123456789abcdefghijklmnopqrstuvwxyz-heap");
  return tbl[(size_t)(v < 0 || v >= 100 ? 0 : v)];
}
inline long strBack(const char *p, size_t n)
{
  std::string s(p, n);
  if (s.compare(0, 8, "payload-") != 0) return -1;
  long v = atol(s.c_str() + 8);
  return (v >= 0 && v < 100 && s == strOf(v)) ? v : -1;
}
template <> struct PV<std::string>
{
  static std::string make(long v) { return strOf(v); }
  static long back(const std::string &s) { return strBack(s.data(), s.size()); }
};
template <> struct PV<const char *>
{
  static const char *make(long v) { return strOf(v).c_str(); }
  static long back(const char *const &p) { return p ? strBack(p, strnlen(p, 200)) : -1; }
};
template <> struct PV<std::vector<int>>
{
  static std::vector<int> make(long v) { return std::vector<int>(24, (int)v); }
  static long back(const std::vector<int> &x)
  {
    if (x.size() != 24) return -1;
    for (int e : x)
      if (e != x[0]) return -1;
    return x[0];
  }
};
template <> struct PV<VecSrc>
{
  static VecSrc make(long v)
  {
    VecSrc s;
    s.d = std::vector<int>(24, (int)v);
    return s;
  }
  static long back(const VecSrc &x) { return PV<std::vector<int>>::back(x.d); }
};
template <> struct PV<Over>
{
  static Over make(long v) { return Over((int)(1000 + v)); }
  static long back(const Over &x) { return PVInt<int>::back(x.v); }
};
template <> struct PV<OtherX>
{
  static OtherX make(long v) { return OtherX((int)(1000 + v)); }
  static long back(const OtherX &x) { return PVInt<int>::back(x.v); }
};
template <int TAG> struct PV<Tracked<int, TAG>>
{
  static Tracked<int, TAG> make(long v) { return Tracked<int, TAG>((int)(1000 + v)); }
  static long back(const Tracked<int, TAG> &x) { return PVInt<int>::back(x.val); }
};

// ---------------------------------------------------------------------------
struct IWorld
{
  virtual ~IWorld() {}
  virtual void setEmitEvents(bool) {}
  virtual Json step(const Json &act) = 0;
};

template <typename T, typename U, typename X, bool TRACKED>
struct World : IWorld
{
  typedef Optional<T> OT;
  typedef Optional<U> OU;
  int nt, nu, na, n;
  std::vector<void *> mem;
  std::vector<size_t> msize;
  std::vector<char> constructed;
  bool emitEvents = false; // the per-step lifetime event list is only needed when an execution is recorded for TLC

  char kind(int w) const { return w <= nt ? 'T' : (w <= nt + nu ? 'U' : 'A'); }
  OT *ot(int w) { return reinterpret_cast<OT *>(mem[(size_t)w]); }
  OU *ou(int w) { return reinterpret_cast<OU *>(mem[(size_t)w]); }
  Any *any(int w) { return reinterpret_cast<Any *>(mem[(size_t)w]); }

  World(int nt_, int nu_, int na_) : nt(nt_), nu(nu_), na(na_), n(nt_ + nu_ + na_)
  {
    reg().resetAll();
    mem.assign((size_t)n + 1, nullptr);
    msize.assign((size_t)n + 1, 0);
    constructed.assign((size_t)n + 1, 0);
    for (int w = 1; w <= n; ++w) {
      size_t sz = kind(w) == 'T' ? sizeof(OT) : (kind(w) == 'U' ? sizeof(OU) : sizeof(Any));
      void *p = nullptr;
      if (posix_memalign(&p, 64, sz) != 0 || !p) throw std::runtime_error("posix_memalign");
      memset(p, 0xCD, sz);
      mem[(size_t)w] = p;
      msize[(size_t)w] = sz;
      if (kind(w) != 'A') reg().slots.push_back(std::make_pair((uintptr_t)p, (uintptr_t)p + sz));
    }
  }
  void setEmitEvents(bool e) override { emitEvents = e; }
  ~World() override
  {
    // wrappers are destroyed by the Teardown action of the history, not here: a corrupted wrapper
    // must fail in a step of its history
    Quiet q;
    for (int w = 1; w <= n; ++w) free(mem[(size_t)w]);
  }

  void raw(int w)
  {
    memset(mem[(size_t)w], 0xCD, msize[(size_t)w]);
    constructed[(size_t)w] = 0;
  }

  // ---- observables of one slot ---------------------------------------------
  template <typename P>
  Json obsOpt(int w)
  {
    Json o = Json::object();
    o.set("c", constructed[(size_t)w] != 0);
    if (constructed[(size_t)w]) {
      Optional<P> *p = reinterpret_cast<Optional<P> *>(mem[(size_t)w]);
      bool has = p->has_value();
      o.set("has", has);
      o.set("v", has ? PV<P>::back(p->value()) : 0L);
    }
    if (TRACKED) {
      long live = reg().liveIn(w);
      o.set("live", live);
      // has_value() minus live payload objects in the wrapper's storage
      if (constructed[(size_t)w]) o.set("hl", (long)(o["has"].boolean() ? 1 : 0) - live);
    }
    return o;
  }
  Json obsAny(int w)
  {
    Json o = Json::object();
    o.set("c", constructed[(size_t)w] != 0);
    if (constructed[(size_t)w]) {
      Any *a = any(w);
      bool has = a->valid();
      o.set("has", has);
      if (a->template is<T>()) {
        o.set("ty", "T");
        o.set("v", PV<T>::back(a->template get<T>()));
      } else if (a->template is<X>()) {
        o.set("ty", "X");
        o.set("v", PV<X>::back(a->template get<X>()));
      } else {
        o.set("ty", has ? "?" : "-");
        o.set("v", 0L);
      }
    }
    return o;
  }
  Json obsSlot(int w) { return kind(w) == 'T' ? obsOpt<T>(w) : (kind(w) == 'U' ? obsOpt<U>(w) : obsAny(w)); }

  // ---- Optional actions on a slot of payload type P ---------------------------
  template <typename P>
  bool optBasic(const std::string &a, const Json &arg, Json &o)
  {
    typedef Optional<P> OP;
    int d = (int)arg["d"].num();
    OP *p = reinterpret_cast<OP *>(mem[(size_t)d]);
    long v = arg.has("v") ? (long)arg["v"].num() : 0;
    bool t = arg.has("t") && arg["t"].boolean();
    if (a == "DefaultCtor") {
      new (p) OP; // default-initialisation, as in `Optional<T> o;` (the slot bytes stay 0xCD where the class does not set them)
      constructed[(size_t)d] = 1;
    } else if (a == "ValueCtor") {
      Arg<P> x(v, t);
      new (p) OP(x.x);
      constructed[(size_t)d] = 1;
    } else if (a == "MakeOptional") {
      Arg<P> x(v, t);
      new (p) OP(rkcommon::utility::make_optional<P>(x.x));
      constructed[(size_t)d] = 1;
    } else if (a == "Poison") {
      Poisoner<P>::set(p->value());
    } else if (a == "CopyCtor") {
      const OP &src = *reinterpret_cast<OP *>(mem[(size_t)arg["s"].num()]);
      new (p) OP(src);
      constructed[(size_t)d] = 1;
    } else if (a == "MoveCtor") {
      OP &src = *reinterpret_cast<OP *>(mem[(size_t)arg["s"].num()]);
      new (p) OP(std::move(src));
      constructed[(size_t)d] = 1;
    } else if (a == "AssignValue") {
      if (t) {
        Arg<P> x(v, true);
        *p = x.x;
      } else {
        *p = PV<P>::make(v);
      }
    } else if (a == "CopyAssign") {
      const OP &src = *reinterpret_cast<OP *>(mem[(size_t)arg["s"].num()]);
      *p = src;
    } else if (a == "MoveAssign") {
      OP &src = *reinterpret_cast<OP *>(mem[(size_t)arg["s"].num()]);
      *p = std::move(src);
    } else if (a == "Emplace") {
      if (t) {
        Arg<P> x(v, true);
        p->emplace(x.x);
      } else {
        P &r = p->emplace(PV<P>::make(v));
        Quiet q;
        o.set("ret", PV<P>::back(r));
      }
    } else if (a == "ResetValue") {
      p->reset();
    } else if (a == "Destroy") {
      p->~OP();
      raw(d);
    } else if (a == "Mutate") {
      if (v % 2) p->value() = PV<P>::make(v);
      else **p = PV<P>::make(v);
    } else if (a == "ValueOr") {
      const OP &c = *p;
      P r = c.value_or(PV<P>::make(v));
      Quiet q;
      o.set("ret", PV<P>::back(r));
    } else if (a == "Observe") {
      const OP &c = *p;
      Json r = Json::object();
      bool has = c.has_value();
      r.set("has", has);
      r.set("bool", static_cast<bool>(c));
      if (has) {
        // payload reads through the four accessors; converting the payload back to the model value
        // is the driver's own read (quiet)
        const P &r1 = c.value();
        const P &r2 = *c;
        const P *r3 = c.operator->();
        P &r4 = p->value();
        P &r5 = **p;
        P *r6 = p->operator->();
        Quiet q;
        long v1 = PV<P>::back(r1), v2 = PV<P>::back(r2), v3 = PV<P>::back(*r3);
        bool same = (&r1 == &r4) && (&r2 == &r5) && (r3 == r6);
        r.set("value", same ? v1 : -2L);
        r.set("deref", v2);
        r.set("arrow", v3);
      }
      o.set("ret", r);
      o.set("info", c.toString());
    } else {
      return false;
    }
    return true;
  }

  template <typename PB>
  Json compare(int a, int b)
  {
    const OT &x = *ot(a);
    const Optional<PB> &y = *reinterpret_cast<Optional<PB> *>(mem[(size_t)b]);
    Json r = Json::object();
    r.set("eq", x == y);
    r.set("ne", x != y);
    r.set("lt", x < y);
    r.set("le", x <= y);
    r.set("gt", x > y);
    r.set("ge", x >= y);
    return r;
  }

  struct AfterChar
  {
    char c;
    OT o;
  };

  Json layout()
  {
    Json r = Json::object();
    r.set("wrapper_align_mod", (long)(alignof(OT) % alignof(T)));
    // offset of the contained value inside the wrapper, measured on an instance in aligned memory
    void *m = nullptr;
    if (posix_memalign(&m, 64, sizeof(OT) + sizeof(AfterChar) + 2 * sizeof(OT) + 256) != 0) throw std::runtime_error("posix_memalign");
    OT *p = new (m) OT(PV<T>::make(1));
    uintptr_t off = (uintptr_t)&p->value() - (uintptr_t)p;
    r.set("in_slot_mod", (long)(((uintptr_t)&p->value()) % alignof(T)));
    p->~OT();
    // the same wrapper as a struct member after a char and as the second element of an array, both
    // starting at a 64-byte aligned address: where would the contained value be?  (no access is made)
    r.set("after_char_mod", (long)(((uintptr_t)m + offsetof(AfterChar, o) + off) % alignof(T)));
    r.set("in_array_mod", (long)(((uintptr_t)m + sizeof(OT) + off) % alignof(T)));
    Json info = Json::object();
    info.set("alignof_wrapper", (long)alignof(OT));
    info.set("alignof_payload", (long)alignof(T));
    info.set("sizeof_wrapper", (long)sizeof(OT));
    info.set("offsetof_member_after_char", (long)offsetof(AfterChar, o));
    free(m);
    Json o = Json::object();
    o.set("ret", r);
    o.set("info", info);
    return o;
  }

  long packedUse(long v)
  {
    void *m = nullptr;
    if (posix_memalign(&m, 64, sizeof(AfterChar) + 64) != 0) throw std::runtime_error("posix_memalign");
    AfterChar *ac = new (m) AfterChar();
    ac->c = 'x';
    ac->o.emplace(PV<T>::make(v));
    long r;
    {
      const T &ref = ac->o.value();
      Quiet q;
      r = PV<T>::back(ref);
    }
    ac->o.reset();
    ac->~AfterChar();
    free(m);
    return r;
  }

  // ---- Any --------------------------------------------------------------------
  template <typename P>
  void anyGet(Any *a, Json &o)
  {
    const Any &c = *a;
    bool t1 = false, t2 = false;
    long v1 = -1, v2 = -1;
    try {
      const P &r = c.template get<P>();
      Quiet q;
      v1 = PV<P>::back(r);
    } catch (const std::exception &) {
      t1 = true;
    }
    try {
      P &r = a->template get<P>();
      Quiet q;
      v2 = PV<P>::back(r);
    } catch (const std::exception &) {
      t2 = true;
    }
    if (t1 && t2) o.set("done", "throws");
    else if (t1 != t2) o.set("ret", -3L); // const and non-const get() disagree
    else o.set("ret", v1 == v2 ? v1 : -2L);
  }

  bool anyAction(const std::string &a, const Json &arg, Json &o)
  {
    int d = arg.has("d") ? (int)arg["d"].num() : 0;
    Any *p = d ? any(d) : nullptr;
    long v = arg.has("v") ? (long)arg["v"].num() : 0;
    bool isT = arg.has("ty") && arg["ty"].str() == "T";
    bool t = arg.has("t") && arg["t"].boolean();
    if (a == "AnyDefaultCtor") {
      new (p) Any;
      constructed[(size_t)d] = 1;
    } else if (a == "AnyValueCtor") {
      if (isT) {
        Arg<T> x(v, t);
        new (p) Any(x.x);
      } else {
        Arg<X> x(v, t);
        new (p) Any(x.x);
      }
      constructed[(size_t)d] = 1;
    } else if (a == "AnyPoison") {
      if (p->template is<T>()) Poisoner<T>::set(p->template get<T>());
      else Poisoner<X>::set(p->template get<X>());
    } else if (a == "AnyCopyCtor") {
      const Any &src = *any((int)arg["s"].num());
      new (p) Any(src);
      constructed[(size_t)d] = 1;
    } else if (a == "AnyMoveCtor") {
      Any &src = *any((int)arg["s"].num());
      new (p) Any(std::move(src));
      constructed[(size_t)d] = 1;
    } else if (a == "AnyAssignValue") {
      if (isT) {
        Arg<T> x(v, t);
        *p = x.x;
      } else {
        Arg<X> x(v, t);
        *p = x.x;
      }
    } else if (a == "AnyCopyAssign") {
      const Any &src = *any((int)arg["s"].num());
      *p = src;
    } else if (a == "AnyMoveAssign") {
      Any &src = *any((int)arg["s"].num());
      *p = std::move(src);
    } else if (a == "AnyDestroy") {
      p->~Any();
      raw(d);
    } else if (a == "AnyGet") {
      if (isT) anyGet<T>(p, o);
      else anyGet<X>(p, o);
    } else if (a == "AnySet") {
      try {
        if (isT) p->template get<T>() = PV<T>::make(v);
        else p->template get<X>() = PV<X>::make(v);
      } catch (const std::exception &) {
        o.set("done", "throws");
      }
    } else if (a == "AnyObserve") {
      const Any &c = *p;
      Json r = Json::object();
      r.set("valid", c.valid());
      r.set("isT", c.template is<T>());
      r.set("isX", c.template is<X>());
      o.set("ret", r);
    } else if (a == "AnyEquals") {
      const Any &x = *any((int)arg["a"].num());
      const Any &y = *any((int)arg["b"].num());
      Json r = Json::object();
      r.set("eq", x == y);
      r.set("ne", x != y);
      o.set("ret", r);
    } else if (a == "AnyToString") {
      const Any &c = *p;
      o.set("info", c.toString());
    } else {
      return false;
    }
    return true;
  }

  // ---- one step -----------------------------------------------------------------
  Json step(const Json &act) override
  {
    const std::string &a = act["a"].str();
    const Json &arg = act["arg"];
    Json o = Json::object();
    o.set("done", "returned");
    reg().beginStep();
    int d = arg.has("d") ? (int)arg["d"].num() : 0;
    int s = arg.has("s") ? (int)arg["s"].num() : 0;
    try {
      if (a == "Teardown") {
        for (int w = n; w >= 1; --w) {
          if (!constructed[(size_t)w]) continue;
          if (kind(w) == 'T') ot(w)->~OT();
          else if (kind(w) == 'U') ou(w)->~OU();
          else any(w)->~Any();
          raw(w);
        }
      } else if (a == "Layout") {
        Json l = layout();
        o.set("ret", l["ret"]);
        o.set("info", l["info"]);
      } else if (a == "PackedUse") {
        o.set("ret", packedUse((long)arg["v"].num()));
      } else if (a == "ConvCopyCtor") {
        const OU &src = *ou(s);
        new (ot(d)) OT(src);
        constructed[(size_t)d] = 1;
      } else if (a == "ConvMoveCtor") {
        new (ot(d)) OT(std::move(*ou(s)));
        constructed[(size_t)d] = 1;
      } else if (a == "ConvCopyAssign") {
        const OU &src = *ou(s);
        *ot(d) = src;
      } else if (a == "ConvMoveAssign") {
        *ot(d) = std::move(*ou(s));
      } else if (a == "Compare") {
        int x = (int)arg["a"].num(), y = (int)arg["b"].num();
        o.set("ret", kind(y) == 'T' ? compare<T>(x, y) : compare<U>(x, y));
      } else if (a.compare(0, 3, "Any") == 0) {
        if (!anyAction(a, arg, o)) o.set("done", "unknown action " + a);
      } else {
        bool ok = kind(d) == 'T' ? optBasic<T>(a, arg, o) : optBasic<U>(a, arg, o);
        if (!ok) o.set("done", "unknown action " + a);
      }
    } catch (const std::exception &e) {
      o.set("done", "throws");
      o.set("what", std::string(e.what()).substr(0, 120));
    }
    // observation of the whole world (driver's own reads are not payload operations)
    long dead = reg().dead, dup = reg().dup;
    Json ev = reg().events;
    {
      Quiet q;
      Json world = Json::array();
      for (int w = 1; w <= n; ++w) world.push(obsSlot(w));
      if (d) o.set("dst", world[(size_t)d - 1]);
      if (s) o.set("src", world[(size_t)s - 1]);
      o.set("world", world);
      if (TRACKED) {
        Json life = Json::object();
        life.set("dead", dead);
        life.set("dup", dup);
        long outside = 0;
        for (auto adr : reg().live)
          if (reg().slotOf(adr) == 0) ++outside;
        life.set("outside", outside);
        life.set("total", (long)reg().live.size());
        o.set("life", life);
        if (emitEvents) o.set("ev", ev);
      }
    }
    return o;
  }
};

IWorld *makeWorldInt(int nt, int nu, int na);
IWorld *makeWorldDouble(int nt, int nu, int na);
IWorld *makeWorldString(int nt, int nu, int na);
IWorld *makeWorldVector(int nt, int nu, int na);
IWorld *makeWorldOver(int nt, int nu, int na);
IWorld *makeWorldTracked(int nt, int nu, int na);

} // namespace vb
