// payload variant "over": T = Over, U = int, X = OtherX (see world.h)
#include "world.h"
namespace vb {
IWorld *makeWorldOver(int nt, int nu, int na)
{
  return new World<Over, int, OtherX, false>(nt, nu, na);
}
} // namespace vb
