// payload variant "double": T = double, U = float, X = OtherX (see world.h)
#include "world.h"
namespace vb {
IWorld *makeWorldDouble(int nt, int nu, int na)
{
  return new World<double, float, OtherX, false>(nt, nu, na);
}
} // namespace vb
