// payload variant "int": T = int, U = short, X = OtherX (see world.h)
#include "world.h"
namespace vb {
IWorld *makeWorldInt(int nt, int nu, int na)
{
  return new World<int, short, OtherX, false>(nt, nu, na);
}
} // namespace vb
