// Driver for property C09 (spec/utility/ValueBox.tla, ValueBoxEnv.tla).
// Input line: {"id":..,"variant":"int|double|string|vector|over|tracked","nt":..,"nu":..,"na":..,["events":true,]"h":[...]}
// See world.h.  The GetEnv action (getEnvVar<T> returns an Optional<T>) is handled here.
#include <cmath>
#include <cstdlib>
#include "rkcommon/utility/getEnvVar.h"
#include "world.h"

using vj::Json;

static Json getEnv(const Json &arg)
{
  static const char *NAME = "VERIF_C09_ENV_VAR";
  const std::string t = arg["t"].str();
  if (arg["set"].boolean()) setenv(NAME, arg["text"].str().c_str(), 1);
  else unsetenv(NAME);
  Json r = Json::object();
  if (t == "int") {
    auto o = rkcommon::utility::getEnvVar<int>(NAME);
    r.set("has", o.has_value());
    r.set("v", o.has_value() ? (long)o.value() : 0L);
  } else if (t == "float") {
    auto o = rkcommon::utility::getEnvVar<float>(NAME);
    r.set("has", o.has_value());
    r.set("v", o.has_value() ? (long)std::llround((double)o.value() * 1000.0) : 0L); // value in 1/1000
  } else {
    auto o = rkcommon::utility::getEnvVar<std::string>(NAME);
    r.set("has", o.has_value());
    r.set("v", o.has_value() ? o.value() : std::string());
  }
  unsetenv(NAME);
  Json o = Json::object();
  o.set("done", "returned");
  o.set("ret", r);
  return o;
}

struct World
{
  vb::IWorld *w;
  World(const Json &hist) : w(nullptr)
  {
    const std::string v = hist["variant"].str();
    int nt = (int)hist["nt"].num(), nu = (int)hist["nu"].num(), na = (int)hist["na"].num();
    if (v == "double") w = vb::makeWorldDouble(nt, nu, na);
    else if (v == "string") w = vb::makeWorldString(nt, nu, na);
    else if (v == "vector") w = vb::makeWorldVector(nt, nu, na);
    else if (v == "over") w = vb::makeWorldOver(nt, nu, na);
    else if (v == "tracked") w = vb::makeWorldTracked(nt, nu, na);
    else w = vb::makeWorldInt(nt, nu, na);
    w->setEmitEvents(hist.has("events") && hist["events"].boolean());
  }
  ~World() { delete w; }
  Json step(const Json &act)
  {
    if (act["a"].str() == "GetEnv") return getEnv(act["arg"]);
    return w->step(act);
  }
};

int main(int argc, char **argv)
{
  return vdrv::run<World>(argc, argv);
}
