// Conformance driver for spec/memory/RefCountConcTrace.tla (property C08, concurrent part).
// One action, "Burst": T std::threads (no rkcommon tasking involved) work on IntrusivePtr
// handles to 1-2 shared objects.
//   phase 1  every thread performs `ops` random operations on handles it owns (copy
//            construction from its own or the shared root handles, destruction, copy /
//            raw-pointer / converting assignment, move + destruction of the source,
//            explicit refInc/refDec pairs) and keeps its own books: references acquired,
//            references released, handles still live at the end of the phase.
//   quiescent point: the main thread reads useCount() of every object.
//   phase 2  the main thread gives up the creator's reference and its root handles; then
//            all threads release everything they still hold, concurrently (they race for
//            the last release).  Before each release a thread draws a stamp from one
//            global atomic counter; the pointee's destructor draws one too.
//   optionally one thread keeps one handle ("keep"): that object must survive.
// A second action, "AcquireRounds": concurrent ACQUISITION THROUGH ONE BORROWED REFERENCE.
//   Per round the main thread creates a fresh object whose count is exactly `start` (1: only
//   the lender's reference - the creator's, or one shared handle; 2, 3: plus handles of the
//   main thread).  k persistent workers, which own nothing, leave a SPIN barrier together and
//   each take a reference through that borrowed one: IntrusivePtr from the raw pointer, copy
//   of the one shared handle, or refInc().  At the next barrier (all handles alive, nobody
//   operating) main reads useCount(); the workers then release concurrently; at the next
//   quiescent point main reads the count again and whether the destructor already ran, and
//   finally releases its own references.  With "lenderFirst" main releases ITS references at
//   the first quiescent point instead, so that the k workers' concurrent releases start from a
//   count of exactly k and one of them is the last release: the object must be destroyed
//   exactly once, by them.  The pointee storage of this action is QUARANTINED
//   (operator delete keeps it, nothing is reused), so a too-early destruction is observed as a
//   fact (destructor log) instead of being undefined behaviour.  A worker notes whether any
//   other worker had already finished when it started: rounds in which at least two workers
//   started before anybody finished are reported as overlapping.  Identical round outcomes are
//   reported once with their multiplicity (lossless).
// The driver only reports the books, the counts read and the destructor log;
// the trace specification decides (conservation, destruction exactly once and only
// after the last release).  Built plain and with -fsanitize=thread.
#include <atomic>
#include <chrono>
#include <condition_variable>
#include <mutex>
#include <thread>
#include <utility>
#include <vector>
#include "driver.h"
#include "rkcommon/memory/IntrusivePtr.h"
#include "rkcommon/memory/RefCount.h"

using vj::Json;
using rkcommon::memory::IntrusivePtr;
using rkcommon::memory::Ref;

static const int MAXOBJ = 2;
static std::atomic<long long> g_stamp{1};
static std::atomic<int> g_dtorCount[MAXOBJ];
static std::atomic<long long> g_dtorStamp[MAXOBJ];
static std::atomic<int> g_derivedDtor[MAXOBJ];

struct CNode : public rkcommon::memory::RefCountedObject
{
  int o;
  explicit CNode(int o_) : o(o_) {}
  virtual ~CNode()
  {
    g_dtorStamp[o].store(g_stamp.fetch_add(1));
    g_dtorCount[o].fetch_add(1);
  }
};
struct CLeaf : public CNode
{
  long long pad[2];
  explicit CLeaf(int o_) : CNode(o_) { pad[0] = pad[1] = 1; }
  virtual ~CLeaf() { g_derivedDtor[o].fetch_add(1); }
};

struct Barrier
{
  std::mutex m;
  std::condition_variable cv;
  int waiting = 0, gen = 0, n;
  explicit Barrier(int n_) : n(n_) {}
  void wait()
  {
    std::unique_lock<std::mutex> lk(m);
    int g = gen;
    if (++waiting == n) {
      waiting = 0;
      ++gen;
      cv.notify_all();
    } else {
      cv.wait(lk, [&] { return gen != g; });
    }
  }
};

struct Rng
{
  unsigned long long x;
  explicit Rng(unsigned long long s) : x(s * 2654435761ULL + 88172645463325252ULL) {}
  unsigned next()
  {
    x ^= x << 13;
    x ^= x >> 7;
    x ^= x << 17;
    return (unsigned)(x >> 11);
  }
  unsigned below(unsigned n) { return next() % n; }
};

typedef IntrusivePtr<CNode> HB;
typedef Ref<CLeaf> HD;

struct Books
{
  long long acq[MAXOBJ], rel[MAXOBJ], live[MAXOBJ], rel2[MAXOBJ], maxstamp[MAXOBJ], kept[MAXOBJ];
  Books()
  {
    for (int i = 0; i < MAXOBJ; ++i) acq[i] = rel[i] = live[i] = rel2[i] = maxstamp[i] = kept[i] = 0;
  }
};

// handles a thread owns: KB of static type Base, KD of static type Derived (object 1 only, the CLeaf)
static const int KB = 6, KD = 3;
struct Local
{
  alignas(16) unsigned char memB[KB][sizeof(HB)];
  alignas(16) unsigned char memD[KD][sizeof(HD)];
  int whichB[KB];  // -2 no handle, -1 empty handle, o otherwise  (the thread's own intent)
  int whichD[KD];
  Local()
  {
    for (int i = 0; i < KB; ++i) whichB[i] = -2;
    for (int i = 0; i < KD; ++i) whichD[i] = -2;
  }
  HB &B(int i) { return *reinterpret_cast<HB *>(memB[i]); }
  HD &D(int i) { return *reinterpret_cast<HD *>(memD[i]); }
};

struct Run
{
  int T, M;
  long long ops;
  int keepThread;  // 0: nobody keeps anything; t >= 1: thread t keeps one handle to object 0
  CNode *obj[MAXOBJ];
  HB rootB[MAXOBJ];  // main's handles, not modified while the threads run
  HD rootD;          // Derived-typed root handle of object 1 (if M == 2)
  std::vector<Books> books;
  Barrier b1, b2;
  Run(int T_, int M_, long long ops_, int keep) : T(T_), M(M_), ops(ops_), keepThread(keep), books(T_ + 1), b1(T_ + 1), b2(T_ + 1)
  {
    obj[0] = obj[1] = nullptr;
  }
};

static void worker(Run *R, int t, unsigned long long seed)
{
  Rng rng(seed * 1000003ULL + (unsigned long long)t);
  Local L;
  Books &bk = R->books[t];
  const int M = R->M;
  // every thread starts by taking its own reference to every shared object
  for (int o = 0; o < M; ++o) {
    new (L.memB[o]) HB(R->rootB[o]);
    L.whichB[o] = o;
    bk.acq[o]++;
  }
  for (long long k = 0; k < R->ops; ++k) {
    const unsigned op = rng.below(10);
    const int i = (int)rng.below(KB);
    const int j = (int)rng.below(KB);
    const int o = (int)rng.below((unsigned)M);
    switch (op) {
    case 0:
    case 1: {  // copy construction from an own handle or from the shared root handle
      if (L.whichB[i] != -2) break;
      if (L.whichB[j] != -2 && j != i) {
        new (L.memB[i]) HB(L.B(j));
        L.whichB[i] = L.whichB[j];
      } else {
        new (L.memB[i]) HB(R->rootB[o]);
        L.whichB[i] = o;
      }
      if (L.whichB[i] >= 0) bk.acq[L.whichB[i]]++;
      break;
    }
    case 2:
    case 3: {  // destruction
      if (L.whichB[i] == -2) break;
      if (L.whichB[i] >= 0) bk.rel[L.whichB[i]]++;
      L.B(i).~HB();
      L.whichB[i] = -2;
      break;
    }
    case 4: {  // copy assignment (also self-assignment when i == j)
      if (L.whichB[i] == -2) break;
      int src;
      if (L.whichB[j] != -2) {
        src = L.whichB[j];
        HB &dst = L.B(i);
        const HB &s = L.B(j);
        if (src >= 0) bk.acq[src]++;
        if (L.whichB[i] >= 0) bk.rel[L.whichB[i]]++;
        dst = s;
      } else {
        src = o;
        bk.acq[src]++;
        if (L.whichB[i] >= 0) bk.rel[L.whichB[i]]++;
        L.B(i) = R->rootB[o];
      }
      L.whichB[i] = src;
      break;
    }
    case 5: {  // raw pointer assignment (object pointer or nullptr)
      if (L.whichB[i] == -2) break;
      if (L.whichB[i] >= 0) bk.rel[L.whichB[i]]++;
      if (rng.below(4) == 0) {
        L.B(i) = nullptr;
        L.whichB[i] = -1;
      } else {
        L.B(i) = R->rootB[o].ptr;
        L.whichB[i] = o;
        bk.acq[o]++;
      }
      break;
    }
    case 6: {  // move construction followed by destruction of the source: moves one reference
      if (L.whichB[i] != -2 || L.whichB[j] == -2 || i == j) break;
      new (L.memB[i]) HB(std::move(L.B(j)));
      L.B(j).~HB();
      L.whichB[i] = L.whichB[j];
      L.whichB[j] = -2;
      break;
    }
    case 7: {  // explicit refInc ... refDec around another copy, on an object this thread holds
      if (L.whichB[i] < 0) break;
      CNode *p = L.B(i).ptr;
      const int oo = L.whichB[i];
      p->refInc();
      bk.acq[oo]++;
      {
        HB tmp(L.B(i));
        bk.acq[oo]++;
        bk.rel[oo]++;
      }
      p->refDec();
      bk.rel[oo]++;
      break;
    }
    case 8: {  // Derived-typed handles to object 1 and derived-to-base conversion
      if (M < 2) break;
      const int d = (int)rng.below(KD);
      if (L.whichD[d] == -2) {
        new (L.memD[d]) HD(R->rootD);
        L.whichD[d] = 1;
        bk.acq[1]++;
      } else if (L.whichB[i] != -2) {
        if (L.whichB[i] >= 0) bk.rel[L.whichB[i]]++;
        L.B(i) = L.D(d);  // converting copy
        L.whichB[i] = L.whichD[d];
        if (L.whichB[i] >= 0) bk.acq[L.whichB[i]]++;
      }
      break;
    }
    default: {  // destruction of a Derived-typed handle
      const int d = (int)rng.below(KD);
      if (L.whichD[d] == -2) break;
      if (L.whichD[d] >= 0) bk.rel[L.whichD[d]]++;
      L.D(d).~HD();
      L.whichD[d] = -2;
      break;
    }
    }
  }
  for (int q = 0; q < KB; ++q)
    if (L.whichB[q] >= 0) bk.live[L.whichB[q]]++;
  for (int q = 0; q < KD; ++q)
    if (L.whichD[q] >= 0) bk.live[L.whichD[q]]++;
  R->b1.wait();  // quiescent point: main reads the counts
  R->b2.wait();  // main has released its references
  bool keptOne = false;
  for (int q = 0; q < KB; ++q) {
    if (L.whichB[q] == -2) continue;
    if (L.whichB[q] >= 0) {
      const int oo = L.whichB[q];
      if (R->keepThread == t && oo == 0 && !keptOne) {
        keptOne = true;  // this handle is never destroyed
        bk.kept[0] = 1;
        continue;
      }
      const long long st = g_stamp.fetch_add(1);
      if (st > bk.maxstamp[oo]) bk.maxstamp[oo] = st;
      bk.rel2[oo]++;
    }
    L.B(q).~HB();
  }
  for (int q = 0; q < KD; ++q) {
    if (L.whichD[q] == -2) continue;
    if (L.whichD[q] >= 0) {
      const int oo = L.whichD[q];
      const long long st = g_stamp.fetch_add(1);
      if (st > bk.maxstamp[oo]) bk.maxstamp[oo] = st;
      bk.rel2[oo]++;
    }
    L.D(q).~HD();
  }
}

// ---------------------------------------------------------------------------------------------
// AcquireRounds
// ---------------------------------------------------------------------------------------------
static std::atomic<long long> g_rdtors{0};
struct RNode : public rkcommon::memory::RefCountedObject
{
  long long tag;
  RNode() : tag(0x52) {}
  virtual ~RNode()
  {
    tag = 0;
    g_rdtors.fetch_add(1);
  }
  static void operator delete(void *) {}  // quarantine: the storage is never handed out again
};
typedef IntrusivePtr<RNode> HR;

static inline void cpuRelax()
{
#if defined(__x86_64__) || defined(__i386__)
  __builtin_ia32_pause();
#endif
}
// spinning barrier (no sleeping; yields only after a long spin so that an oversubscribed machine still makes progress)
struct SpinBarrier
{
  std::atomic<int> waiting{0};
  std::atomic<int> gen{0};
  int n;
  explicit SpinBarrier(int n_) : n(n_) {}
  void wait()
  {
    const int g = gen.load();
    if (waiting.fetch_add(1) + 1 == n) {
      waiting.store(0);
      gen.fetch_add(1);
    } else {
      long spins = 0;
      while (gen.load() == g) {
        cpuRelax();
        if (++spins > 20000) std::this_thread::yield();
      }
    }
  }
};

struct Rounds
{
  int k, start;
  int how;  // 0 raw pointer, 1 copy of the shared handle, 2 refInc(), 3 mixed (differs per worker and round)
  long long rounds;
  SpinBarrier bar;
  std::atomic<int> quit{0};
  std::atomic<int> done{0};   // workers that finished their acquisition in this round
  std::atomic<int> early{0};  // workers that started while nobody had finished
  std::atomic<int> doneRel{0};   // the same two for the release phase
  std::atomic<int> earlyRel{0};
  RNode *obj = nullptr;
  HR *shared = nullptr;
  Rounds(int k_, int start_, int how_, long long r) : k(k_), start(start_), how(how_), rounds(r), bar(k_ + 1) {}
};

static void roundWorker(Rounds *R, int w)
{
  alignas(16) unsigned char mem[sizeof(HR)];
  for (long long r = 0;; ++r) {
    R->bar.wait();  // A: main has prepared the round
    if (R->quit.load()) break;
    const int mode = R->how == 3 ? (int)((r + w) % 3) : R->how;
    RNode *const p = R->obj;
    const int seen = R->done.load();
    if (mode == 0) new (mem) HR(p);             // raw-pointer constructor
    else if (mode == 1) new (mem) HR(*R->shared);  // copy of the one shared handle
    else p->refInc();                            // explicit reference
    R->done.fetch_add(1);
    if (seen == 0) R->early.fetch_add(1);
    R->bar.wait();  // B: everybody holds a reference; main reads the count
    R->bar.wait();  // C: main has read (and, with lenderFirst, released its own references)
    const int seenRel = R->doneRel.load();
    if (mode == 2) p->refDec();
    else reinterpret_cast<HR *>(mem)->~HR();
    R->doneRel.fetch_add(1);
    if (seenRel == 0) R->earlyRel.fetch_add(1);
    R->bar.wait();  // D: everybody has released; main reads again and releases its own
  }
}

static Json runRounds(const Json &arg)
{
  int k = (int)arg["threads"].num();
  if (k < 1) k = 1;
  if (k > 16) k = 16;
  int start = arg.has("start") ? (int)arg["start"].num() : 1;
  if (start < 1) start = 1;
  if (start > 3) start = 3;
  const std::string hs = arg.has("how") ? arg["how"].str() : "raw";
  const int how = hs == "raw" ? 0 : hs == "copy" ? 1 : hs == "refinc" ? 2 : 3;
  const long long rounds = arg["rounds"].num();
  const long long maxms = arg.has("maxms") ? arg["maxms"].num() : 4000;
  const bool lenderFirst = arg.has("lenderFirst") && arg["lenderFirst"].num() != 0;
  Rounds *R = new Rounds(k, start, how, rounds);
  std::vector<std::thread> th;
  for (int w = 0; w < k; ++w) th.emplace_back(roundWorker, R, w);
  // outcome of a round: count with all handles alive, destructions so far, count after the workers released,
  // destructions before main released anything, destructions at the end, overlapping (0/1)
  std::vector<std::vector<long long>> kinds;
  std::vector<long long> mult;
  long long performed = 0, overlapping = 0, overlappingRel = 0;
  const auto t0 = std::chrono::steady_clock::now();
  for (long long r = 0; r < rounds; ++r) {
    if ((r & 63) == 63 &&
        std::chrono::duration_cast<std::chrono::milliseconds>(std::chrono::steady_clock::now() - t0).count() > maxms)
      break;
    const long long d0 = g_rdtors.load();
    RNode *o = new RNode();  // count 1: the creator's reference
    HR extra[2];
    for (int i = 0; i + 1 < start; ++i) extra[i] = o;  // count start
    const bool viaHandle = how == 1 || how == 3;
    if (viaHandle) {
      R->shared = new HR(o);  // the lender's reference becomes the shared handle ...
      o->refDec();            // ... and the creator's own is given up: the count is `start` again
    }
    R->obj = o;
    R->done.store(0);
    R->early.store(0);
    R->doneRel.store(0);
    R->earlyRel.store(0);
    R->bar.wait();  // A
    R->bar.wait();  // B: quiescent, every worker holds its reference
    const long long dMid = g_rdtors.load() - d0;
    const long long mid = dMid ? -1 : o->useCount();
    const int ov = R->early.load() >= 2 ? 1 : 0;
    bool released = false;
    if (lenderFirst && dMid == 0) {  // main gives up everything it holds: the count is now exactly k, held by the workers
      for (int i = 0; i + 1 < start; ++i) extra[i] = nullptr;
      if (viaHandle) delete R->shared;
      else o->refDec();
      released = true;
    }
    R->bar.wait();  // C
    R->bar.wait();  // D: quiescent, every worker has released
    const int ovRel = R->earlyRel.load() >= 2 ? 1 : 0;
    const long long dAfter = g_rdtors.load() - d0;
    const long long after = dAfter ? -1 : o->useCount();
    if (released) {
      // nothing left to do: the workers' releases were the last ones
    } else if (dAfter == 0) {  // (a destroyed object is not touched again)
      for (int i = 0; i + 1 < start; ++i) extra[i] = nullptr;
      if (viaHandle) delete R->shared;  // the lender's release
      else o->refDec();
    } else {
      for (int i = 0; i + 1 < start; ++i) new (&extra[i]) HR();  // forget the handles without releasing
    }
    const long long dEnd = g_rdtors.load() - d0;
    std::vector<long long> kind;
    kind.push_back(mid); kind.push_back(dMid); kind.push_back(after); kind.push_back(dAfter); kind.push_back(dEnd); kind.push_back(ov);
    kind.push_back(ovRel);
    overlappingRel += ovRel;
    size_t j = 0;
    for (; j < kinds.size(); ++j)
      if (kinds[j] == kind) break;
    if (j == kinds.size()) { kinds.push_back(kind); mult.push_back(0); }
    mult[j]++;
    performed++;
    overlapping += ov;
  }
  R->quit.store(1);
  R->bar.wait();
  for (auto &x : th) x.join();
  Json out = Json::object();
  out.set("threads", (long long)k);
  out.set("start", (long long)start);
  out.set("how", hs);
  out.set("rounds", performed);
  out.set("overlapping", overlapping);
  out.set("overlappingRel", overlappingRel);
  out.set("lenderFirst", (long long)(lenderFirst ? 1 : 0));
  Json ks = Json::array();
  for (size_t j = 0; j < kinds.size(); ++j) {
    Json e = Json::object();
    e.set("mid", kinds[j][0]);
    e.set("destroyedMid", kinds[j][1]);
    e.set("after", kinds[j][2]);
    e.set("destroyedAfter", kinds[j][3]);
    e.set("destroyedEnd", kinds[j][4]);
    e.set("overlap", kinds[j][5]);
    e.set("overlapRel", kinds[j][6]);
    e.set("n", mult[j]);
    ks.push(e);
  }
  out.set("outcomes", ks);
  return out;
}

static Json arr(const long long *v, int n)
{
  Json a = Json::array();
  for (int i = 0; i < n; ++i) a.push(v[i]);
  return a;
}

struct World
{
  World(const Json &) {}
  Json step(const Json &act)
  {
    Json out = Json::object();
    if (act["a"].str() == "AcquireRounds") return runRounds(act["arg"]);
    if (act["a"].str() != "Burst") {
      out.set("ret", "unknown action");
      return out;
    }
    const Json &arg = act["arg"];
    int T = (int)arg["threads"].num();
    int M = (int)arg["objs"].num();
    if (M < 1) M = 1;
    if (M > MAXOBJ) M = MAXOBJ;
    if (T < 1) T = 1;
    const long long ops = arg["ops"].num();
    const unsigned long long seed = (unsigned long long)arg["seed"].num();
    const int keep = arg.has("keep") ? (int)arg["keep"].num() : 0;
    g_stamp.store(1);
    for (int o = 0; o < MAXOBJ; ++o) {
      g_dtorCount[o].store(0);
      g_dtorStamp[o].store(0);
      g_derivedDtor[o].store(0);
    }
    Run *R = new Run(T, M, ops, keep);
    Books &mb = R->books[0];
    R->obj[0] = new CNode(0);
    if (M > 1) R->obj[1] = new CLeaf(1);
    for (int o = 0; o < M; ++o) {
      R->rootB[o] = R->obj[o];  // raw-pointer assignment
      mb.acq[o]++;
    }
    if (M > 1) {
      R->rootD = static_cast<CLeaf *>(R->obj[1]);
      mb.acq[1]++;
    }
    for (int o = 0; o < M; ++o) mb.live[o] = mb.acq[o];
    std::vector<std::thread> th;
    for (int t = 1; t <= T; ++t) th.emplace_back(worker, R, t, seed);
    R->b1.wait();
    // quiescent point
    long long use[MAXOBJ] = {0, 0}, destroyedMid[MAXOBJ] = {0, 0};
    for (int o = 0; o < M; ++o) {
      destroyedMid[o] = g_dtorCount[o].load();
      use[o] = destroyedMid[o] ? -1 : R->obj[o]->useCount();
    }
    // main releases: the creator's reference, then its root handles
    long long creatorRel[MAXOBJ] = {0, 0};
    for (int o = 0; o < M; ++o) {
      long long st = g_stamp.fetch_add(1);
      if (st > mb.maxstamp[o]) mb.maxstamp[o] = st;
      R->obj[o]->refDec();
      creatorRel[o] = 1;
      st = g_stamp.fetch_add(1);
      if (st > mb.maxstamp[o]) mb.maxstamp[o] = st;
      R->rootB[o] = nullptr;
      mb.rel2[o]++;
    }
    if (M > 1) {
      long long st = g_stamp.fetch_add(1);
      if (st > mb.maxstamp[1]) mb.maxstamp[1] = st;
      R->rootD = HD();  // move assignment from an empty temporary
      mb.rel2[1]++;
    }
    R->b2.wait();
    for (auto &x : th) x.join();
    long long destroyed[MAXOBJ] = {0, 0}, dstamp[MAXOBJ] = {0, 0}, derived[MAXOBJ] = {0, 0}, useEnd[MAXOBJ] = {-1, -1};
    for (int o = 0; o < M; ++o) {
      destroyed[o] = g_dtorCount[o].load();
      dstamp[o] = g_dtorStamp[o].load();
      derived[o] = g_derivedDtor[o].load();
      useEnd[o] = destroyed[o] ? -1 : R->obj[o]->useCount();
    }
    out.set("threads", (long long)T);
    out.set("objs", (long long)M);
    Json bl = Json::array();
    for (int t = 0; t <= T; ++t) {
      Json b = Json::object();
      const Books &k = R->books[t];
      b.set("t", (long long)t);
      b.set("acq", arr(k.acq, M));
      b.set("rel", arr(k.rel, M));
      b.set("live", arr(k.live, M));
      b.set("rel2", arr(k.rel2, M));
      b.set("maxstamp", arr(k.maxstamp, M));
      b.set("kept", arr(k.kept, M));
      bl.push(b);
    }
    out.set("books", bl);
    out.set("use", arr(use, M));
    out.set("destroyedMid", arr(destroyedMid, M));
    out.set("creatorRel", arr(creatorRel, M));
    out.set("destroyed", arr(destroyed, M));
    out.set("dstamp", arr(dstamp, M));
    out.set("derivedDtor", arr(derived, M));
    out.set("useEnd", arr(useEnd, M));
    // R (and a kept handle's object) are leaked on purpose: nothing else of the code under test runs
    return out;
  }
};

int main(int argc, char **argv)
{
  return vdrv::run<World>(argc, argv);
}
