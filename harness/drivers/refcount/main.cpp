// Conformance driver for spec/memory/RefCount.tla (property C08, sequential part).
// Interprets the actions of the specification on real rkcommon IntrusivePtr /
// RefCountedObject instances and reports the projection `last.exp` talks about:
//   cnt   useCount() of every object whose destructor has not run (-1 otherwise)
//   died  the objects whose destructor ran during this step, with the most derived
//         destructor that ran
//   ptr   what every handle slot holds (object id, 0 = empty, -1 = no handle)
//   mem   what the member handle `next` of every live Derived object holds (-1: none)
//   same  operator== / != of every pair of same-typed handles
//   ret   the value returned by the operation
// Handles live in raw storage: construction and destruction are explicit actions.
// Derived pointees embed a handle (Ref<Node> next): destroying such an object releases
// what `next` holds (cascade), and a pool handle can be assigned from the member of the
// very object it designates (`cur = cur->next`).  With "quarantine": true in the input
// line the pointee types' operator delete keeps the storage (destructors still run and
// are logged), so that what the code computes after an early destruction is observed as
// values; without it the storage is really freed and ASan turns a use-after-free into a
// crash event.
// The driver decides nothing.  It refuses (reports {"skipped":true}) actions it
// cannot legally perform according to its *own* bookkeeping (slot holds a handle or
// not, static types, object's destructor already ran, explicit references it
// took itself); the specification decides whether refusing was right.
#include <new>
#include <string>
#include <utility>
#include <vector>
#include "driver.h"
#include "rkcommon/memory/IntrusivePtr.h"
#include "rkcommon/memory/RefCount.h"

using vj::Json;
using rkcommon::memory::IntrusivePtr;
using rkcommon::memory::Ref;

struct DtorEvent
{
  int o;
  int inc;
  char part;  // 'D': ~Leaf ran, 'B': ~Node ran
};
static std::vector<DtorEvent> g_dtors;
static bool g_quarantine = false;
static std::vector<void *> g_quarantined;

// pointee types: Node is the "Base" type, Leaf the "Derived" type of the specification
struct Node : public rkcommon::memory::RefCount  // RefCount.h alias of RefCountedObject
{
  int o, inc;
  long long payload;
  Node(int o_, int inc_) : o(o_), inc(inc_), payload(0x5a5a5a5a) {}
  virtual ~Node() { g_dtors.push_back(DtorEvent{o, inc, 'B'}); payload = 0; }
  // class-level deallocation (found through the virtual destructor for both pointee types)
  static void operator delete(void *p)
  {
    if (g_quarantine) g_quarantined.push_back(p);
    else ::operator delete(p);
  }
};
struct Leaf : public Node
{
  long long more[3];
  Ref<Node> next;  // the member handle of the specification (m[x])
  Leaf(int o_, int inc_) : Node(o_, inc_) { more[0] = more[1] = more[2] = 7; }
  virtual ~Leaf() { g_dtors.push_back(DtorEvent{o, inc, 'D'}); more[0] = 0; }
};

typedef IntrusivePtr<Node> HB;  // handle of static type Base
typedef Ref<Leaf> HD;           // handle of static type Derived (through the RefCount.h alias)

struct Obj
{
  char type;       // 'B' / 'D'
  Node *cur;       // current incarnation (may be destroyed)
  int inc;
  bool creatorHeld;
  int explicitHeld;
  std::vector<const void *> deadAddrs;
  Obj() : type('B'), cur(nullptr), inc(0), creatorHeld(false), explicitHeld(0) {}
};

struct Slot
{
  char type;
  bool constructed;
  alignas(16) unsigned char mem[sizeof(HB) > sizeof(HD) ? sizeof(HB) : sizeof(HD)];
  Slot() : type('B'), constructed(false) {}
};

struct World
{
  std::vector<Slot> slots;  // 1-based
  std::vector<Obj> objs;    // 1-based
  int maxExplicit;
  bool members;

  World(const Json &hist)
  {
    g_dtors.clear();
    g_quarantine = hist.has("quarantine") && hist["quarantine"].boolean();
    members = hist.has("members") && hist["members"].boolean();
    std::string st = hist.has("slots") ? hist["slots"].str() : "BBD";
    std::string ot = hist.has("objs") ? hist["objs"].str() : "BD";
    maxExplicit = hist.has("maxexp") ? (int)hist["maxexp"].num() : 1;
    slots.resize(st.size() + 1);
    objs.resize(ot.size() + 1);
    for (size_t i = 0; i < st.size(); ++i) slots[i + 1].type = st[i];
    for (size_t i = 0; i < ot.size(); ++i) objs[i + 1].type = ot[i];
  }
  // handles and objects still alive at the end of a history are deliberately leaked:
  // nothing of the code under test runs outside a step.

  HB &B(int s) { return *reinterpret_cast<HB *>(slots[s].mem); }
  HD &D(int s) { return *reinterpret_cast<HD *>(slots[s].mem); }
  bool okSlot(long long s) const { return s >= 1 && s < (long long)slots.size(); }
  bool okObj(long long o) const { return o >= 1 && o < (long long)objs.size(); }

  bool dtorRan(int o) const
  {
    for (const DtorEvent &e : g_dtors)
      if (e.o == o && e.inc == objs[o].inc && e.part == 'B') return true;
    return false;
  }
  bool alive(int o) const { return objs[o].cur != nullptr && !dtorRan(o); }

  const void *rawOf(int s)
  {
    if (slots[s].type == 'B') return static_cast<const void *>(B(s).ptr);
    return static_cast<const void *>(static_cast<Node *>(D(s).ptr));
  }
  long long identify(const void *p) const
  {
    if (!p) return 0;
    for (size_t o = 1; o < objs.size(); ++o)
      if (objs[o].cur == p && alive((int)o)) return (long long)o;
    for (size_t o = 1; o < objs.size(); ++o) {
      if (objs[o].cur == p) return 100 + (long long)o;  // dangling: designates a destroyed object
      for (const void *q : objs[o].deadAddrs)
        if (q == p) return 100 + (long long)o;
    }
    return 99;
  }

  static Json skipped()
  {
    Json o = Json::object();
    o.set("skipped", true);
    return o;
  }

  Leaf *leafOf(int o) { return static_cast<Leaf *>(objs[o].cur); }
  bool hasMember(int o) const { return members && objs[o].type == 'D'; }
  // somebody outside the object graph holds a reference to o (driver's own books + what the pool handles hold)
  bool externallyHeld(int o)
  {
    if (objs[o].creatorHeld || objs[o].explicitHeld > 0) return true;
    for (size_t s2 = 1; s2 < slots.size(); ++s2)
      if (slots[s2].constructed && rawOf((int)s2) == static_cast<const void *>(objs[o].cur)) return true;
    return false;
  }
  // the live object with a member handle that handle t designates (0: none)
  int memberOwner(int t)
  {
    if (!slots[t].constructed) return 0;
    long long o = identify(rawOf(t));
    if (o < 1 || o >= (long long)objs.size() || !hasMember((int)o)) return 0;
    return (int)o;
  }
  // obj(t).next, reached the way user code reaches it: through the handle
  Ref<Node> &memberThrough(int t)
  {
    if (slots[t].type == 'B') return static_cast<Leaf &>(*B(t)).next;
    return D(t)->next;
  }

  // static types allow handle t as a source for handle s
  bool converts(int s, int t) const { return slots[s].type == 'B' || slots[t].type == 'D'; }
  bool fits(int s, int o) const { return o == 0 || slots[s].type == 'B' || objs[o].type == 'D'; }

  Json step(const Json &act)
  {
    const std::string &a = act["a"].str();
    const Json &arg = act["arg"];
    const size_t mark = g_dtors.size();
    Json ret("void");
    const long long s = arg.has("s") ? arg["s"].num() : 0;
    const long long t = arg.has("t") ? arg["t"].num() : 0;
    const long long ob = arg.has("o") ? arg["o"].num() : 0;

    if (a == "New") {
      if (!okObj(ob) || alive((int)ob)) return skipped();
      Obj &O = objs[ob];
      if (O.cur) O.deadAddrs.push_back(O.cur);
      O.inc++;
      O.cur = O.type == 'D' ? new Leaf((int)ob, O.inc) : new Node((int)ob, O.inc);
      O.creatorHeld = true;
      O.explicitHeld = 0;
    } else if (a == "CreatorDrop") {
      if (!okObj(ob) || !alive((int)ob) || !objs[ob].creatorHeld) return skipped();
      objs[ob].creatorHeld = false;
      objs[ob].cur->refDec();
    } else if (a == "RefInc") {
      if (!okObj(ob) || !alive((int)ob) || objs[ob].explicitHeld >= maxExplicit) return skipped();
      objs[ob].explicitHeld++;
      static_cast<rkcommon::memory::RefCountedObject *>(objs[ob].cur)->refInc();
    } else if (a == "RefDec") {
      if (!okObj(ob) || !alive((int)ob) || objs[ob].explicitHeld <= 0) return skipped();
      objs[ob].explicitHeld--;
      const Node *c = objs[ob].cur;  // refDec() is const
      c->refDec();
    } else if (a == "DefaultCtor") {
      if (!okSlot(s) || slots[s].constructed) return skipped();
      if (slots[s].type == 'B') new (slots[s].mem) HB();
      else new (slots[s].mem) HD();
      slots[s].constructed = true;
    } else if (a == "RawCtor" || a == "RawAssign") {
      const bool ctor = a == "RawCtor";
      if (!okSlot(s) || slots[s].constructed == ctor) return skipped();
      if (ob != 0 && (!okObj(ob) || !alive((int)ob))) return skipped();
      if (!fits((int)s, (int)ob)) return skipped();
      Node *np = ob ? objs[ob].cur : nullptr;
      if (slots[s].type == 'B') {
        if (ctor) {
          if (!np) new (slots[s].mem) HB(nullptr);
          else if (objs[ob].type == 'D') new (slots[s].mem) HB(static_cast<Leaf *>(np));  // Leaf* -> Node*
          else new (slots[s].mem) HB(np);
        } else {
          if (!np) B((int)s) = nullptr;
          else if (objs[ob].type == 'D') B((int)s) = static_cast<Leaf *>(np);
          else B((int)s) = np;
        }
      } else {
        Leaf *lp = np ? static_cast<Leaf *>(np) : nullptr;
        if (ctor) new (slots[s].mem) HD(lp);
        else D((int)s) = lp;
      }
      slots[s].constructed = true;
    } else if (a == "CopyCtor" || a == "ConvCopyCtor" || a == "MoveCtor" || a == "ConvMoveCtor") {
      const bool mv = a == "MoveCtor" || a == "ConvMoveCtor";
      if (!okSlot(s) || !okSlot(t) || s == t || slots[s].constructed || !slots[t].constructed || !converts((int)s, (int)t))
        return skipped();
      const char ts = slots[s].type, tt = slots[t].type;
      if (ts == 'B' && tt == 'B') {
        if (mv) new (slots[s].mem) HB(std::move(B((int)t)));
        else new (slots[s].mem) HB(B((int)t));
      } else if (ts == 'D' && tt == 'D') {
        if (mv) new (slots[s].mem) HD(std::move(D((int)t)));
        else new (slots[s].mem) HD(D((int)t));
      } else {  // derived-to-base conversion
        if (mv) new (slots[s].mem) HB(std::move(D((int)t)));
        else new (slots[s].mem) HB(D((int)t));
      }
      slots[s].constructed = true;
    } else if (a == "CopyAssign" || a == "ConvCopyAssign" || a == "MoveAssign" || a == "ConvMoveAssign") {
      const bool mv = a == "MoveAssign" || a == "ConvMoveAssign";
      if (!okSlot(s) || !okSlot(t) || !slots[s].constructed || !slots[t].constructed || !converts((int)s, (int)t))
        return skipped();
      const char ts = slots[s].type, tt = slots[t].type;
      if (ts == 'B' && tt == 'B') {
        HB &dst = B((int)s);
        HB &src = B((int)t);  // may alias dst: self-assignment
        if (mv) dst = std::move(src);
        else dst = src;
      } else if (ts == 'D' && tt == 'D') {
        HD &dst = D((int)s);
        HD &src = D((int)t);
        if (mv) dst = std::move(src);
        else dst = src;
      } else {
        if (mv) B((int)s) = std::move(D((int)t));
        else B((int)s) = D((int)t);
      }
    } else if (a == "Dtor") {
      if (!okSlot(s) || !slots[s].constructed) return skipped();
      if (slots[s].type == 'B') B((int)s).~HB();
      else D((int)s).~HD();
      slots[s].constructed = false;
    } else if (a == "SetMember") {
      if (!okObj(ob) || !alive((int)ob) || !hasMember((int)ob) || !externallyHeld((int)ob) || !okSlot(t) || !slots[t].constructed)
        return skipped();
      if (slots[t].type == 'B') leafOf((int)ob)->next = B((int)t);
      else leafOf((int)ob)->next = D((int)t);  // derived-to-base conversion
    } else if (a == "ClearMember") {
      if (!okObj(ob) || !alive((int)ob) || !hasMember((int)ob) || !externallyHeld((int)ob)) return skipped();
      leafOf((int)ob)->next = nullptr;
    } else if (a == "CopyCtorFromMember") {
      if (!okSlot(s) || !okSlot(t) || s == t || slots[s].constructed || slots[s].type != 'B' || !memberOwner((int)t)) return skipped();
      new (slots[s].mem) HB(memberThrough((int)t));
      slots[s].constructed = true;
    } else if (a == "CopyAssignFromMember" || a == "MoveAssignFromMember") {
      if (!okSlot(s) || !okSlot(t) || !slots[s].constructed || slots[s].type != 'B' || !memberOwner((int)t)) return skipped();
      HB &dst = B((int)s);
      Ref<Node> &src = memberThrough((int)t);  // with s == t: cur = cur->next, the source lives inside the object dst designates
      if (a == "CopyAssignFromMember") dst = src;
      else dst = std::move(src);
    } else if (a == "Bool") {
      if (!okSlot(s) || !slots[s].constructed) return skipped();
      bool v1, v2;
      if (slots[s].type == 'B') {
        const HB &c = B((int)s);
        v1 = static_cast<bool>(c);
        v2 = c ? true : false;
      } else {
        const HD &c = D((int)s);
        v1 = static_cast<bool>(c);
        v2 = c ? true : false;
      }
      ret = v1 == v2 ? Json(v1) : Json("operator bool inconsistent");
    } else if (a == "Arrow") {
      if (!okSlot(s) || !slots[s].constructed || rawOf((int)s) == nullptr) return skipped();
      const void *p1, *p2;
      if (slots[s].type == 'B') {
        const HB &c = B((int)s);
        p1 = static_cast<const void *>(c.operator->());
        p2 = static_cast<const void *>(&*c);
      } else {
        const HD &c = D((int)s);
        p1 = static_cast<const void *>(static_cast<Node *>(c.operator->()));
        p2 = static_cast<const void *>(static_cast<Node *>(&*c));
      }
      ret = p1 == p2 ? Json(identify(p1)) : Json("operator-> and operator* disagree");
    } else if (a == "Compare") {
      if (!okSlot(s) || !okSlot(t) || !slots[s].constructed || !slots[t].constructed) return skipped();
      if (rawOf((int)s) == nullptr && rawOf((int)t) == nullptr) return skipped();
      bool eq, ne, lt, gt;
      const char ts = slots[s].type, tt = slots[t].type;
      if (ts == 'B' && tt == 'B') {
        const HB &x = B((int)s), &y = B((int)t);
        eq = x == y; ne = x != y; lt = x < y; gt = y < x;
      } else if (ts == 'D' && tt == 'D') {
        const HD &x = D((int)s), &y = D((int)t);
        eq = x == y; ne = x != y; lt = x < y; gt = y < x;
      } else if (ts == 'B') {  // handles of different static type: whatever the expression compiles to
        const HB &x = B((int)s);
        const HD &y = D((int)t);
        eq = x == y; ne = x != y; lt = x < y; gt = y < x;
      } else {
        const HD &x = D((int)s);
        const HB &y = B((int)t);
        eq = x == y; ne = x != y; lt = x < y; gt = y < x;
      }
      ret = Json::object();
      ret.set("eq", eq);
      ret.set("ne", ne);
      ret.set("unordered", !lt && !gt);
    } else {
      ret = Json("unknown action " + a);
    }

    Json o = Json::object();
    o.set("ret", ret);
    // destructions during this step
    Json died = Json::array();
    for (size_t ob2 = 1; ob2 < objs.size(); ++ob2) {
      for (size_t i = mark; i < g_dtors.size(); ++i) {
        if (g_dtors[i].o != (int)ob2 || g_dtors[i].part != 'B') continue;
        bool derivedPart = false;
        for (size_t j = mark; j < g_dtors.size(); ++j)
          if (g_dtors[j].o == (int)ob2 && g_dtors[j].inc == g_dtors[i].inc && g_dtors[j].part == 'D') derivedPart = true;
        Json d = Json::object();
        d.set("o", (long long)ob2);
        d.set("t", derivedPart ? "Derived" : "Base");
        died.push(d);
      }
    }
    o.set("died", died);
    Json cnt = Json::array();
    for (size_t ob2 = 1; ob2 < objs.size(); ++ob2) {
      if (alive((int)ob2)) {
        const Node *c = objs[ob2].cur;
        cnt.push((long long)c->useCount());
      } else cnt.push(-1);
    }
    o.set("cnt", cnt);
    Json mem = Json::array();
    for (size_t ob2 = 1; ob2 < objs.size(); ++ob2) {
      if (alive((int)ob2) && hasMember((int)ob2)) mem.push(identify(static_cast<const void *>(leafOf((int)ob2)->next.ptr)));
      else mem.push(-1);
    }
    o.set("mem", mem);
    Json ptr = Json::array();
    for (size_t s2 = 1; s2 < slots.size(); ++s2) ptr.push(slots[s2].constructed ? identify(rawOf((int)s2)) : -1LL);
    o.set("ptr", ptr);
    Json same = Json::array();
    for (size_t i = 1; i < slots.size(); ++i)
      for (size_t j = i + 1; j < slots.size(); ++j) {
        if (slots[i].type != slots[j].type) continue;
        if (!slots[i].constructed || !slots[j].constructed || (rawOf((int)i) == nullptr && rawOf((int)j) == nullptr)) {
          same.push(-1);
          continue;
        }
        bool eq, ne;
        if (slots[i].type == 'B') { eq = B((int)i) == B((int)j); ne = B((int)i) != B((int)j); }
        else { eq = D((int)i) == D((int)j); ne = D((int)i) != D((int)j); }
        same.push(eq == ne ? 2 : (eq ? 1 : 0));  // 2: == and != agree with each other, i.e. contradict
      }
    o.set("same", same);
    return o;
  }
};

int main(int argc, char **argv)
{
  return vdrv::run<World>(argc, argv);
}
