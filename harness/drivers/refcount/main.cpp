// Conformance driver for spec/memory/RefCount.tla (property C08, sequential part).
// Interprets the actions of the specification on real rkcommon IntrusivePtr /
// RefCountedObject instances and reports the projection `last.exp` talks about:
//   cnt   useCount() of every object whose destructor has not run (-1 otherwise)
//   died  the objects whose destructor ran during this step, with the most derived
//         destructor that ran
//   ptr   what every handle slot holds (object id, 0 = empty, -1 = no handle)
//   mem   what the member handle `next` of every live Derived object holds (-1: none)
//   same  operator== / != of every pair of same-typed handles
//   ret   the value returned by the operation
// Three families of pointee types ("layout" in the input line) with the same meaning but
// different object layouts:
//   single   Leaf : Node                 derived-to-base conversion keeps the address
//   multi    Leaf : Tag, Node            the Node (ref-counted) subobject sits at a non-zero offset
//   virtual  Leaf : virtual Node         the Node subobject is reached through the vbase offset
// so that converting a Derived handle / pointer to a Base one ADJUSTS the pointer; handles of
// three static types: IntrusivePtr<const Node> ('C'), IntrusivePtr<Node> ('B'), Ref<Leaf> ('D').
// The driver refuses to run (exit 3, an infrastructure error) if the adjusting families do
// not really adjust.
// Handles live in raw storage: construction and destruction are explicit actions.
// Derived pointees embed a handle (Ref<Node> next): destroying such an object releases
// what `next` holds (cascade), and a pool handle can be assigned from the member of the
// very object it designates (`cur = cur->next`).  With "quarantine": true in the input
// line the pointee types' operator delete keeps the storage (destructors still run and
// are logged), so that what the code computes after an early destruction is observed as
// values; without it the storage is really freed and ASan turns a use-after-free into a
// crash event.
// The driver decides nothing.  It refuses (reports {"skipped":true}) actions it
// cannot legally perform according to its *own* bookkeeping (slot holds a handle or
// not, static types, object's destructor already ran, explicit references it
// took itself); the specification decides whether refusing was right.
#include <new>
#include <string>
#include <utility>
#include <vector>
#include "driver.h"
#include "rkcommon/memory/IntrusivePtr.h"
#include "rkcommon/memory/RefCount.h"

using vj::Json;
using rkcommon::memory::IntrusivePtr;
using rkcommon::memory::Ref;

struct DtorEvent
{
  int o;
  int inc;
  char part;  // 'D': ~Leaf ran, 'B': ~Node ran
};
static std::vector<DtorEvent> g_dtors;
static bool g_quarantine = false;
static std::vector<void *> g_quarantined;

// pointee types: Node is the "Base" type, Leaf the "Derived" type of the specification
template <int LAYOUT>
struct NodeT : public rkcommon::memory::RefCount  // RefCount.h alias of RefCountedObject
{
  int o, inc;
  long long payload;
  NodeT(int o_, int inc_) : o(o_), inc(inc_), payload(0x5a5a5a5a) {}
  virtual ~NodeT() { g_dtors.push_back(DtorEvent{o, inc, 'B'}); payload = 0; }
  // class-level deallocation (found through the virtual destructor for both pointee types)
  static void operator delete(void *p)
  {
    if (g_quarantine) g_quarantined.push_back(p);
    else ::operator delete(p);
  }
};
struct Tag  // an unrelated polymorphic first base: pushes the Node subobject of a multi-layout Leaf away from offset 0
{
  long long pad;
  Tag() : pad(0x7a67) {}
  virtual ~Tag() { pad = 0; }
};
template <int LAYOUT>
struct LeafT;
#define LEAF_BODY(L)                                                                   \
  long long more[3];                                                                   \
  Ref<NodeT<L>> next; /* the member handle of the specification (m[x]) */              \
  LeafT(int o_, int inc_) : NodeT<L>(o_, inc_) { more[0] = more[1] = more[2] = 7; }    \
  virtual ~LeafT() { g_dtors.push_back(DtorEvent{this->o, this->inc, 'D'}); more[0] = 0; }
template <>
struct LeafT<0> : public NodeT<0> { LEAF_BODY(0) };
template <>
struct LeafT<1> : public Tag, public NodeT<1> { LEAF_BODY(1) };
template <>
struct LeafT<2> : public virtual NodeT<2> { LEAF_BODY(2) };

struct IWorld
{
  virtual ~IWorld() {}
  virtual Json step(const Json &act) = 0;
};

struct Slot
{
  char type;  // 'C' IntrusivePtr<const Node>, 'B' IntrusivePtr<Node>, 'D' Ref<Leaf>
  bool constructed;
  alignas(16) unsigned char mem[sizeof(IntrusivePtr<NodeT<0>>)];
  Slot() : type('B'), constructed(false) {}
};

template <int LAYOUT>
struct WorldT : IWorld
{
  typedef NodeT<LAYOUT> Node;
  typedef LeafT<LAYOUT> Leaf;
  typedef IntrusivePtr<const Node> HC;  // handle of static type "CBase"
  typedef IntrusivePtr<Node> HB;        // handle of static type "Base"
  typedef Ref<Leaf> HD;                 // handle of static type "Derived" (through the RefCount.h alias)

  struct Obj
  {
    char type;   // 'B' / 'D'
    Node *cur;   // Base subobject of the current incarnation (may be destroyed): the object's identity
    Leaf *leaf;  // the same object as a Leaf, for 'D' objects (kept: a virtual base cannot be cast down statically)
    int inc;
    bool creatorHeld;
    int explicitHeld;
    std::vector<const void *> deadAddrs;
    Obj() : type('B'), cur(nullptr), leaf(nullptr), inc(0), creatorHeld(false), explicitHeld(0) {}
  };

  std::vector<Slot> slots;  // 1-based
  std::vector<Obj> objs;    // 1-based
  int maxExplicit;
  bool members;

  WorldT(const Json &hist)
  {
    static_assert(sizeof(HC) == sizeof(Slot().mem) && sizeof(HB) == sizeof(HC) && sizeof(HD) == sizeof(HC), "handle size");
    g_dtors.clear();
    g_quarantine = hist.has("quarantine") && hist["quarantine"].boolean();
    members = hist.has("members") && hist["members"].boolean();
    std::string st = hist.has("slots") ? hist["slots"].str() : "BBD";
    std::string ot = hist.has("objs") ? hist["objs"].str() : "BD";
    maxExplicit = hist.has("maxexp") ? (int)hist["maxexp"].num() : 1;
    slots.resize(st.size() + 1);
    objs.resize(ot.size() + 1);
    for (size_t i = 0; i < st.size(); ++i) slots[i + 1].type = st[i];
    for (size_t i = 0; i < ot.size(); ++i) objs[i + 1].type = ot[i];
    if (LAYOUT != 0) {  // the whole point of this family: Leaf* -> Node* must change the address
      Leaf *probe = new Leaf(0, 0);
      const bool adjusted = static_cast<const void *>(probe) != static_cast<const void *>(static_cast<Node *>(probe));
      probe->refDec();
      g_dtors.clear();
      if (!adjusted) {
        fprintf(stderr, "refcount driver: layout %d does not adjust the pointer in Leaf* -> Node*\n", LAYOUT);
        _exit(3);
      }
    }
  }
  // handles and objects still alive at the end of a history are deliberately leaked:
  // nothing of the code under test runs outside a step.

  HC &C(int s) { return *reinterpret_cast<HC *>(slots[s].mem); }
  HB &B(int s) { return *reinterpret_cast<HB *>(slots[s].mem); }
  HD &D(int s) { return *reinterpret_cast<HD *>(slots[s].mem); }
  bool okSlot(long long s) const { return s >= 1 && s < (long long)slots.size(); }
  bool okObj(long long o) const { return o >= 1 && o < (long long)objs.size(); }
  static int rank(char t) { return t == 'D' ? 0 : t == 'B' ? 1 : 2; }

  bool dtorRan(int o) const
  {
    for (const DtorEvent &e : g_dtors)
      if (e.o == o && e.inc == objs[o].inc && e.part == 'B') return true;
    return false;
  }
  bool alive(int o) const { return objs[o].cur != nullptr && !dtorRan(o); }

  // the object a handle designates, as the address of its Base subobject
  const void *rawOf(int s)
  {
    const Node *p;
    if (slots[s].type == 'C') p = C(s).ptr;
    else if (slots[s].type == 'B') p = B(s).ptr;
    else p = D(s).ptr;  // Leaf* -> const Node*: adjusted by the compiler (null stays null)
    return static_cast<const void *>(p);
  }
  long long identify(const void *p) const
  {
    if (!p) return 0;
    for (size_t o = 1; o < objs.size(); ++o)
      if (objs[o].cur == p && alive((int)o)) return (long long)o;
    for (size_t o = 1; o < objs.size(); ++o) {
      if (objs[o].cur == p) return 100 + (long long)o;  // dangling: designates a destroyed object
      for (const void *q : objs[o].deadAddrs)
        if (q == p) return 100 + (long long)o;
    }
    return 99;
  }
  long long identifyNode(const Node *p) const { return identify(static_cast<const void *>(p)); }

  static Json skipped()
  {
    Json o = Json::object();
    o.set("skipped", true);
    return o;
  }

  bool hasMember(int o) const { return members && objs[o].type == 'D'; }
  // somebody outside the object graph holds a reference to o (driver's own books + what the pool handles hold)
  bool externallyHeld(int o)
  {
    if (objs[o].creatorHeld || objs[o].explicitHeld > 0) return true;
    for (size_t s2 = 1; s2 < slots.size(); ++s2)
      if (slots[s2].constructed && rawOf((int)s2) == static_cast<const void *>(objs[o].cur)) return true;
    return false;
  }
  // the live object with a member handle that handle t designates (0: none)
  int memberOwner(int t)
  {
    if (!slots[t].constructed) return 0;
    long long o = identify(rawOf(t));
    if (o < 1 || o >= (long long)objs.size() || !hasMember((int)o)) return 0;
    return (int)o;
  }
  // obj(t).next, reached the way user code reaches it: through the handle (a const handle: through the registry)
  Ref<Node> &memberThrough(int t, int owner)
  {
    if (slots[t].type == 'B') return dynamic_cast<Leaf &>(*B(t)).next;
    if (slots[t].type == 'D') return D(t)->next;
    return objs[owner].leaf->next;
  }

  // static types allow handle t as a source for handle s / allow slot s to hold object o
  bool converts(int s, int t) const { return rank(slots[s].type) >= rank(slots[t].type); }
  bool fits(int s, int o) const { return o == 0 || slots[s].type != 'D' || objs[o].type == 'D'; }

  // ---- operations generic in the handle types --------------------------------------------
  template <class HDst, class HSrc>
  void construct(int s, HSrc &src, bool mv)
  {
    if (mv) new (slots[s].mem) HDst(std::move(src));
    else new (slots[s].mem) HDst(src);
  }
  template <class HDst, class HSrc>
  static void assign(HDst &dst, HSrc &src, bool mv)  // src may alias dst: self-assignment
  {
    if (mv) dst = std::move(src);
    else dst = src;
  }
  // kind 0: constructor into slot s, 1: assignment to slot s; source slot t
  void binary(int kind, int s, int t, bool mv)
  {
    const char ts = slots[s].type, tt = slots[t].type;
    if (ts == 'C' && tt == 'C') { if (kind == 0) construct<HC>(s, C(t), mv); else assign(C(s), C(t), mv); }
    else if (ts == 'B' && tt == 'B') { if (kind == 0) construct<HB>(s, B(t), mv); else assign(B(s), B(t), mv); }
    else if (ts == 'D' && tt == 'D') { if (kind == 0) construct<HD>(s, D(t), mv); else assign(D(s), D(t), mv); }
    else if (ts == 'B' && tt == 'D') { if (kind == 0) construct<HB>(s, D(t), mv); else assign(B(s), D(t), mv); }  // Derived -> Base
    else if (ts == 'C' && tt == 'B') { if (kind == 0) construct<HC>(s, B(t), mv); else assign(C(s), B(t), mv); }  // Base -> const Base
    else if (ts == 'C' && tt == 'D') { if (kind == 0) construct<HC>(s, D(t), mv); else assign(C(s), D(t), mv); }  // Derived -> const Base
  }
  template <class HX, class HY>
  Json compare(const HX &x, const HY &y)
  {
    const bool eq = x == y, ne = x != y, lt = x < y, gt = y < x;
    // the same two objects through handles of ONE static type (const Base, which every handle converts to)
    bool blt, bgt;
    {
      const HC cx(x), cy(y);
      blt = cx < cy;
      bgt = cy < cx;
    }
    Json r = Json::object();
    r.set("eq", eq);
    r.set("ne", ne);
    r.set("unordered", !lt && !gt);
    r.set("order", (lt == blt && gt == bgt) ? "as-base" : "differs-from-base");
    r.set("antisym", !(lt && gt));
    r.set("consistent", eq != ne);
    if (!x.ptr && !y.ptr) {  // two empty handles: the specification constrains nothing but the consistency of == and !=
      Json c = Json::object();
      c.set("consistent", eq != ne);
      return c;
    }
    return r;
  }
  template <class HX>
  Json compareWith(const HX &x, int t)
  {
    if (slots[t].type == 'C') return compare(x, const_cast<const HC &>(C(t)));
    if (slots[t].type == 'B') return compare(x, const_cast<const HB &>(B(t)));
    return compare(x, const_cast<const HD &>(D(t)));
  }
  template <class H>
  static Json boolOf(const H &c)
  {
    const bool v1 = static_cast<bool>(c);
    const bool v2 = c ? true : false;
    return v1 == v2 ? Json(v1) : Json("operator bool inconsistent");
  }
  template <class H>
  Json arrowOf(const H &c)
  {
    const Node *p1 = c.operator->();
    const Node *p2 = &*c;
    return p1 == p2 ? Json(identifyNode(p1)) : Json("operator-> and operator* disagree");
  }
  template <class H>
  static int sameOf(const H &x, const H &y)
  {
    const bool eq = x == y, ne = x != y;
    return eq == ne ? 2 : (eq ? 1 : 0);  // 2: == and != agree with each other, i.e. contradict
  }

  Json step(const Json &act) override
  {
    const std::string &a = act["a"].str();
    const Json &arg = act["arg"];
    const size_t mark = g_dtors.size();
    Json ret("void");
    const long long s = arg.has("s") ? arg["s"].num() : 0;
    const long long t = arg.has("t") ? arg["t"].num() : 0;
    const long long ob = arg.has("o") ? arg["o"].num() : 0;

    if (a == "New") {
      if (!okObj(ob) || alive((int)ob)) return skipped();
      Obj &O = objs[ob];
      if (O.cur) O.deadAddrs.push_back(O.cur);
      O.inc++;
      if (O.type == 'D') {
        O.leaf = new Leaf((int)ob, O.inc);
        O.cur = O.leaf;  // Leaf* -> Node*
      } else {
        O.leaf = nullptr;
        O.cur = new Node((int)ob, O.inc);
      }
      O.creatorHeld = true;
      O.explicitHeld = 0;
    } else if (a == "CreatorDrop") {
      if (!okObj(ob) || !alive((int)ob) || !objs[ob].creatorHeld) return skipped();
      objs[ob].creatorHeld = false;
      objs[ob].cur->refDec();
    } else if (a == "RefInc") {
      if (!okObj(ob) || !alive((int)ob) || objs[ob].explicitHeld >= maxExplicit) return skipped();
      objs[ob].explicitHeld++;
      static_cast<rkcommon::memory::RefCountedObject *>(objs[ob].cur)->refInc();
    } else if (a == "RefDec") {
      if (!okObj(ob) || !alive((int)ob) || objs[ob].explicitHeld <= 0) return skipped();
      objs[ob].explicitHeld--;
      const Node *c = objs[ob].cur;  // refDec() is const
      c->refDec();
    } else if (a == "DefaultCtor") {
      if (!okSlot(s) || slots[s].constructed) return skipped();
      if (slots[s].type == 'C') new (slots[s].mem) HC();
      else if (slots[s].type == 'B') new (slots[s].mem) HB();
      else new (slots[s].mem) HD();
      slots[s].constructed = true;
    } else if (a == "RawCtor" || a == "RawAssign") {
      const bool ctor = a == "RawCtor";
      if (!okSlot(s) || slots[s].constructed == ctor) return skipped();
      if (ob != 0 && (!okObj(ob) || !alive((int)ob))) return skipped();
      if (!fits((int)s, (int)ob)) return skipped();
      Node *np = ob ? objs[ob].cur : nullptr;
      Leaf *lp = ob ? objs[ob].leaf : nullptr;  // non-null for Derived objects
      if (slots[s].type == 'C') {
        if (ctor) {
          if (!np) new (slots[s].mem) HC(nullptr);
          else if (lp) new (slots[s].mem) HC(lp);  // Leaf* -> const Node*
          else new (slots[s].mem) HC(static_cast<const Node *>(np));
        } else {
          if (!np) C((int)s) = nullptr;
          else if (lp) C((int)s) = lp;
          else C((int)s) = static_cast<const Node *>(np);
        }
      } else if (slots[s].type == 'B') {
        if (ctor) {
          if (!np) new (slots[s].mem) HB(nullptr);
          else if (lp) new (slots[s].mem) HB(lp);  // Leaf* -> Node*: the conversion adjusts the pointer in the multi / virtual layouts
          else new (slots[s].mem) HB(np);
        } else {
          if (!np) B((int)s) = nullptr;
          else if (lp) B((int)s) = lp;
          else B((int)s) = np;
        }
      } else {
        if (ctor) new (slots[s].mem) HD(lp);
        else D((int)s) = lp;
      }
      slots[s].constructed = true;
    } else if (a == "CopyCtor" || a == "ConvCopyCtor" || a == "MoveCtor" || a == "ConvMoveCtor") {
      const bool mv = a == "MoveCtor" || a == "ConvMoveCtor";
      if (!okSlot(s) || !okSlot(t) || s == t || slots[s].constructed || !slots[t].constructed || !converts((int)s, (int)t))
        return skipped();
      binary(0, (int)s, (int)t, mv);
      slots[s].constructed = true;
    } else if (a == "CopyAssign" || a == "ConvCopyAssign" || a == "MoveAssign" || a == "ConvMoveAssign") {
      const bool mv = a == "MoveAssign" || a == "ConvMoveAssign";
      if (!okSlot(s) || !okSlot(t) || !slots[s].constructed || !slots[t].constructed || !converts((int)s, (int)t))
        return skipped();
      binary(1, (int)s, (int)t, mv);
    } else if (a == "Dtor") {
      if (!okSlot(s) || !slots[s].constructed) return skipped();
      if (slots[s].type == 'C') C((int)s).~HC();
      else if (slots[s].type == 'B') B((int)s).~HB();
      else D((int)s).~HD();
      slots[s].constructed = false;
    } else if (a == "SetMember") {
      if (!okObj(ob) || !alive((int)ob) || !hasMember((int)ob) || !externallyHeld((int)ob) || !okSlot(t) || !slots[t].constructed ||
          slots[t].type == 'C')
        return skipped();
      if (slots[t].type == 'B') objs[ob].leaf->next = B((int)t);
      else objs[ob].leaf->next = D((int)t);  // derived-to-base conversion
    } else if (a == "ClearMember") {
      if (!okObj(ob) || !alive((int)ob) || !hasMember((int)ob) || !externallyHeld((int)ob)) return skipped();
      objs[ob].leaf->next = nullptr;
    } else if (a == "CopyCtorFromMember" || a == "MoveCtorFromMember") {
      if (!okSlot(s) || !okSlot(t) || s == t || slots[s].constructed || slots[s].type != 'B' || !memberOwner((int)t)) return skipped();
      if (a == "CopyCtorFromMember") new (slots[s].mem) HB(memberThrough((int)t, memberOwner((int)t)));
      else new (slots[s].mem) HB(std::move(memberThrough((int)t, memberOwner((int)t))));
      slots[s].constructed = true;
    } else if (a == "UnlinkNext" || a == "UnlinkNextMove") {
      // x.next = x.next->next: destination and source are member handles, the source lives in the object the destination designates
      if (!okObj(ob) || !alive((int)ob) || !hasMember((int)ob) || !externallyHeld((int)ob)) return skipped();
      Leaf *L = objs[ob].leaf;
      const long long z = identifyNode(L->next.ptr);
      if (z < 1 || z >= (long long)objs.size() || !hasMember((int)z)) return skipped();
      Ref<Node> &src = dynamic_cast<Leaf &>(*L->next).next;
      if (a == "UnlinkNext") L->next = src;
      else L->next = std::move(src);
    } else if (a == "CopyAssignFromMember" || a == "MoveAssignFromMember") {
      if (!okSlot(s) || !okSlot(t) || !slots[s].constructed || slots[s].type != 'B' || !memberOwner((int)t)) return skipped();
      HB &dst = B((int)s);
      Ref<Node> &src = memberThrough((int)t, memberOwner((int)t));  // with s == t: cur = cur->next, the source lives inside the object dst designates
      if (a == "CopyAssignFromMember") dst = src;
      else dst = std::move(src);
    } else if (a == "Bool") {
      if (!okSlot(s) || !slots[s].constructed) return skipped();
      if (slots[s].type == 'C') ret = boolOf(const_cast<const HC &>(C((int)s)));
      else if (slots[s].type == 'B') ret = boolOf(const_cast<const HB &>(B((int)s)));
      else ret = boolOf(const_cast<const HD &>(D((int)s)));
    } else if (a == "Arrow") {
      if (!okSlot(s) || !slots[s].constructed || rawOf((int)s) == nullptr) return skipped();
      if (slots[s].type == 'C') ret = arrowOf(const_cast<const HC &>(C((int)s)));
      else if (slots[s].type == 'B') ret = arrowOf(const_cast<const HB &>(B((int)s)));
      else ret = arrowOf(const_cast<const HD &>(D((int)s)));
    } else if (a == "Compare") {
      if (!okSlot(s) || !okSlot(t) || !slots[s].constructed || !slots[t].constructed) return skipped();
      // handles of the same or of different static types: whatever the expression compiles to
      if (slots[s].type == 'C') ret = compareWith(const_cast<const HC &>(C((int)s)), (int)t);
      else if (slots[s].type == 'B') ret = compareWith(const_cast<const HB &>(B((int)s)), (int)t);
      else ret = compareWith(const_cast<const HD &>(D((int)s)), (int)t);
    } else {
      ret = Json("unknown action " + a);
    }

    Json o = Json::object();
    o.set("ret", ret);
    // destructions during this step
    Json died = Json::array();
    for (size_t ob2 = 1; ob2 < objs.size(); ++ob2) {
      for (size_t i = mark; i < g_dtors.size(); ++i) {
        if (g_dtors[i].o != (int)ob2 || g_dtors[i].part != 'B') continue;
        bool derivedPart = false;
        for (size_t j = mark; j < g_dtors.size(); ++j)
          if (g_dtors[j].o == (int)ob2 && g_dtors[j].inc == g_dtors[i].inc && g_dtors[j].part == 'D') derivedPart = true;
        Json d = Json::object();
        d.set("o", (long long)ob2);
        d.set("t", derivedPart ? "Derived" : "Base");
        died.push(d);
      }
    }
    o.set("died", died);
    Json cnt = Json::array();
    for (size_t ob2 = 1; ob2 < objs.size(); ++ob2) {
      if (alive((int)ob2)) {
        const Node *c = objs[ob2].cur;
        cnt.push((long long)c->useCount());
      } else cnt.push(-1);
    }
    o.set("cnt", cnt);
    Json mem = Json::array();
    for (size_t ob2 = 1; ob2 < objs.size(); ++ob2) {
      if (alive((int)ob2) && hasMember((int)ob2)) mem.push(identifyNode(objs[ob2].leaf->next.ptr));
      else mem.push(-1);
    }
    o.set("mem", mem);
    Json ptr = Json::array();
    for (size_t s2 = 1; s2 < slots.size(); ++s2) ptr.push(slots[s2].constructed ? identify(rawOf((int)s2)) : -1LL);
    o.set("ptr", ptr);
    Json same = Json::array();
    for (size_t i = 1; i < slots.size(); ++i)
      for (size_t j = i + 1; j < slots.size(); ++j) {
        if (slots[i].type != slots[j].type) continue;
        if (!slots[i].constructed || !slots[j].constructed || (rawOf((int)i) == nullptr && rawOf((int)j) == nullptr)) {
          same.push(-1);
          continue;
        }
        if (slots[i].type == 'C') same.push(sameOf(C((int)i), C((int)j)));
        else if (slots[i].type == 'B') same.push(sameOf(B((int)i), B((int)j)));
        else same.push(sameOf(D((int)i), D((int)j)));
      }
    o.set("same", same);
    return o;
  }
};

// Numeric boundaries of the counter (spec/memory/RefCountBig.tla): one object, macro actions that make
// |target - current| individual refInc() / refDec() calls, or copy / destroy that many handles in a growing array.
// Numbers travel as {q, r} = q * 65536 + r.
struct BigWorld : IWorld
{
  typedef NodeT<0> Node;
  Node *obj;
  bool creatorHeld;
  unsigned long long expl;
  std::vector<IntrusivePtr<Node>> handles;
  BigWorld() : obj(nullptr), creatorHeld(false), expl(0) { g_dtors.clear(); g_quarantine = false; }
  bool alive() const
  {
    if (!obj) return false;
    for (const DtorEvent &e : g_dtors)
      if (e.part == 'B') return false;
    return true;
  }
  Json step(const Json &act) override
  {
    const std::string &a = act["a"].str();
    const Json &arg = act["arg"];
    const unsigned long long target = arg.has("q") ? (unsigned long long)arg["q"].num() * 65536ULL + (unsigned long long)arg["r"].num() : 0;
    Json o = Json::object();
    if (a == "New") {
      if (alive()) { o.set("skipped", true); return o; }
      g_dtors.clear();
      handles.clear();
      obj = new Node(1, 1);
      creatorHeld = true;
      expl = 0;
    } else if (a == "CreatorDrop") {
      if (!alive() || !creatorHeld) { o.set("skipped", true); return o; }
      creatorHeld = false;
      obj->refDec();
    } else if (a == "ExplicitTo") {
      if (!alive()) { o.set("skipped", true); return o; }
      const Node *c = obj;
      while (expl < target) { c->refInc(); ++expl; }
      while (expl > target) { --expl; c->refDec(); }  // the last of these calls may be the last release
    } else if (a == "HandlesTo") {
      if (!alive()) { o.set("skipped", true); return o; }
      while (handles.size() < target) {
        if (handles.empty()) handles.push_back(IntrusivePtr<Node>(obj));  // raw-pointer constructor, then moved / copied into the array
        else handles.push_back(handles.back());                           // copies; growth of the array copies and destroys all of them
      }
      while (handles.size() > target) handles.pop_back();
      if (target == 0) std::vector<IntrusivePtr<Node>>().swap(handles);
    } else {
      o.set("unknown", a);
    }
    bool died = false;
    for (const DtorEvent &e : g_dtors)
      if (e.part == 'B') died = true;
    Json use = Json::array();
    if (obj && !died) {
      const unsigned long long u = (unsigned long long)obj->useCount();
      use.push((long long)(u / 65536ULL));
      use.push((long long)(u % 65536ULL));
    } else {
      use.push(-1);
      use.push(-1);
    }
    o.set("use", use);
    o.set("died", died && a != "New");
    if (died) obj = nullptr, g_dtors.clear();
    return o;
  }
};

struct World
{
  IWorld *w;
  World(const Json &hist)
  {
    const std::string l = hist.has("layout") ? hist["layout"].str() : "single";
    if (hist.has("big") && hist["big"].boolean()) w = new BigWorld();
    else if (l == "multi") w = new WorldT<1>(hist);
    else if (l == "virtual") w = new WorldT<2>(hist);
    else w = new WorldT<0>(hist);
  }
  ~World() { delete w; }
  Json step(const Json &act) { return w->step(act); }
};

int main(int argc, char **argv)
{
  return vdrv::run<World>(argc, argv);
}
