// Conformance driver for spec/utility/ArrayWrappers.tla and spec/utility/DataViewIdx.tla
// (property C11).  Interprets the actions of the specification on real
// rkcommon::utility::{ArrayView, OwnedArray, FixedArray, FixedArrayView, DataView}
// objects and reports, after every step and for every wrapper slot the
// specification does not mark as dangling, what the AbstractArray interface
// shows: size(), operator bool, at(i), begin()..end(), at(i >= size()), where
// data() points relative to the live source containers and which slots designate
// overlapping element ranges.  Wrappers are placement-constructed so that
// construction and destruction are actions of the history.  The driver never
// decides anything and never reads through a slot listed in `dang`.
//
// Variants (hist["variant"]): element type u8 | i32 | f64 | s12 (12-byte struct).
#include <array>
#include <cstdint>
#include <cstring>
#include <memory>
#include <new>
#include <string>
#include <vector>
#include "driver.h"
#include "rkcommon/utility/ArrayView.h"
#include "rkcommon/utility/DataView.h"
#include "rkcommon/utility/FixedArray.h"
#include "rkcommon/utility/FixedArrayView.h"
#include "rkcommon/utility/OwnedArray.h"

using namespace rkcommon::utility;
using vj::Json;

// ---------------------------------------------------------------------------
// Element positions always hold integers (TLC cannot compare an integer with a string):
// what is not an element value is reported as one of these negative markers.
static const long long TORN_ELEMENT = -1000001;     // 12-byte element whose parts disagree
static const long long ACCESS_DISAGREE = -1000002;  // at(i), operator[](i), data()+i designate different objects
static const long long AT_THREW = -1000003;         // at(i) threw for i < size()
static const long long CITER_DIFFERS = -1000004;    // cbegin()/cend() cover a different number of elements

// element types: model integers <-> concrete element values (injective)
struct S12
{
  int32_t a, b, c;
};

template <typename T> struct Conv
{
  static T to(long long v) { return (T)v; }
  static Json from(const T &v) { return Json((long long)v); }
};
template <> struct Conv<S12>
{
  static S12 to(long long v)
  {
    S12 s;
    s.a = (int32_t)v;
    s.b = (int32_t)v + 1000;
    s.c = ~(int32_t)v;
    return s;
  }
  static Json from(const S12 &s)
  {
    if (s.b != s.a + 1000 || s.c != ~s.a) return Json(TORN_ELEMENT);
    return Json((long long)s.a);
  }
};

struct IWorld
{
  virtual ~IWorld() {}
  virtual Json step(const Json &act) = 0;
};

static const size_t ARRLEN = 3; // std::array sources are std::array<T, 3> (ArrLen in the .cfg files)
static const int MAXSLOTS = 8;
static const int MAXSRCS = 8;

template <typename T>
struct ArrWorld : IWorld
{
  typedef std::array<T, ARRLEN> Arr;
  union Raw
  {
    alignas(16) unsigned char av[sizeof(ArrayView<T>)];
    alignas(16) unsigned char oa[sizeof(OwnedArray<T>)];
    alignas(16) unsigned char fv[sizeof(FixedArrayView<T>)];
  };
  struct Slot
  {
    bool live = false;
    std::string kind;
    Raw *raw = nullptr;                       // heap cell the wrapper object lives in (freed on destroy)
    std::shared_ptr<FixedArray<T>> fa;        // FixedArray objects are held the way FixedArrayView needs them
    AbstractArray<T> *base = nullptr;         // the common interface everything is observed through
  };
  struct Source
  {
    std::vector<T> *vec = nullptr;
    Arr *arr = nullptr;
    bool live() const { return vec || arr; }
    T *data() const { return vec ? vec->data() : arr->data(); }
    size_t size() const { return vec ? vec->size() : arr->size(); }
  };
  Slot slot[MAXSLOTS + 1];
  Source srcs[MAXSRCS + 1];
  int nw = 0, ns = 0;

  ~ArrWorld() override
  {
    for (int i = 1; i <= MAXSLOTS; ++i)
      if (slot[i].live) destroy(i);
    for (int s = 1; s <= MAXSRCS; ++s) {
      delete srcs[s].vec;
      delete srcs[s].arr;
    }
  }

  ArrayView<T> &av(int i) { return *reinterpret_cast<ArrayView<T> *>(slot[i].raw->av); }
  OwnedArray<T> &oa(int i) { return *reinterpret_cast<OwnedArray<T> *>(slot[i].raw->oa); }
  FixedArrayView<T> &fv(int i) { return *reinterpret_cast<FixedArrayView<T> *>(slot[i].raw->fv); }

  void destroy(int i)
  {
    Slot &s = slot[i];
    if (s.kind == "ArrayView") av(i).~ArrayView<T>();
    else if (s.kind == "OwnedArray") oa(i).~OwnedArray<T>();
    else if (s.kind == "FixedArrayView") fv(i).~FixedArrayView<T>();
    else if (s.kind == "FixedArray") s.fa.reset();
    if (s.raw) {
      memset(s.raw, 0xAB, sizeof(Raw));
      delete s.raw;
      s.raw = nullptr;
    }
    s.live = false;
    s.base = nullptr;
    s.kind.clear();
  }

  // pointer + size designated by (mode, x, off, len)
  void region(const std::string &m, int x, size_t off, size_t len, T *&p, size_t &n)
  {
    if (m == "ptr") {
      if (x == 0) { p = nullptr; n = 0; }
      else { p = srcs[x].data() + off; n = len; }
    } else { // wptr
      p = slot[x].base->data() + off;
      n = len;
    }
  }

  std::string construct(int w, const std::string &k, const std::string &m, int x, size_t off, size_t len, const Json &vals)
  {
    Slot &s = slot[w];
    if (s.live) return "slot already live";
    if (k != "FixedArray") s.raw = new Raw;
    T *p = nullptr;
    size_t n = 0;
    if (m == "ptr" || m == "wptr") region(m, x, off, len, p, n);
    if (k == "ArrayView") {
      if (m == "default") new (s.raw->av) ArrayView<T>();
      else if (m == "src") { if (srcs[x].vec) new (s.raw->av) ArrayView<T>(*srcs[x].vec); else new (s.raw->av) ArrayView<T>(*srcs[x].arr); }
      else if (m == "ptr" || m == "wptr") new (s.raw->av) ArrayView<T>(p, n);
      else if (m == "copy") new (s.raw->av) ArrayView<T>(av(x));
      else return "bad mode";
      s.base = &av0(s);
    } else if (k == "OwnedArray") {
      if (m == "default") new (s.raw->oa) OwnedArray<T>();
      else if (m == "src") { if (srcs[x].vec) new (s.raw->oa) OwnedArray<T>(*srcs[x].vec); else new (s.raw->oa) OwnedArray<T>(*srcs[x].arr); }
      else if (m == "ptr" || m == "wptr") new (s.raw->oa) OwnedArray<T>(p, n);
      else if (m == "copy") new (s.raw->oa) OwnedArray<T>(oa(x));
      else return "bad mode";
      s.base = reinterpret_cast<OwnedArray<T> *>(s.raw->oa);
    } else if (k == "FixedArray") {
      if (m == "default") s.fa = std::shared_ptr<FixedArray<T>>(new FixedArray<T>());
      else if (m == "src") { if (srcs[x].vec) s.fa = std::shared_ptr<FixedArray<T>>(new FixedArray<T>(*srcs[x].vec)); else s.fa = std::shared_ptr<FixedArray<T>>(new FixedArray<T>(*srcs[x].arr)); }
      else if (m == "ptr" || m == "wptr") s.fa = std::shared_ptr<FixedArray<T>>(new FixedArray<T>(p, n));
      else if (m == "size") {
        // FixedArray(size) leaves the elements uninitialised; the harness fills them (part of the action)
        s.fa = std::shared_ptr<FixedArray<T>>(new FixedArray<T>(len));
        for (size_t i = 0; i < vals.size() && i < s.fa->size(); ++i) (*s.fa)[i] = Conv<T>::to(vals[i].num());
      } else if (m == "copy") s.fa = std::shared_ptr<FixedArray<T>>(new FixedArray<T>(*slot[x].fa));
      else return "bad mode";
      s.base = s.fa.get();
    } else if (k == "FixedArrayView") {
      if (m == "default") new (s.raw->fv) FixedArrayView<T>();
      else if (m == "fview") new (s.raw->fv) FixedArrayView<T>(slot[x].fa, off, len);
      else if (m == "copy") new (s.raw->fv) FixedArrayView<T>(fv(x));
      else return "bad mode";
      s.base = reinterpret_cast<FixedArrayView<T> *>(s.raw->fv);
    } else
      return "bad kind";
    s.live = true;
    s.kind = k;
    return "";
  }
  static ArrayView<T> &av0(Slot &s) { return *reinterpret_cast<ArrayView<T> *>(s.raw->av); }

  std::string assign(int w, const std::string &m, int x)
  {
    Slot &s = slot[w];
    if (!s.live) return "slot not live";
    if (s.kind == "ArrayView") {
      if (m == "src") { if (srcs[x].vec) av(w) = *srcs[x].vec; else av(w) = *srcs[x].arr; }
      else av(w) = av(x);
    } else if (s.kind == "OwnedArray") {
      if (m == "src") { if (srcs[x].vec) oa(w) = *srcs[x].vec; else oa(w) = *srcs[x].arr; }
      else oa(w) = oa(x);
    } else if (s.kind == "FixedArray") {
      if (m == "src") { if (srcs[x].vec) *s.fa = *srcs[x].vec; else *s.fa = *srcs[x].arr; }
      else *s.fa = *slot[x].fa;
    } else if (s.kind == "FixedArrayView") {
      if (m == "copy") fv(w) = fv(x);
      else return "bad mode";
    }
    return "";
  }

  Json observeSlot(int i, const Json &dang)
  {
    Json o = Json::object();
    Slot &s = slot[i];
    if (!s.live) { o.set("st", "dead"); return o; }
    if (dang.size() >= (size_t)i && dang[i - 1].boolean()) { o.set("st", "dangling"); return o; }
    AbstractArray<T> &a = *s.base;
    o.set("st", "live");
    o.set("kind", s.kind);
    const size_t n = a.size();
    o.set("size", (long long)n);
    o.set("nonempty", static_cast<bool>(a));
    Json items = Json::array();
    for (size_t k = 0; k < n && k < 64; ++k) {
      try {
        T &r = a.at(k);
        Json v = Conv<T>::from(r);
        if (&r != &a[k] || &r != a.data() + k) v = Json(ACCESS_DISAGREE);
        items.push(v);
      } catch (...) {
        items.push(AT_THREW);
      }
    }
    o.set("items", items);
    Json iter = Json::array();
    size_t cnt = 0;
    for (T *p = a.begin(); p != a.end() && cnt < 64; ++p, ++cnt) iter.push(Conv<T>::from(*p));
    size_t ccnt = 0;
    for (const T *p = a.cbegin(); p != a.cend() && ccnt < 64; ++p) ++ccnt;
    if (ccnt != cnt) iter.push(CITER_DIFFERS);
    o.set("iter", iter);
    // out-of-range at(): size(), size()+1, SIZE_MAX must all throw (the references are never read)
    std::string oob = "throws";
    const size_t bad[3] = {n, n + 1, (size_t)-1};
    for (int b = 0; b < 3; ++b) {
      try {
        T &r = a.at(bad[b]);
        (void)&r;
        oob = b == 0 ? "at(size()) returned" : b == 1 ? "at(size()+1) returned" : "at(SIZE_MAX) returned";
        break;
      } catch (...) {
      }
    }
    o.set("oob", oob);
    // where data() points, relative to the live sources
    Json loc = Json::object();
    if (n == 0) { loc.set("s", -1); loc.set("off", 0); }
    else {
      int fs = 0;
      long long foff = 0;
      uintptr_t d = (uintptr_t)a.data();
      for (int q = 1; q <= ns; ++q) {
        if (!srcs[q].live() || srcs[q].size() == 0) continue;
        uintptr_t b = (uintptr_t)srcs[q].data(), e = b + srcs[q].size() * sizeof(T);
        if (d >= b && d < e) { fs = q; foff = (long long)((d - b) / sizeof(T)); if ((d - b) % sizeof(T)) foff = -7; }
      }
      loc.set("s", fs);
      loc.set("off", foff);
    }
    o.set("loc", loc);
    Json ovl = Json::array();
    for (int j = 1; j <= nw; ++j) {
      bool ov = false;
      Slot &t = slot[j];
      if (j != i && t.live && !(dang.size() >= (size_t)j && dang[j - 1].boolean()) && n > 0 && t.base->size() > 0) {
        uintptr_t b1 = (uintptr_t)a.data(), e1 = b1 + n * sizeof(T);
        uintptr_t b2 = (uintptr_t)t.base->data(), e2 = b2 + t.base->size() * sizeof(T);
        ov = b1 < e2 && b2 < e1;
      }
      ovl.push(ov);
    }
    o.set("ovl", ovl);
    return o;
  }

  Json step(const Json &act) override
  {
    const std::string &a = act["a"].str();
    const Json &arg = act["arg"];
    const Json &dang = act["dang"];
    if ((int)dang.size() > nw) nw = (int)dang.size();
    if (nw > MAXSLOTS) nw = MAXSLOTS;
    std::string err;
    if (a == "Construct") {
      err = construct((int)arg["w"].num(), arg["kind"].str(), arg["m"].str(), (int)arg["x"].num(), (size_t)arg["off"].num(),
                      (size_t)arg["len"].num(), arg["vals"]);
    } else if (a == "Assign") {
      err = assign((int)arg["w"].num(), arg["m"].str(), (int)arg["x"].num());
    } else if (a == "Reset") {
      int w = (int)arg["w"].num();
      if (slot[w].kind == "ArrayView") av(w).reset();
      else if (slot[w].kind == "OwnedArray") oa(w).reset();
      else err = "reset on " + slot[w].kind;
    } else if (a == "ResetPtr") {
      int w = (int)arg["w"].num();
      T *p; size_t n;
      region(arg["m"].str(), (int)arg["x"].num(), (size_t)arg["off"].num(), (size_t)arg["len"].num(), p, n);
      if (slot[w].kind == "ArrayView") av(w).reset(p, n);
      else if (slot[w].kind == "OwnedArray") oa(w).reset(p, n);
      else err = "reset(p,n) on " + slot[w].kind;
    } else if (a == "Resize") {
      int w = (int)arg["w"].num();
      if (slot[w].kind == "OwnedArray") oa(w).resize((size_t)arg["n"].num(), Conv<T>::to(arg["v"].num()));
      else err = "resize on " + slot[w].kind;
    } else if (a == "Write") {
      int w = (int)arg["w"].num();
      slot[w].base->at((size_t)arg["i"].num()) = Conv<T>::to(arg["v"].num());
    } else if (a == "Destroy") {
      int w = (int)arg["w"].num();
      if (slot[w].live) destroy(w); else err = "slot not live";
    } else if (a == "SrcMake") {
      int s = (int)arg["s"].num();
      if (s > ns) ns = s;
      const Json &vals = arg["vals"];
      if (arg["sk"].str() == "vec") {
        // spare capacity: a wrapper must take size(), never capacity(), elements
        srcs[s].vec = new std::vector<T>();
        srcs[s].vec->reserve(vals.size() + 2);
        for (size_t i = 0; i < vals.size(); ++i) srcs[s].vec->push_back(Conv<T>::to(vals[i].num()));
      } else {
        if (vals.size() != ARRLEN) err = "std::array source must have 3 elements";
        else {
          srcs[s].arr = new Arr();
          for (size_t i = 0; i < ARRLEN; ++i) (*srcs[s].arr)[i] = Conv<T>::to(vals[i].num());
        }
      }
    } else if (a == "SrcWrite") {
      int s = (int)arg["s"].num();
      srcs[s].data()[(size_t)arg["i"].num()] = Conv<T>::to(arg["v"].num());
    } else if (a == "SrcResize") {
      // a resize that reallocates: the old elements' storage is released
      int s = (int)arg["s"].num();
      std::vector<T> tmp(*srcs[s].vec);
      tmp.reserve((size_t)arg["n"].num() + 2);
      tmp.resize((size_t)arg["n"].num(), Conv<T>::to(arg["v"].num()));
      srcs[s].vec->swap(tmp);
    } else if (a == "SrcDestroy") {
      int s = (int)arg["s"].num();
      delete srcs[s].vec;
      delete srcs[s].arr;
      srcs[s].vec = nullptr;
      srcs[s].arr = nullptr;
    } else {
      err = "unknown action " + a;
    }
    Json o = Json::object();
    if (!err.empty()) o.set("driver_error", err);
    Json ws = Json::array();
    for (int i = 1; i <= nw; ++i) ws.push(observeSlot(i, dang));
    o.set("w", ws);
    Json ss = Json::array();
    int nsrc = act.has("ns") ? (int)act["ns"].num() : ns;
    for (int s = 1; s <= nsrc; ++s) {
      Json so = Json::object();
      if (!srcs[s].live()) so.set("st", "dead");
      else {
        so.set("st", "live");
        Json items = Json::array();
        for (size_t i = 0; i < srcs[s].size(); ++i) items.push(Conv<T>::from(srcs[s].data()[i]));
        so.set("items", items);
      }
      ss.push(so);
    }
    o.set("s", ss);
    return o;
  }
};

// ---------------------------------------------------------------------------
// DataView: functional cases {a: "DataView", arg: {esz, stride, base, n, i, op, buf}}
struct E12
{
  uint32_t a, b, c;
};

struct DataViewWorld : IWorld
{
  template <typename T>
  Json run(const Json &arg)
  {
    const Json &buf = arg["buf"];
    const size_t base = (size_t)arg["base"].num(), stride = (size_t)arg["stride"].num(), i = (size_t)arg["i"].num();
    const std::string &op = arg["op"].str();
    // exactly the bytes the layout needs, on the heap: any read outside is an ASan report
    std::vector<uint8_t> bytes(buf.size());
    for (size_t k = 0; k < buf.size(); ++k) bytes[k] = (uint8_t)buf[k].num();
    const uint8_t *p = bytes.data() + base;
    Json o = Json::object();
    const T *e = nullptr;
    DataView<T> keep;
    if (op == "ctor") { DataView<T> dv(p, stride); keep = dv; }
    else if (op == "ctor_default_stride") { DataView<T> dv(p); keep = dv; }
    else if (op == "reset") { keep.reset(p, stride); }
    else if (op == "reset_default_stride") { DataView<T> dv(bytes.data(), 3 * sizeof(T)); keep = dv; keep.reset(p); }
    else if (op == "copy") { DataView<T> dv(p, stride); DataView<T> c(dv); keep = c; }
    else { o.set("driver_error", "unknown op " + op); return o; }
    e = &keep[i];
    o.set("off", (long long)((const uint8_t *)e - p));
    T val;
    memcpy(&val, (const void *)e, sizeof(T)); // the element DataView designates, byte by byte
    T val2 = keep[i];                         // and as DataView reads it
    Json bs = Json::array();
    uint8_t raw[sizeof(T)];
    memcpy(raw, &val2, sizeof(T));
    for (size_t k = 0; k < sizeof(T); ++k) bs.push((int)raw[k]);
    if (memcmp(&val, &val2, sizeof(T)) != 0) bs.push(-1); // reference and value read disagree
    o.set("bytes", bs);
    return o;
  }

  Json step(const Json &act) override
  {
    const Json &arg = act["arg"];
    switch ((int)arg["esz"].num()) {
    case 1: return run<uint8_t>(arg);
    case 2: return run<uint16_t>(arg);
    case 4: return run<uint32_t>(arg);
    case 8: return run<uint64_t>(arg);
    case 12: return run<E12>(arg);
    }
    Json o = Json::object();
    o.set("driver_error", "unsupported element size");
    return o;
  }
};

struct World
{
  IWorld *w;
  World(const Json &hist)
  {
    const std::string v = hist["variant"].str();
    if (v == "dataview") w = new DataViewWorld();
    else if (v == "u8") w = new ArrWorld<uint8_t>();
    else if (v == "f64") w = new ArrWorld<double>();
    else if (v == "s12") w = new ArrWorld<S12>();
    else w = new ArrWorld<int32_t>();
  }
  ~World() { delete w; }
  Json step(const Json &act) { return w->step(act); }
};

int main(int argc, char **argv)
{
  return vdrv::run<World>(argc, argv);
}
