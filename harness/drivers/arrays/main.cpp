// Conformance driver for spec/utility/ArrayWrappers.tla and spec/utility/DataViewIdx.tla
// (property C11).  Interprets the actions of the specification on real
// rkcommon::utility::{ArrayView, OwnedArray, FixedArray, FixedArrayView, DataView}
// objects and reports, after every step and for every wrapper slot the
// specification does not mark as dangling, what the AbstractArray interface
// shows: size(), operator bool, the contents through at(i) and through
// begin()..end() (element by element, or - on the slots the specification lists
// sample positions for - the sums, the iteration length and the sampled
// elements), at(i) for the out-of-range probe indices of the specification,
// whether the redundant accessors agree, where data() points relative to the
// live source containers and which slots designate overlapping element ranges.
// Wrappers are placement-constructed so that construction and destruction are
// actions of the history.  The driver never decides anything and never reads
// through a slot listed in `dang`.
//
// Variants (hist["variant"]): element type u8 | i32 | f64 | s3 | s12 | s24 | str
// (str = std::string, for ArrayView / OwnedArray histories only: FixedArray copies
// its elements with memcpy).
#include <array>
#include <climits>
#include <cstdint>
#include <cstring>
#include <map>
#include <memory>
#include <new>
#include <string>
#include <sys/mman.h>
#include <vector>
#include "driver.h"
#include "rkcommon/utility/ArrayView.h"
#include "rkcommon/utility/DataView.h"
#include "rkcommon/utility/FixedArray.h"
#include "rkcommon/utility/FixedArrayView.h"
#include "rkcommon/utility/OwnedArray.h"

using namespace rkcommon::utility;
using vj::Json;

// ---------------------------------------------------------------------------
// Element positions always hold integers (TLC cannot compare an integer with a string):
// what is not an element value is reported as one of these negative markers.
static const long long TORN_ELEMENT = -1000001;     // element that is none of the 256 values of the mapping
static const long long ACCESS_DISAGREE = -1000002;  // at(i), operator[](i), data()+i designate different objects
static const long long AT_THREW = -1000003;         // at(i) threw for i < size()
static const long long CITER_DIFFERS = -1000004;    // cbegin()/cend() cover a different number of elements

// element types: model integers 0..255 <-> concrete element values (injective; the values include what
// generic copying code can mishandle: 0x00 / 0x80 / 0xff bytes, negative and extreme integers, negative
// zero, subnormal / huge / non-dyadic doubles, strings inside and beyond the small-string buffer)
static int32_t i32of(long long v)
{
  if (v < 128) return (int32_t)v;
  if (v == 128) return INT32_MIN;
  if (v == 254) return INT32_MAX;
  return (int32_t)(v - 256);
}
static long long i32back(int32_t x)
{
  if (x >= 0 && x < 128) return x;
  if (x == INT32_MIN) return 128;
  if (x == INT32_MAX) return 254;
  if (x >= -127 && x <= -1 && x != -2) return (long long)x + 256;
  return TORN_ELEMENT;
}
static double f64of(long long v)
{
  switch (v) {
  case 0: return 0.0;
  case 128: return -0.0;
  case 129: return 4.9406564584124654e-324;
  case 130: return 1.7976931348623157e308;
  case 131: return -1.7976931348623157e308;
  case 132: return 2.2250738585072014e-308;
  }
  return v < 128 ? (double)v + 0.3 : -(double)(256 - v) - 0.3;
}
static long long f64back(double d)
{
  static std::map<uint64_t, int> tab;
  if (tab.empty())
    for (int k = 0; k < 256; ++k) { double x = f64of(k); uint64_t b; memcpy(&b, &x, 8); tab[b] = k; }
  uint64_t b;
  memcpy(&b, &d, 8);
  auto it = tab.find(b);
  return it == tab.end() ? TORN_ELEMENT : it->second;
}

struct S3 { uint8_t r, g, b; };
struct S12 { int32_t a; uint32_t b, c; };
struct S24 { double x, y, z; };

template <typename T> struct Conv;
template <> struct Conv<uint8_t>
{
  static uint8_t to(long long v) { return (uint8_t)v; }
  static long long from(const uint8_t &v) { return v; }
};
template <> struct Conv<int32_t>
{
  static int32_t to(long long v) { return i32of(v); }
  static long long from(const int32_t &v) { return i32back(v); }
};
template <> struct Conv<double>
{
  static double to(long long v) { return f64of(v); }
  static long long from(const double &v) { return f64back(v); }
};
template <> struct Conv<S3>
{
  static S3 to(long long v) { S3 s; s.r = (uint8_t)v; s.g = (uint8_t)(v ^ 0x5a); s.b = (uint8_t)~v; return s; }
  static long long from(const S3 &s) { return (s.g == (uint8_t)(s.r ^ 0x5a) && s.b == (uint8_t)~s.r) ? s.r : TORN_ELEMENT; }
};
template <> struct Conv<S12>
{
  static S12 to(long long v) { S12 s; s.a = i32of(v); s.b = (uint32_t)s.a + 1000u; s.c = ~(uint32_t)s.a; return s; }
  static long long from(const S12 &s) { return (s.b == (uint32_t)s.a + 1000u && s.c == ~(uint32_t)s.a) ? i32back(s.a) : TORN_ELEMENT; }
};
template <> struct Conv<S24>
{
  static S24 to(long long v) { S24 s; s.x = f64of(v); s.y = (double)v + 0.5; s.z = -(double)v - 1.0; return s; }
  static long long from(const S24 &s)
  {
    long long k = f64back(s.x);
    if (k < 0) return k;
    return (s.y == (double)k + 0.5 && s.z == -(double)k - 1.0) ? k : TORN_ELEMENT;
  }
};
template <> struct Conv<std::string>
{
  static std::string to(long long v)
  {
    return (v % 2) ? "e" + std::to_string(v) : "element-number-" + std::to_string(v) + "-is-longer-than-any-small-string-buffer";
  }
  static long long from(const std::string &s)
  {
    size_t p = s.find_first_of("0123456789");
    if (p == std::string::npos) return TORN_ELEMENT;
    long long k = atoll(s.c_str() + p);
    return (k >= 0 && k < 256 && s == to(k)) ? k : TORN_ELEMENT;
  }
};

struct IWorld
{
  virtual ~IWorld() {}
  virtual Json step(const Json &act) = 0;
};

static const int MAXSLOTS = 8;
static const int MAXSRCS = 8;
static const size_t CAP = 300000; // no observation loop runs further than this many elements

template <typename T>
struct ArrWorld : IWorld
{
  union Raw
  {
    alignas(16) unsigned char av[sizeof(ArrayView<T>)];
    alignas(16) unsigned char oa[sizeof(OwnedArray<T>)];
    alignas(16) unsigned char fv[sizeof(FixedArrayView<T>)];
  };
  struct Slot
  {
    bool live = false;
    std::string kind;
    std::string note;                         // disagreement of two entry points found while performing the action
    Raw *raw = nullptr;                       // heap cell the wrapper object lives in (freed on destroy)
    std::shared_ptr<FixedArray<T>> fa;        // FixedArray objects are held the way FixedArrayView needs them
    AbstractArray<T> *base = nullptr;         // the common interface everything is observed through
  };
  // source containers: std::vector, or std::array of 3, 1 or 0 elements (by the number of elements asked for)
  struct Source
  {
    std::vector<T> *vec = nullptr;
    std::array<T, 3> *a3 = nullptr;
    std::array<T, 1> *a1 = nullptr;
    std::array<T, 0> *a0 = nullptr;
    bool live() const { return vec || a3 || a1 || a0; }
    T *data() const { return vec ? vec->data() : a3 ? a3->data() : a1 ? a1->data() : a0->data(); }
    size_t size() const { return vec ? vec->size() : a3 ? a3->size() : a1 ? a1->size() : a0->size(); }
    void destroy() { delete vec; delete a3; delete a1; delete a0; vec = nullptr; a3 = nullptr; a1 = nullptr; a0 = nullptr; }
  };
  Slot slot[MAXSLOTS + 1];
  Source srcs[MAXSRCS + 1];
  int nw = 0, ns = 0;

  ~ArrWorld() override
  {
    for (int i = 1; i <= MAXSLOTS; ++i)
      if (slot[i].live) destroy(i);
    for (int s = 1; s <= MAXSRCS; ++s) srcs[s].destroy();
  }

  ArrayView<T> &av(int i) { return *reinterpret_cast<ArrayView<T> *>(slot[i].raw->av); }
  OwnedArray<T> &oa(int i) { return *reinterpret_cast<OwnedArray<T> *>(slot[i].raw->oa); }
  FixedArrayView<T> &fv(int i) { return *reinterpret_cast<FixedArrayView<T> *>(slot[i].raw->fv); }

  // construction / assignment from a source container: the overload is chosen by the container's static type
  template <typename W> static void newFrom(void *mem, Source &s)
  {
    if (s.vec) new (mem) W(*s.vec);
    else if (s.a3) new (mem) W(*s.a3);
    else if (s.a1) new (mem) W(*s.a1);
    else new (mem) W(*s.a0);
  }
  template <typename W> static W *heapFrom(Source &s)
  {
    return s.vec ? new W(*s.vec) : s.a3 ? new W(*s.a3) : s.a1 ? new W(*s.a1) : new W(*s.a0);
  }
  template <typename W> static void assignFrom(W &w, Source &s)
  {
    if (s.vec) w = *s.vec;
    else if (s.a3) w = *s.a3;
    else if (s.a1) w = *s.a1;
    else w = *s.a0;
  }

  static void expand(const Json &runs, std::vector<long long> &out)
  {
    for (size_t r = 0; r < runs.size(); ++r) {
      const Json &q = runs[r];
      long long b = q["b"].num(), o = q["o"].num(), n = q["n"].num();
      bool pat = q["t"].str() == "p";
      for (long long j = 0; j < n; ++j) out.push_back(pat ? (b + o + j) % 251 : b);
    }
  }

  void destroy(int i)
  {
    Slot &s = slot[i];
    if (s.kind == "ArrayView") av(i).~ArrayView<T>();
    else if (s.kind == "OwnedArray") oa(i).~OwnedArray<T>();
    else if (s.kind == "FixedArrayView") fv(i).~FixedArrayView<T>();
    else if (s.kind == "FixedArray") s.fa.reset();
    if (s.raw) {
      memset(s.raw, 0xAB, sizeof(Raw));
      delete s.raw;
      s.raw = nullptr;
    }
    s.live = false;
    s.base = nullptr;
    s.kind.clear();
    s.note.clear();
  }

  // pointer + size designated by (mode, x, off, len)
  void region(const std::string &m, int x, size_t off, size_t len, T *&p, size_t &n)
  {
    if (m == "ptr") {
      if (x == 0) { p = nullptr; n = 0; }
      else { p = srcs[x].data() + off; n = len; }
    } else { // wptr (x may be the slot itself)
      p = slot[x].base->data() + off;
      n = len;
    }
  }

  std::string construct(int w, const std::string &k, const std::string &m, int x, size_t off, size_t len, const Json &runs)
  {
    Slot &s = slot[w];
    if (s.live) return "slot already live";
    if (k != "FixedArray") s.raw = new Raw;
    T *p = nullptr;
    size_t n = 0;
    if (m == "ptr" || m == "wptr") region(m, x, off, len, p, n);
    if (k == "ArrayView") {
      if (m == "default") new (s.raw->av) ArrayView<T>();
      else if (m == "src") newFrom<ArrayView<T>>(s.raw->av, srcs[x]);
      else if (m == "ptr" || m == "wptr") {
        new (s.raw->av) ArrayView<T>(p, n);
        ArrayView<T> other = make_ArrayView(p, n); // the helper must build the same view as the constructor
        ArrayView<T> &mine = *reinterpret_cast<ArrayView<T> *>(s.raw->av);
        if (other.size() != mine.size() || other.data() != mine.data()) s.note = "make_ArrayView(p, n) differs from ArrayView(p, n)";
      } else if (m == "copy") new (s.raw->av) ArrayView<T>(av(x));
      else return "bad mode";
      s.base = reinterpret_cast<ArrayView<T> *>(s.raw->av);
    } else if (k == "OwnedArray") {
      if (m == "default") new (s.raw->oa) OwnedArray<T>();
      else if (m == "src") newFrom<OwnedArray<T>>(s.raw->oa, srcs[x]);
      else if (m == "ptr" || m == "wptr") new (s.raw->oa) OwnedArray<T>(p, n);
      else if (m == "copy") new (s.raw->oa) OwnedArray<T>(oa(x));
      else if (m == "move") new (s.raw->oa) OwnedArray<T>(std::move(oa(x)));
      else return "bad mode";
      s.base = reinterpret_cast<OwnedArray<T> *>(s.raw->oa);
    } else if (k == "FixedArray") {
      if (m == "default") s.fa = std::shared_ptr<FixedArray<T>>(new FixedArray<T>());
      else if (m == "src") s.fa = std::shared_ptr<FixedArray<T>>(heapFrom<FixedArray<T>>(srcs[x]));
      else if (m == "ptr" || m == "wptr") s.fa = std::shared_ptr<FixedArray<T>>(new FixedArray<T>(p, n));
      else if (m == "size") {
        // FixedArray(size) leaves the elements uninitialised; the harness fills them (part of the action)
        s.fa = std::shared_ptr<FixedArray<T>>(new FixedArray<T>(len));
        std::vector<long long> vals;
        expand(runs, vals);
        for (size_t i = 0; i < vals.size() && i < s.fa->size(); ++i) (*s.fa)[i] = Conv<T>::to(vals[i]);
      } else if (m == "copy") s.fa = std::shared_ptr<FixedArray<T>>(new FixedArray<T>(*slot[x].fa));
      else if (m == "move") s.fa = std::shared_ptr<FixedArray<T>>(new FixedArray<T>(std::move(*slot[x].fa)));
      else return "bad mode";
      s.base = s.fa.get();
    } else if (k == "FixedArrayView") {
      if (m == "default") new (s.raw->fv) FixedArrayView<T>();
      else if (m == "fview") new (s.raw->fv) FixedArrayView<T>(slot[x].fa, off, len);
      else if (m == "copy") new (s.raw->fv) FixedArrayView<T>(fv(x));
      else if (m == "move") new (s.raw->fv) FixedArrayView<T>(std::move(fv(x)));
      else return "bad mode";
      s.base = reinterpret_cast<FixedArrayView<T> *>(s.raw->fv);
    } else
      return "bad kind";
    s.live = true;
    s.kind = k;
    return "";
  }

  std::string assign(int w, const std::string &m, int x)
  {
    Slot &s = slot[w];
    if (!s.live) return "slot not live";
    const bool mv = m == "move";
    if (s.kind == "ArrayView") {
      if (m == "src") assignFrom(av(w), srcs[x]);
      else av(w) = av(x); // x == w: self-assignment
    } else if (s.kind == "OwnedArray") {
      if (m == "src") assignFrom(oa(w), srcs[x]);
      else if (mv) oa(w) = std::move(oa(x));
      else oa(w) = oa(x);
    } else if (s.kind == "FixedArray") {
      if (m == "src") assignFrom(*s.fa, srcs[x]);
      else if (mv) *s.fa = std::move(*slot[x].fa);
      else *s.fa = *slot[x].fa;
    } else if (s.kind == "FixedArrayView") {
      if (m == "copy") fv(w) = fv(x);
      else if (mv) fv(w) = std::move(fv(x));
      else return "bad mode";
    }
    return "";
  }

  static bool flag(const Json &list, int i) { return list.size() >= (size_t)i && list[i - 1].boolean(); }

  // contents: element by element, or (pos non-empty) iteration length, sums and sampled positions
  template <typename GET> static void contents(Json &o, size_t n, const Json &pos, GET get, T *b, T *e, const T *cb, const T *ce)
  {
    if (pos.size() == 0) {
      Json items = Json::array();
      for (size_t k = 0; k < n && k < 64; ++k) items.push(get(k));
      o.set("items", items);
      Json iter = Json::array();
      size_t cnt = 0;
      for (T *p = b; p != e && cnt < 64; ++p, ++cnt) iter.push(Conv<T>::from(*p));
      size_t ccnt = 0;
      for (const T *p = cb; p != ce && ccnt < 64; ++p) ++ccnt;
      if (ccnt != cnt) iter.push(CITER_DIFFERS);
      o.set("iter", iter);
    } else {
      long long isum = 0, sum = 0;
      size_t cnt = 0;
      for (T *p = b; p != e && cnt < CAP; ++p, ++cnt) isum += Conv<T>::from(*p);
      size_t ccnt = 0;
      for (const T *p = cb; p != ce && ccnt < CAP; ++p) ++ccnt;
      for (size_t k = 0; k < n && k < CAP; ++k) sum += get(k);
      o.set("iterlen", ccnt == cnt ? (long long)cnt : CITER_DIFFERS);
      o.set("sum", sum);
      o.set("isum", isum);
      Json samp = Json::array();
      for (size_t k = 0; k < pos.size(); ++k) samp.push(get((size_t)pos[k].num()));
      o.set("samp", samp);
    }
  }

  struct AtGet
  {
    AbstractArray<T> &a;
    long long operator()(size_t k) const
    {
      try {
        T &r = a.at(k);
        if (&r != &a[k] || &r != a.data() + k) return ACCESS_DISAGREE;
        return Conv<T>::from(r);
      } catch (...) {
        return AT_THREW;
      }
    }
  };
  struct SrcGet
  {
    const Source &s;
    long long operator()(size_t k) const { return k < s.size() ? Conv<T>::from(s.data()[k]) : AT_THREW; }
  };

  Json observeSlot(int i, const Json &act)
  {
    const Json &dang = act["dang"], &moved = act["moved"];
    Json o = Json::object();
    Slot &s = slot[i];
    if (!s.live) { o.set("st", "dead"); return o; }
    if (flag(dang, i)) { o.set("st", "dangling"); return o; }
    AbstractArray<T> &a = *s.base;
    const size_t n = a.size();
    if (flag(moved, i)) {
      // moved-from owning wrapper: valid but unspecified - whatever it shows must be readable and self-consistent
      bool ok = true;
      size_t cnt = 0;
      long long touch = 0;
      for (T *p = a.begin(); p != a.end() && cnt < CAP; ++p, ++cnt) touch += Conv<T>::from(*p);
      if (cnt != n) ok = false;
      try { T &r = a.at(n); (void)&r; ok = false; } catch (...) {}
      if (n > 0 && a.data() == nullptr) ok = false;
      if (static_cast<bool>(a) != (n > 0)) ok = false;
      o.set("st", "moved");
      o.set("valid", ok && touch > -1000000000000LL);
      return o;
    }
    o.set("st", "live");
    o.set("kind", s.kind);
    o.set("size", (long long)n);
    o.set("nonempty", static_cast<bool>(a));
    // out-of-range at(): index = r*size() + c*2^p + d (mod 2^64) for every probe; all must throw (references are never read)
    std::string oob = "throws";
    const Json &probes = act["probes"];
    for (size_t q = 0; q < probes.size(); ++q) {
      const Json &pr = probes[q];
      uint64_t idx = (uint64_t)pr[0].num() * (uint64_t)n;
      if (pr[1].num()) idx += pr[2].num() >= 64 ? 0 : ((uint64_t)1 << pr[2].num());
      idx += (uint64_t)(int64_t)pr[3].num();
      try {
        T &r = a.at((size_t)idx);
        (void)&r;
        oob = "at(" + std::to_string(pr[0].num()) + "*size+" + std::to_string(pr[1].num()) + "*2^" + std::to_string(pr[2].num()) +
              "+" + std::to_string(pr[3].num()) + ") returned";
        break;
      } catch (...) {
      }
    }
    o.set("oob", oob);
    // redundant accessors and entry points agree
    std::string same = "ok";
    if (!s.note.empty()) same = s.note;
    else if (static_cast<T *>(a) != a.data()) same = "operator T*() differs from data()";
    else if (a.begin() != a.data() || a.cbegin() != a.data()) same = "begin()/cbegin() differ from data()";
    else if ((size_t)(a.end() - a.begin()) != n || a.cend() != a.end()) same = "end() - begin() differs from size()";
    o.set("same", same);
    // where data() points, relative to the live sources
    Json loc = Json::object();
    if (n == 0) { loc.set("s", -1); loc.set("off", 0); }
    else {
      int fs = 0;
      long long foff = 0;
      uintptr_t d = (uintptr_t)a.data();
      for (int q = 1; q <= ns; ++q) {
        if (!srcs[q].live() || srcs[q].size() == 0) continue;
        uintptr_t b = (uintptr_t)srcs[q].data(), e = b + srcs[q].size() * sizeof(T);
        if (d >= b && d < e) { fs = q; foff = (long long)((d - b) / sizeof(T)); if ((d - b) % sizeof(T)) foff = -7; }
      }
      loc.set("s", fs);
      loc.set("off", foff);
    }
    o.set("loc", loc);
    Json ovl = Json::array();
    for (int j = 1; j <= nw; ++j) {
      bool ov = false;
      Slot &t = slot[j];
      if (j != i && t.live && !flag(dang, j) && !flag(moved, j) && n > 0 && t.base->size() > 0) {
        uintptr_t b1 = (uintptr_t)a.data(), e1 = b1 + n * sizeof(T);
        uintptr_t b2 = (uintptr_t)t.base->data(), e2 = b2 + t.base->size() * sizeof(T);
        ov = b1 < e2 && b2 < e1;
      }
      ovl.push(ov);
    }
    o.set("ovl", ovl);
    static const Json none = Json::array();
    const Json &pw = act["pos"]["w"];
    AtGet g = {a};
    contents(o, n, pw.size() >= (size_t)i ? pw[i - 1] : none, g, a.begin(), a.end(), a.cbegin(), a.cend());
    return o;
  }

  Json step(const Json &act) override
  {
    const std::string &a = act["a"].str();
    const Json &arg = act["arg"];
    const Json &dang = act["dang"];
    if ((int)dang.size() > nw) nw = (int)dang.size();
    if (nw > MAXSLOTS) nw = MAXSLOTS;
    for (int i = 1; i <= MAXSLOTS; ++i) slot[i].note.clear();
    std::string err;
    if (a == "Construct") {
      err = construct((int)arg["w"].num(), arg["kind"].str(), arg["m"].str(), (int)arg["x"].num(), (size_t)arg["off"].num(),
                      (size_t)arg["len"].num(), arg["runs"]);
    } else if (a == "Assign") {
      err = assign((int)arg["w"].num(), arg["m"].str(), (int)arg["x"].num());
    } else if (a == "Reset") {
      int w = (int)arg["w"].num();
      if (slot[w].kind == "ArrayView") av(w).reset();
      else if (slot[w].kind == "OwnedArray") oa(w).reset();
      else err = "reset on " + slot[w].kind;
    } else if (a == "ResetPtr") {
      int w = (int)arg["w"].num();
      T *p; size_t n;
      region(arg["m"].str(), (int)arg["x"].num(), (size_t)arg["off"].num(), (size_t)arg["len"].num(), p, n);
      if (slot[w].kind == "ArrayView") av(w).reset(p, n);
      else if (slot[w].kind == "OwnedArray") oa(w).reset(p, n);
      else err = "reset(p,n) on " + slot[w].kind;
    } else if (a == "Resize") {
      int w = (int)arg["w"].num();
      if (slot[w].kind != "OwnedArray") err = "resize on " + slot[w].kind;
      else if (arg["self"].boolean()) oa(w).resize((size_t)arg["n"].num(), oa(w)[0]); // val refers to the array's own first element
      else oa(w).resize((size_t)arg["n"].num(), Conv<T>::to(arg["v"].num()));
    } else if (a == "Write") {
      int w = (int)arg["w"].num();
      slot[w].base->at((size_t)arg["i"].num()) = Conv<T>::to(arg["v"].num());
    } else if (a == "Destroy") {
      int w = (int)arg["w"].num();
      if (slot[w].live) destroy(w); else err = "slot not live";
    } else if (a == "SrcMake") {
      int s = (int)arg["s"].num();
      if (s > ns) ns = s;
      std::vector<long long> vals;
      expand(arg["runs"], vals);
      if (arg["sk"].str() == "vec") {
        // spare capacity: a wrapper must take size(), never capacity(), elements
        srcs[s].vec = new std::vector<T>();
        srcs[s].vec->reserve(vals.size() + 2);
        for (size_t i = 0; i < vals.size(); ++i) srcs[s].vec->push_back(Conv<T>::to(vals[i]));
      } else if (vals.size() == 3) {
        srcs[s].a3 = new std::array<T, 3>();
        for (size_t i = 0; i < 3; ++i) (*srcs[s].a3)[i] = Conv<T>::to(vals[i]);
      } else if (vals.size() == 1) {
        srcs[s].a1 = new std::array<T, 1>();
        (*srcs[s].a1)[0] = Conv<T>::to(vals[0]);
      } else if (vals.size() == 0) {
        srcs[s].a0 = new std::array<T, 0>();
      } else
        err = "std::array sources have 3, 1 or 0 elements";
    } else if (a == "SrcWrite") {
      int s = (int)arg["s"].num();
      srcs[s].data()[(size_t)arg["i"].num()] = Conv<T>::to(arg["v"].num());
    } else if (a == "SrcResize") {
      // a resize that reallocates: the old elements' storage is released
      int s = (int)arg["s"].num();
      std::vector<T> tmp(*srcs[s].vec);
      tmp.reserve((size_t)arg["n"].num() + 2);
      tmp.resize((size_t)arg["n"].num(), Conv<T>::to(arg["v"].num()));
      srcs[s].vec->swap(tmp);
    } else if (a == "SrcDestroy") {
      srcs[(int)arg["s"].num()].destroy();
    } else {
      err = "unknown action " + a;
    }
    Json o = Json::object();
    if (!err.empty()) o.set("driver_error", err);
    Json ws = Json::array();
    for (int i = 1; i <= nw; ++i) ws.push(observeSlot(i, act));
    o.set("w", ws);
    Json ss = Json::array();
    int nsrc = act.has("ns") ? (int)act["ns"].num() : ns;
    static const Json none = Json::array();
    const Json &ps = act["pos"]["s"];
    for (int s = 1; s <= nsrc; ++s) {
      Json so = Json::object();
      if (!srcs[s].live()) so.set("st", "dead");
      else {
        so.set("st", "live");
        SrcGet g = {srcs[s]};
        T *b = srcs[s].data(), *e = b + srcs[s].size();
        contents(so, srcs[s].size(), ps.size() >= (size_t)s ? ps[s - 1] : none, g, b, e, b, e);
      }
      ss.push(so);
    }
    o.set("s", ss);
    return o;
  }
};

// ---------------------------------------------------------------------------
// DataView: functional cases {a: "DataView", arg: {esz, stride, base, n, i, op, buf}}
struct E12
{
  uint32_t a, b, c;
};

struct DataViewWorld : IWorld
{
  template <typename T>
  Json run(const Json &arg)
  {
    const Json &buf = arg["buf"];
    const size_t base = (size_t)arg["base"].num(), stride = (size_t)arg["stride"].num(), i = (size_t)arg["i"].num();
    const std::string &op = arg["op"].str();
    // exactly the bytes the layout needs, on the heap: any read outside is an ASan report
    std::vector<uint8_t> bytes(buf.size());
    for (size_t k = 0; k < buf.size(); ++k) bytes[k] = (uint8_t)buf[k].num();
    const uint8_t *p = bytes.data() + base;
    Json o = Json::object();
    const T *e = nullptr;
    DataView<T> keep;
    if (op == "ctor") { DataView<T> dv(p, stride); keep = dv; }
    else if (op == "ctor_default_stride") { DataView<T> dv(p); keep = dv; }
    else if (op == "reset") { keep.reset(p, stride); }
    else if (op == "reset_default_stride") { DataView<T> dv(bytes.data(), 3 * sizeof(T)); keep = dv; keep.reset(p); }
    else if (op == "copy") { DataView<T> dv(p, stride); DataView<T> c(dv); keep = c; }
    else { o.set("driver_error", "unknown op " + op); return o; }
    e = &keep[i];
    o.set("off", (long long)((const uint8_t *)e - p));
    T val;
    memcpy(&val, (const void *)e, sizeof(T)); // the element DataView designates, byte by byte
    T val2 = keep[i];                         // and as DataView reads it
    Json bs = Json::array();
    uint8_t raw[sizeof(T)];
    memcpy(raw, &val2, sizeof(T));
    for (size_t k = 0; k < sizeof(T); ++k) bs.push((int)raw[k]);
    if (memcmp(&val, &val2, sizeof(T)) != 0) bs.push(-1); // reference and value read disagree
    o.set("bytes", bs);
    return o;
  }

  // --- far offsets: 2^32 + 2^20 bytes mapped without reserving memory; only the pages written are ever touched
  static const uint64_t FARSIZE = ((uint64_t)1 << 32) + ((uint64_t)1 << 20);
  static uint8_t *farMap()
  {
    static uint8_t *m = nullptr;
    if (!m) {
      void *p = mmap(nullptr, FARSIZE, PROT_READ | PROT_WRITE, MAP_PRIVATE | MAP_ANONYMOUS | MAP_NORESERVE, -1, 0);
      m = p == MAP_FAILED ? nullptr : (uint8_t *)p;
    }
    return m;
  }
  static uint64_t limbs(const Json &j) { return (uint64_t)j[0].num() * 65536u + (uint64_t)j[1].num(); }
  static Json toLimbs(uint64_t v) { Json a = Json::array(); a.push((long long)(v >> 16)); a.push((long long)(v & 65535)); return a; }
  static uint8_t farPat(uint64_t q) { return (uint8_t)(((q & 255) * 7 + 3 + 89 * ((q >> 16) % 251)) & 255); }
  static void fill(uint8_t *m, const Json &fills)
  {
    for (size_t k = 0; k < fills.size(); ++k) {
      uint64_t p = limbs(fills[k]);
      uint64_t lo = p >= 16 ? p - 16 : 0, hi = p + 48 < FARSIZE ? p + 48 : FARSIZE;
      for (uint64_t q = lo; q < hi; ++q) m[q] = farPat(q);
    }
  }
  template <typename T>
  Json runFar(const Json &arg, uint8_t *m)
  {
    Json o = Json::object();
    DataView<T> dv(m, (size_t)arg["stride"].num());
    const uint64_t i = limbs(arg["i"]);
    const T *e = &dv[(size_t)i];
    o.set("off", toLimbs((uint64_t)((const uint8_t *)e - m)));
    T val = dv[(size_t)i];
    uint8_t raw[sizeof(T)];
    memcpy(raw, &val, sizeof(T));
    Json bs = Json::array();
    for (size_t k = 0; k < sizeof(T); ++k) bs.push((int)raw[k]);
    o.set("bytes", bs);
    return o;
  }
  Json viewFar(const Json &arg, uint8_t *m)
  {
    Json o = Json::object();
    const uint64_t n = limbs(arg["n"]);
    const std::string &how = arg["how"].str();
    ArrayView<uint8_t> a;
    if (how == "ctor") { ArrayView<uint8_t> t(m, (size_t)n); a = t; }
    else if (how == "make") a = make_ArrayView(m, (size_t)n);
    else if (how == "reset") a.reset(m, (size_t)n);
    else { ArrayView<uint8_t> t(m, (size_t)n); ArrayView<uint8_t> c(t); a = c; }
    o.set("size", toLimbs((uint64_t)a.size()));
    o.set("len", toLimbs((uint64_t)(a.end() - a.begin())));
    o.set("nonempty", static_cast<bool>(a));
    try { uint8_t &r = a.at((size_t)n); (void)&r; o.set("atn", "at(size()) returned"); } catch (...) { o.set("atn", "throws"); }
    Json ins = Json::array();
    const Json &ks = arg["inside"];
    for (size_t k = 0; k < ks.size(); ++k) {
      Json e = Json::object();
      try {
        uint8_t &r = a.at((size_t)limbs(ks[k]));
        e.set("off", toLimbs((uint64_t)(&r - m)));
        e.set("v", (int)r);
      } catch (...) {
        e.set("off", toLimbs(0));
        e.set("v", -1); // at(i) threw for i < size()
      }
      ins.push(e);
    }
    o.set("inside", ins);
    return o;
  }

  Json step(const Json &act) override
  {
    const Json &arg = act["arg"];
    const std::string &a = act["a"].str();
    if (a == "DataViewFar" || a == "ViewFar") {
      uint8_t *m = farMap();
      if (!m) { Json o = Json::object(); o.set("driver_error", "cannot map 4 GiB of address space"); return o; }
      fill(m, arg["fills"]);
      if (a == "ViewFar") return viewFar(arg, m);
      switch ((int)arg["esz"].num()) {
      case 1: return runFar<uint8_t>(arg, m);
      case 2: return runFar<uint16_t>(arg, m);
      case 4: return runFar<uint32_t>(arg, m);
      case 8: return runFar<uint64_t>(arg, m);
      case 12: return runFar<E12>(arg, m);
      }
    }
    switch ((int)arg["esz"].num()) {
    case 1: return run<uint8_t>(arg);
    case 2: return run<uint16_t>(arg);
    case 4: return run<uint32_t>(arg);
    case 8: return run<uint64_t>(arg);
    case 12: return run<E12>(arg);
    }
    Json o = Json::object();
    o.set("driver_error", "unsupported element size");
    return o;
  }
};

struct World
{
  IWorld *w;
  World(const Json &hist)
  {
    const std::string v = hist["variant"].str();
    if (v == "dataview") w = new DataViewWorld();
    else if (v == "u8") w = new ArrWorld<uint8_t>();
    else if (v == "f64") w = new ArrWorld<double>();
    else if (v == "s3") w = new ArrWorld<S3>();
    else if (v == "s12") w = new ArrWorld<S12>();
    else if (v == "s24") w = new ArrWorld<S24>();
    else if (v == "str") w = new ArrWorld<std::string>();
    else w = new ArrWorld<int32_t>();
  }
  ~World() { delete w; }
  Json step(const Json &act) { return w->step(act); }
};

int main(int argc, char **argv)
{
  return vdrv::run<World>(argc, argv);
}
