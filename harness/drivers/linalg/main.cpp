// Conformance driver for spec/math/LinAlgebra.tla (property C06).
//
// Interprets the cases / actions of the specification on the real rkcommon
// LinearSpace2 / LinearSpace3 / AffineSpaceT / QuaternionT and reports what it
// observed.  It decides nothing: expected values come from TLC (replay), or the
// observations are validated by TLC (LinAlgebraValidate, LinTrace).
//
// variant (input line key "variant"): "f"  float, plain vectors (vec3f, vec2f),
//                                     "d"  double, plain vectors,
//                                     "fa" float, padded 3-vectors (vec3fa; no 2D types).
//
// Conventions shared with the specification:
//  * a matrix is a list of ROWS; rkcommon stores COLUMNS (vx, vy, vz): matrices
//    are built with the column constructor and read back from the column members;
//  * an angle is {num, den} = num * pi / den; an axis is an integer vector that the
//    driver normalises (input preparation) before it is handed to the library;
//  * every real result x is reported as the integer round(x) when |x - round(x)| <=
//    1e-4 and as the raw double otherwise (fields without suffix: compared by
//    equality with TLC's integer expectation), and - where TLC validates - as the
//    integer round(x * 2^14) (fields "..._s", saturated at +-2^26; "nan" is set
//    when such a field was NaN).
//  * guards only look at INPUT flags computed by the specification ("inv": the
//    matrix is regular): inverse / rcp / xfmNormal are not evaluated otherwise.
#include <cmath>
#include <string>
#include "driver.h"
#include "rkcommon/math/AffineSpace.h"
#include "rkcommon/math/LinearSpace.h"
#include "rkcommon/math/Quaternion.h"
#include "rkcommon/math/vec.h"

using namespace rkcommon::math;
using vj::Json;

static const double SCALE = 16384.0;  // SC of the specification
static const long long SAT = 1LL << 26;
static const double TOL = 1e-4;

static Json num(double d)
{
  if (d != d) return Json("nan");
  if (std::isinf(d)) return Json(d > 0 ? "inf" : "-inf");
  const double r = std::floor(d + 0.5);
  if (std::fabs(d - r) <= TOL && std::fabs(r) < 9e15) return Json((long long)r);
  return Json(d);
}
// recorded executions (validated by TLC, whose values are integers): a value that is not within 1e-4 of an integer (or is
// NaN / infinite) is recorded as NOT_AN_INTEGER, which no expected value equals (all are far below 2^24)
static const long long NOT_AN_INTEGER = 1000000007LL;
static Json numI(double d)
{
  if (d != d || std::isinf(d)) return Json(NOT_AN_INTEGER);
  const double r = std::floor(d + 0.5);
  if (std::fabs(d - r) <= TOL && std::fabs(r) < 1e9) return Json((long long)r);
  return Json(NOT_AN_INTEGER);
}
static Json fix(double d, bool &nan)
{
  if (d != d) {
    nan = true;
    return Json(0);
  }
  const double s = d * SCALE;
  long long v;
  if (s >= (double)SAT) v = SAT;
  else if (s <= -(double)SAT) v = -SAT;
  else v = std::llround(s);
  return Json(v);
}
static const double PI = 3.14159265358979323846;
// general angles (LinGeneral): {q, n, den} = q * pi / 2 + n / den
static double angleQ(const Json &a) { return (double)a["q"].num() * (PI / 2) + (double)a["n"].num() / (double)a["den"].num(); }
static double angleOf(const Json &arg) { return (double)arg["num"].num() * PI / (double)arg["den"].num(); }

// a second scalar type for the mixed-type overloads "U * QuaternionT<T>".  Only combinations whose result type is
// QuaternionT<T> itself can be instantiated (double * QuaternionT<float> does not compile in the library: its body converts
// QuaternionT<float> to QuaternionT<double>, for which no constructor exists), so: long for float, float for double.
template <typename T> struct OtherScalar { typedef long type; };
template <> struct OtherScalar<double> { typedef float type; };

// ---------------------------------------------------------------------------------------
// 3D: LinearSpace3<vec_t<T,3,A>>, AffineSpaceT<...>, QuaternionT<T>
// ---------------------------------------------------------------------------------------
template <typename T, bool A>
struct K3
{
  typedef vec_t<T, 3, A> V;
  typedef vec_t<T, 3> VU;  // QuaternionT<T>::Vector
  typedef LinearSpace3<V> L;
  typedef AffineSpaceT<L> AF;
  typedef QuaternionT<T> Q;

  bool nan;   // a "_s" field of the current step was NaN
  AF cur;     // the object of the recorded executions

  K3() : nan(false), cur(one) {}

  // ---- inputs ----
  static V vec(const Json &a) { return V((T)a[(size_t)0].num(), (T)a[(size_t)1].num(), (T)a[(size_t)2].num()); }
  static V unit(const Json &a)
  {
    const V v = vec(a);
    const T n = std::sqrt(v.x * v.x + v.y * v.y + v.z * v.z);
    return V(v.x / n, v.y / n, v.z / n);
  }
  static T e(const Json &rows, int i, int j) { return (T)rows[(size_t)i][(size_t)j].num(); }
  static L mat(const Json &r)  // column constructor
  {
    return L(V(e(r, 0, 0), e(r, 1, 0), e(r, 2, 0)), V(e(r, 0, 1), e(r, 1, 1), e(r, 2, 1)), V(e(r, 0, 2), e(r, 1, 2), e(r, 2, 2)));
  }
  static L matRowMajor(const Json &r)
  {
    return L(e(r, 0, 0), e(r, 0, 1), e(r, 0, 2), e(r, 1, 0), e(r, 1, 1), e(r, 1, 2), e(r, 2, 0), e(r, 2, 1), e(r, 2, 2));
  }
  static AF aff(const Json &j) { return AF(mat(j["l"]), vec(j["p"])); }
  static L mat8(const Json &r)  // K / 8
  {
    const T d = T(8);
    return L(V(e(r, 0, 0) / d, e(r, 1, 0) / d, e(r, 2, 0) / d), V(e(r, 0, 1) / d, e(r, 1, 1) / d, e(r, 2, 1) / d),
             V(e(r, 0, 2) / d, e(r, 1, 2) / d, e(r, 2, 2) / d));
  }
  static Q unitQ(const Json &h)  // integer quaternion, normalised here (input preparation)
  {
    const T r = (T)h[(size_t)0].num(), i = (T)h[(size_t)1].num(), j = (T)h[(size_t)2].num(), k = (T)h[(size_t)3].num();
    const T n = std::sqrt(r * r + i * i + j * j + k * k);
    return Q(r / n, i / n, j / n, k / n);
  }
  static Q quatOfMatrix(const L &m) { return Q(VU(m.vx), VU(m.vy), VU(m.vz)); }
  static Q hurwitz(const Json &h) { return Q((T)h[(size_t)0].num() / 2, (T)h[(size_t)1].num() / 2, (T)h[(size_t)2].num() / 2, (T)h[(size_t)3].num() / 2); }

  // ---- outputs ----
  template <typename VV>
  static Json jv(const VV &v)
  {
    Json a = Json::array();
    a.push(num(v.x));
    a.push(num(v.y));
    a.push(num(v.z));
    return a;
  }
  static Json jm(const L &m)
  {
    Json a = Json::array();
    Json r0 = Json::array(), r1 = Json::array(), r2 = Json::array();
    r0.push(num(m.vx.x)); r0.push(num(m.vy.x)); r0.push(num(m.vz.x));
    r1.push(num(m.vx.y)); r1.push(num(m.vy.y)); r1.push(num(m.vz.y));
    r2.push(num(m.vx.z)); r2.push(num(m.vy.z)); r2.push(num(m.vz.z));
    a.push(r0); a.push(r1); a.push(r2);
    return a;
  }
  static Json jaff(const AF &x)
  {
    Json o = Json::object();
    o.set("l", jm(x.l));
    o.set("p", jv(x.p));
    return o;
  }
  template <typename VV>
  Json jvS(const VV &v)
  {
    Json a = Json::array();
    a.push(fix(v.x, nan));
    a.push(fix(v.y, nan));
    a.push(fix(v.z, nan));
    return a;
  }
  Json jmS(const L &m)
  {
    Json a = Json::array();
    Json r0 = Json::array(), r1 = Json::array(), r2 = Json::array();
    r0.push(fix(m.vx.x, nan)); r0.push(fix(m.vy.x, nan)); r0.push(fix(m.vz.x, nan));
    r1.push(fix(m.vx.y, nan)); r1.push(fix(m.vy.y, nan)); r1.push(fix(m.vz.y, nan));
    r2.push(fix(m.vx.z, nan)); r2.push(fix(m.vy.z, nan)); r2.push(fix(m.vz.z, nan));
    a.push(r0); a.push(r1); a.push(r2);
    return a;
  }
  Json jaffS(const AF &x)
  {
    Json o = Json::object();
    o.set("l", jmS(x.l));
    o.set("p", jvS(x.p));
    return o;
  }
  Json jqS(const Q &q)
  {
    Json a = Json::array();
    a.push(fix(q.r, nan));
    a.push(fix(q.i, nan));
    a.push(fix(q.j, nan));
    a.push(fix(q.k, nan));
    return a;
  }
  static Json jq2(const Q &q)  // components doubled
  {
    Json a = Json::array();
    a.push(num(2 * (double)q.r));
    a.push(num(2 * (double)q.i));
    a.push(num(2 * (double)q.j));
    a.push(num(2 * (double)q.k));
    return a;
  }
  template <typename VV>
  static Json jvI(const VV &v)
  {
    Json a = Json::array();
    a.push(numI(v.x));
    a.push(numI(v.y));
    a.push(numI(v.z));
    return a;
  }
  Json state(Json o) const
  {
    Json st = Json::object(), l = Json::array(), r0 = Json::array(), r1 = Json::array(), r2 = Json::array();
    r0.push(numI(cur.l.vx.x)); r0.push(numI(cur.l.vy.x)); r0.push(numI(cur.l.vz.x));
    r1.push(numI(cur.l.vx.y)); r1.push(numI(cur.l.vy.y)); r1.push(numI(cur.l.vz.y));
    r2.push(numI(cur.l.vx.z)); r2.push(numI(cur.l.vy.z)); r2.push(numI(cur.l.vz.z));
    l.push(r0); l.push(r1); l.push(r2);
    st.set("l", l);
    st.set("p", jvI(cur.p));
    o.set("st", st);
    return o;
  }

  Json step(const std::string &a, const Json &arg)
  {
    Json o = Json::object();
    nan = false;
    // ------------------------------------------------------------------ one matrix
    if (a == "Unary3") {
      const L m = mat(arg["m"]);
      const L mr = matRowMajor(arg["m"]);
      o.set("det", num(m.det()));
      o.set("adjoint", jm(m.adjoint()));
      o.set("transposed", jm(m.transposed()));
      Json rows = Json::array();
      rows.push(jv(m.row0()));
      rows.push(jv(m.row1()));
      rows.push(jv(m.row2()));
      o.set("rows", rows);
      o.set("mat", jm(m));
      Json rc = Json::array(), cc = Json::array();
      rc.push(jv(mr.vx)); rc.push(jv(mr.vy)); rc.push(jv(mr.vz));
      cc.push(jv(m.vx)); cc.push(jv(m.vy)); cc.push(jv(m.vz));
      o.set("rm_cols", rc);
      o.set("cc_cols", cc);
      o.set("neg", jm(-m));
    } else if (a == "Inverse3") {
      const L m = mat(arg["m"]);
      const L inv = m.inverse();
      o.set("inverse", jm(inv));
      o.set("rcp", jm(rcp(m)));
      o.set("mulinv", jm(m * inv));
      o.set("invmul", jm(inv * m));
      o.set("div", jm(m / m));
      o.set("inverse_s", jmS(inv));
      o.set("rcp_s", jmS(rcp(m)));
    } else if (a == "Xfm3") {
      const L m = mat(arg["m"]);
      const bool inv = arg["inv"].boolean();
      Json mv = Json::array(), pt = Json::array(), vc = Json::array(), nr = Json::array(), ns = Json::array();
      const Json &vs = arg["vs"];
      for (size_t k = 0; k < vs.size(); ++k) {
        const V v = vec(vs[k]);
        mv.push(jv(m * v));
        pt.push(jv(xfmPoint(m, v)));
        vc.push(jv(xfmVector(m, v)));
        if (inv) {
          const V n = xfmNormal(m, v);
          nr.push(jv(n));
          ns.push(jvS(n));
        }
      }
      o.set("mulvec", mv);
      o.set("point", pt);
      o.set("vector", vc);
      if (inv) {
        o.set("normal", nr);
        o.set("normal_s", ns);
      }
    } else if (a == "Pair3") {
      const L x = mat(arg["a"]), y = mat(arg["b"]);
      o.set("mul", jm(x * y));
      L z = x;
      z *= y;
      o.set("muleq", jm(z));
      o.set("detmul", num((x * y).det()));
      o.set("detprod", num(x.det() * y.det()));
      o.set("add", jm(x + y));
      o.set("sub", jm(x - y));
      // ------------------------------------------------------------------ affine maps
    } else if (a == "AffXfm") {
      const AF x(mat(arg["l"]), vec(arg["p"]));
      const bool inv = arg["inv"].boolean();
      Json pt = Json::array(), vc = Json::array(), nr = Json::array(), ns = Json::array();
      const Json &vs = arg["vs"];
      for (size_t k = 0; k < vs.size(); ++k) {
        const V v = vec(vs[k]);
        pt.push(jv(xfmPoint(x, v)));
        vc.push(jv(xfmVector(x, v)));
        if (inv) {
          const V n = xfmNormal(x, v);
          nr.push(jv(n));
          ns.push(jvS(n));
        }
      }
      o.set("point", pt);
      o.set("vector", vc);
      if (inv) {
        o.set("normal", nr);
        o.set("normal_s", ns);
      }
      o.set("parts", jaff(x));
    } else if (a == "AffInv") {
      const AF x(mat(arg["l"]), vec(arg["p"]));
      const AF r = rcp(x);
      o.set("rcp", jaff(r));
      o.set("rcpmul", jaff(r * x));
      o.set("mulrcp", jaff(x * r));
      o.set("div", jaff(x / x));
      o.set("rcp_s", jaffS(r));
    } else if (a == "AffPair") {
      const AF x = aff(arg["a"]), y = aff(arg["b"]);
      const AF xy = x * y;
      o.set("mul", jaff(xy));
      Json c = Json::array(), n = Json::array();
      const Json &vs = arg["vs"];
      for (size_t k = 0; k < vs.size(); ++k) {
        const V v = vec(vs[k]);
        c.push(jv(xfmPoint(xy, v)));
        n.push(jv(xfmPoint(x, V(xfmPoint(y, v)))));
      }
      o.set("composed", c);
      o.set("nested", n);
    } else if (a == "AffCtor") {
      const V s = vec(arg["s"]);
      o.set("linscale", jm(L::scale(s)));
      o.set("scale", jaff(AF::scale(s)));
      o.set("translate", jaff(AF::translate(s)));
      o.set("one", jaff(AF(one)));
      o.set("fromlin", jaff(AF(L::scale(s))));
      o.set("linone", jm(L(one)));
      o.set("linzero", jm(L(zero)));
    } else if (a == "AffRotate") {
      const V u = unit(arg["axis"]);
      const T r = (T)angleOf(arg);
      const V c = vec(arg["c"]);
      const Q q = Q::rotate(VU(u), r);
      o.set("plain", jaff(AF::rotate(u, r)));
      o.set("about", jaff(AF::rotate(c, u, r)));
      o.set("quat", jaff(AF::rotate(q)));
    } else if (a == "AffRotateAboutQ") {
      // AffineSpaceT::rotate(point, quaternion) does not compile in the unmodified library (AffineSpace.h:122 multiplies an
      // AffineSpaceT by a LinearSpace3, for which no operator* exists): the call is only built when the check's probe build
      // with -DC06_ROTATE_POINT_QUAT succeeded.
#ifdef C06_ROTATE_POINT_QUAT
      const V u = unit(arg["axis"]);
      const Q q = Q::rotate(VU(u), (T)angleOf(arg));
      o.set("aboutquat", jaff(AF::rotate(vec(arg["c"]), q)));
#else
      o.set("ret", "n/a");
#endif
    } else if (a == "Lookat") {
      const AF x = AF::lookat(vec(arg["eye"]), vec(arg["point"]), vec(arg["up"]));
      o.set("l_s", jmS(x.l));
      o.set("p_s", jvS(x.p));
      o.set("map", jaff(x));
      // ------------------------------------------------------------------ rotations, frames
    } else if (a == "RotateAA") {
      const L m = L::rotate(unit(arg["axis"]), (T)angleOf(arg));
      o.set("m", jm(m));
      o.set("det", num(m.det()));
    } else if (a == "Frame") {
      const L m = frame(unit(arg["n"]));
      o.set("m_s", jmS(m));
      o.set("m", jm(m));
    } else if (a == "FrameUp") {
      const L m = frame(unit(arg["n"]), unit(arg["up"]));
      o.set("m_s", jmS(m));
      o.set("m", jm(m));
      // ------------------------------------------------------------------ quaternions
    } else if (a == "QuatAA") {
      const Q q = Q::rotate(VU(unit(arg["axis"])), (T)angleOf(arg));
      o.set("m", jm(L(q)));
      Json ap = Json::array();
      const Json &vs = arg["vs"];
      for (size_t k = 0; k < vs.size(); ++k) ap.push(jv(q * VU(vec(vs[k]))));
      o.set("app", ap);
      o.set("norm2", num(dot(q, q)));
    } else if (a == "QuatFromMat") {
      const Q q = quatOfMatrix(mat(arg["m"]));
      o.set("m", jm(L(q)));
      o.set("norm2", num(dot(q, q)));
    } else if (a == "QuatFromRot") {
      const Q q = quatOfMatrix(L::rotate(unit(arg["axis"]), (T)angleOf(arg)));
      o.set("m", jm(L(q)));
    } else if (a == "QuatPair") {
      const Q x = quatOfMatrix(mat(arg["a"])), y = quatOfMatrix(mat(arg["b"]));
      o.set("mul", jm(L(x * y)));
      o.set("xfmq", jm(L(xfmQuaternion(x, y))));
      o.set("conj", jm(L(conj(x))));
      o.set("rcp", jm(L(rcp(x))));
      o.set("div", jm(L(x / y)));
    } else if (a == "QuatVec") {
      const Q x = quatOfMatrix(mat(arg["a"]));
      Json ap = Json::array(), pt = Json::array(), nr = Json::array();
      const Json &vs = arg["vs"];
      for (size_t k = 0; k < vs.size(); ++k) {
        const VU v = VU(vec(vs[k]));
        ap.push(jv(x * v));
        pt.push(jv(xfmPoint(x, v)));
        nr.push(jv(xfmNormal(x, v)));
      }
      o.set("app", ap);
      o.set("point", pt);
      o.set("normal", nr);
    } else if (a == "HQuat") {
      const Q x = hurwitz(arg["a"]), y = hurwitz(arg["b"]);
      o.set("mul2", jq2(x * y));
      o.set("conj2", jq2(conj(x)));
      o.set("rcp2", jq2(rcp(x)));
      o.set("neg2", jq2(-x));
      o.set("sum2", jq2(x + y));
      o.set("diff2", jq2(x - y));
      o.set("dot4", num(4 * (double)dot(x, y)));
      o.set("m", jm(L(x)));
      // every scalar / compound / mixed-type overload (s = 2, 1/2, 1: exact)
      typedef typename OtherScalar<T>::type U;
      o.set("smul_l", jq2(T(2) * x));
      o.set("smul_r", jq2(x * T(2)));
      o.set("smul_int", jq2(2 * x));
      o.set("smul_dbl", jq2(U(2) * x));
      o.set("sdiv", jq2(x / T(0.5)));
      o.set("rdiv", jq2(T(2) / x));
      o.set("qdiv", jq2(x / y));
      o.set("addr", jq2(x + T(1)));
      o.set("addl", jq2(T(1) + x));
      o.set("subr", jq2(x - T(1)));
      o.set("subl", jq2(T(1) - x));
      o.set("pos", jq2(+x));
      { Q z = x; z += T(1); o.set("pluseq_s", jq2(z)); }
      { Q z = x; z -= T(1); o.set("minuseq_s", jq2(z)); }
      { Q z = x; z *= T(2); o.set("muleq_s", jq2(z)); }
      { Q z = x; z /= T(0.5); o.set("diveq_s", jq2(z)); }
      { Q z = x; z += y; o.set("pluseq_q", jq2(z)); }
      { Q z = x; z -= y; o.set("minuseq_q", jq2(z)); }
      { Q z = x; z *= y; o.set("muleq_q", jq2(z)); }
      { Q z = x; z /= y; o.set("diveq_q", jq2(z)); }
      o.set("eq", x == y);
      o.set("ne", x != y);
      o.set("ctor_r", jq2(Q(T(1))));
      o.set("ctor_v", jq2(Q(x.v())));
      o.set("ctor_rv", jq2(Q(x.r, x.v())));
      o.set("vpart2", jv(VU(T(2) * x.v())));
      o.set("abs1", num(abs(x)));
      o.set("normalized2", jq2(normalize(x)));
    } else if (a == "QuatRat") {
      // rotation with the rational matrix num / den = the rotation of the integer quaternion h / |h|
      const Json &n = arg["num"];
      const T d = (T)arg["den"].num();
      const L R(V(e(n, 0, 0) / d, e(n, 1, 0) / d, e(n, 2, 0) / d), V(e(n, 0, 1) / d, e(n, 1, 1) / d, e(n, 2, 1) / d),
                V(e(n, 0, 2) / d, e(n, 1, 2) / d, e(n, 2, 2) / d));
      const Json &h = arg["h"];
      const Q hq((T)h[(size_t)0].num(), (T)h[(size_t)1].num(), (T)h[(size_t)2].num(), (T)h[(size_t)3].num());
      const T inv = T(1) / std::sqrt(d);
      o.set("m_s", jmS(L(quatOfMatrix(R))));
      o.set("qm_s", jmS(L(Q(hq.r * inv, hq.i * inv, hq.j * inv, hq.k * inv))));
      o.set("nm_s", jmS(L(normalize(hq))));
    } else if (a == "QuatYPR") {
      const T h = (T)(PI / 2);
      const Q q((T)arg["y"].num() * h, (T)arg["p"].num() * h, (T)arg["r"].num() * h);
      o.set("m", jm(L(q)));
      o.set("norm2", num(dot(q, q)));
    } else if (a == "Slerp") {
      const Q x = quatOfMatrix(mat(arg["a"]));
      Q y = quatOfMatrix(mat(arg["b"]));
      if (arg["neg"].boolean()) y = -y;
      const Q q = slerp((float)arg["t2"].num() * 0.5f, x, y);
      const L m(q);
      o.set("m", jm(m));
      o.set("m_s", jmS(m));
      // ------------------------------------------------------------------ operator overloads, converting constructors
    } else if (a == "Ops3") {
      const L x = mat(arg["a"]), y = mat(arg["b"]), x2 = mat(arg["a2"]);
      o.set("smul2", jm(T(2) * x));
      o.set("smulneg", jm(T(-3) * x));
      o.set("divs", jm(x2 / T(2)));
      o.set("plus", jm(+x));
      { L z = x; z *= z; o.set("selfmul", jm(z)); }
      o.set("eq", x == y);
      o.set("ne", x != y);
      o.set("eqself", x == x);
      o.set("neself", x != x);
      { L c(x); o.set("copy", jm(c)); }
      { L d(zero); d = x; o.set("assign", jm(d)); }
      if (arg["invb"].boolean()) {
        o.set("div", jm(x / y));
        L z = x;
        z /= y;
        o.set("diveq", jm(z));
      }
      if (arg["inva"].boolean()) {
        L z = x;
        z /= z;
        o.set("selfdiv", jm(z));
      }
    } else if (a == "AffOps") {
      const AF x = aff(arg["a"]), y = aff(arg["b"]);
      o.set("smul2", jaff(T(2) * x));
      o.set("plus", jaff(+x));
      o.set("neg", jaff(-x));
      o.set("add", jaff(x + y));
      o.set("sub", jaff(x - y));
      { AF z = x; z *= y; o.set("muleq", jaff(z)); }
      { AF z = x; z *= z; o.set("selfmul", jaff(z)); }
      o.set("eq", x == y);
      o.set("ne", x != y);
      o.set("eqself", x == x);
      o.set("neself", x != x);
      { AF c(x); o.set("copy", jaff(c)); }
      { AF d(zero); d = x; o.set("assign", jaff(d)); }
      if (arg["invb"].boolean()) {
        o.set("div", jaff(x / y));
        AF z = x;
        z /= y;
        o.set("diveq", jaff(z));
      }
      if (arg["inva"].boolean()) {
        AF z = x;
        z /= z;
        o.set("selfdiv", jaff(z));
      }
    } else if (a == "Convert3") {
      const AF x = aff(arg);
      typedef LinearSpace3<vec_t<float, 3, false>> Lf;
      typedef LinearSpace3<vec_t<double, 3, false>> Ld;
      typedef LinearSpace3<vec_t<float, 3, true>> Lfa;
      o.set("lin_f", K3<float, false>::jm(Lf(x.l)));
      o.set("lin_d", K3<double, false>::jm(Ld(x.l)));
      o.set("lin_fa", K3<float, true>::jm(Lfa(x.l)));
      o.set("aff_f", K3<float, false>::jaff(AffineSpaceT<Lf>(x)));
      o.set("aff_d", K3<double, false>::jaff(AffineSpaceT<Ld>(x)));
      o.set("aff_fa", K3<float, true>::jaff(AffineSpaceT<Lfa>(x)));
    } else if (a == "GenFrame") {
      o.set("m1", jmS(frame(unit(arg["n"]))));
      o.set("m2", jmS(frame(unit(arg["n"]), unit(arg["up"]))));
    } else if (a == "GenLookat") {
      const AF x = AF::lookat(vec(arg["eye"]), vec(arg["point"]), vec(arg["up"]));
      o.set("ls", jmS(x.l));
      o.set("ps", jvS(x.p));
      // ------------------------------------------------------------------ non-lattice families (LinGeneral): record only
    } else if (a == "GenRot") {
      const V u = unit(arg["axis"]);
      const double da = angleQ(arg["a"]), db = angleQ(arg["b"]);
      const L R1 = L::rotate(u, (T)da);
      const Q q1 = Q::rotate(VU(u), (T)da);
      const Q q2 = quatOfMatrix(R1);
      o.set("us", jvS(u));
      o.set("R1", jmS(R1));
      o.set("R2", jmS(L::rotate(u, (T)db)));
      o.set("R12", jmS(L::rotate(u, (T)(da + db))));
      o.set("Rm", jmS(L::rotate(u, (T)(-da))));
      o.set("q1", jqS(q1));
      o.set("MQ1", jmS(L(q1)));
      o.set("q2", jqS(q2));
      o.set("MQ2", jmS(L(q2)));
    } else if (a == "GenHalf") {
      const V u = unit(arg["axis"]);
      o.set("us", jvS(u));
      Json c = Json::array();
      double ang = PI;
      for (long long j = 0; j <= arg["depth"].num(); ++j, ang *= 0.5) c.push(jmS(L::rotate(u, (T)ang)));
      o.set("C", c);
      o.set("F", jmS(L::rotate(u, (T)(2 * PI))));
    } else if (a == "GenSlerp") {
      const Q x = unitQ(arg["ha"]), y = unitQ(arg["hb"]);
      o.set("qa", jqS(x));
      o.set("qb", jqS(y));
      o.set("A", jmS(L(x)));
      o.set("B", jmS(L(y)));
      Json rq = Json::array(), rm = Json::array();
      const Json &ts = arg["ts"];
      for (size_t k = 0; k < ts.size(); ++k) {
        const Q q = slerp((float)ts[k].num() / 8.0f, x, y);
        rq.push(jqS(q));
        rm.push(jmS(L(q)));
      }
      o.set("rq", rq);
      o.set("RM", rm);
    } else if (a == "GenMat3") {
      // the matrices are K / 8 * 2^e; results are re-scaled by the exact power of two that undoes the scale
      const int ex = (int)arg["e"].num();
      const T sc = (T)std::ldexp(1.0, ex), un = (T)std::ldexp(1.0, -ex), un3 = (T)std::ldexp(1.0, -3 * ex), un6 = (T)std::ldexp(1.0, -6 * ex);
      const AF x(sc * mat8(arg["ka"]), vec(arg["pa"]) / T(8)), y(sc * mat8(arg["kb"]), vec(arg["pb"]) / T(8));
      const L inv = x.l.inverse();
      o.set("det", fix((double)(x.l.det() * un3), nan));
      o.set("detb", fix((double)(y.l.det() * un3), nan));
      o.set("detab", fix((double)((x.l * y.l).det() * un6), nan));
      o.set("inv", jmS(sc * inv));
      o.set("minv", jmS(x.l * inv));
      o.set("invm", jmS(inv * x.l));
      Json nr = Json::array(), cp = Json::array(), ns = Json::array();
      const Json &vs = arg["vs"];
      for (size_t k = 0; k < vs.size(); ++k) nr.push(jvS(V(sc * xfmNormal(x.l, vec(vs[k])))));
      o.set("normal", nr);
      (void)un;
      if (ex == 0) {
        const AF r = rcp(x);
        o.set("rcp", jaffS(r));
        o.set("rcpmul", jaffS(r * x));
        const AF xy = x * y;
        for (size_t k = 0; k < vs.size(); ++k) {
          const V p = V(vec(vs[k]) / T(8));
          cp.push(jvS(xfmPoint(xy, p)));
          ns.push(jvS(xfmPoint(x, V(xfmPoint(y, p)))));
        }
        o.set("composed", cp);
        o.set("nested", ns);
      }
      // ------------------------------------------------------------------ recorded executions
    } else if (a == "TNew") {
      cur = AF(one);
      return state(o);
    } else if (a == "TMulL") {
      cur = aff(arg["m"]) * cur;
      return state(o);
    } else if (a == "TMulR") {
      cur *= aff(arg["m"]);
      return state(o);
    } else if (a == "TTrans") {
      cur = AF::translate(vec(arg["v"])) * cur;
      return state(o);
    } else if (a == "TRotH") {
      cur = AF::rotate(hurwitz(arg["q"])) * cur;
      return state(o);
    } else if (a == "TRotC") {
#ifdef C06_ROTATE_POINT_QUAT
      cur = AF::rotate(vec(arg["c"]), hurwitz(arg["q"])) * cur;
#else
      o.set("ret", "n/a");
#endif
      return state(o);
    } else if (a == "TInv") {
      cur = rcp(cur);
      return state(o);
    } else if (a == "TQuery") {
      const V v = vec(arg["v"]);
      o.set("point", jvI(xfmPoint(cur, v)));
      o.set("vector", jvI(xfmVector(cur, v)));
      o.set("normal", jvI(xfmNormal(cur, v)));
      o.set("det", numI(cur.l.det()));
      return state(o);
    } else {
      o.set("ret", "unknown action " + a);
      return o;
    }
    o.set("nan", nan);
    return o;
  }
};

// ---------------------------------------------------------------------------------------
// 2D: LinearSpace2<vec_t<T,2>>, AffineSpaceT<LinearSpace2<...>>
// ---------------------------------------------------------------------------------------
// AffineSpaceT::rotate(point, angle) exists for the plane only as the explicit specialisation AffineSpace2f
template <typename T>
struct RotateAbout2
{
  static bool run(const Json &, T, Json &) { return false; }
};

template <typename T>
struct K2
{
  typedef vec_t<T, 2> V;
  typedef LinearSpace2<V> L;
  typedef AffineSpaceT<L> AF;
  bool nan;
  K2() : nan(false) {}

  static V vec(const Json &a) { return V((T)a[(size_t)0].num(), (T)a[(size_t)1].num()); }
  static T e(const Json &rows, int i, int j) { return (T)rows[(size_t)i][(size_t)j].num(); }
  static L mat(const Json &r) { return L(V(e(r, 0, 0), e(r, 1, 0)), V(e(r, 0, 1), e(r, 1, 1))); }
  static L matRowMajor(const Json &r) { return L(e(r, 0, 0), e(r, 0, 1), e(r, 1, 0), e(r, 1, 1)); }
  static AF aff(const Json &j) { return AF(mat(j["l"]), vec(j["p"])); }
  static Json jv(const V &v)
  {
    Json a = Json::array();
    a.push(num(v.x));
    a.push(num(v.y));
    return a;
  }
  static Json jm(const L &m)
  {
    Json a = Json::array(), r0 = Json::array(), r1 = Json::array();
    r0.push(num(m.vx.x)); r0.push(num(m.vy.x));
    r1.push(num(m.vx.y)); r1.push(num(m.vy.y));
    a.push(r0); a.push(r1);
    return a;
  }
  static Json jaff(const AF &x)
  {
    Json o = Json::object();
    o.set("l", jm(x.l));
    o.set("p", jv(x.p));
    return o;
  }
  Json jvS(const V &v)
  {
    Json a = Json::array();
    a.push(fix(v.x, nan));
    a.push(fix(v.y, nan));
    return a;
  }
  Json jmS(const L &m)
  {
    Json a = Json::array(), r0 = Json::array(), r1 = Json::array();
    r0.push(fix(m.vx.x, nan)); r0.push(fix(m.vy.x, nan));
    r1.push(fix(m.vx.y, nan)); r1.push(fix(m.vy.y, nan));
    a.push(r0); a.push(r1);
    return a;
  }
  Json jaffS(const AF &x)
  {
    Json o = Json::object();
    o.set("l", jmS(x.l));
    o.set("p", jvS(x.p));
    return o;
  }

  Json step(const std::string &a, const Json &arg)
  {
    Json o = Json::object();
    nan = false;
    if (a == "Unary2") {
      const L m = mat(arg["m"]);
      const L mr = matRowMajor(arg["m"]);
      o.set("det", num(m.det()));
      o.set("adjoint", jm(m.adjoint()));
      o.set("transposed", jm(m.transposed()));
      Json rows = Json::array();
      rows.push(jv(m.row0()));
      rows.push(jv(m.row1()));
      o.set("rows", rows);
      o.set("mat", jm(m));
      Json rc = Json::array(), cc = Json::array();
      rc.push(jv(mr.vx)); rc.push(jv(mr.vy));
      cc.push(jv(m.vx)); cc.push(jv(m.vy));
      o.set("rm_cols", rc);
      o.set("cc_cols", cc);
      o.set("neg", jm(-m));
    } else if (a == "Inverse2") {
      const L m = mat(arg["m"]);
      const L inv = m.inverse();
      o.set("inverse", jm(inv));
      o.set("rcp", jm(rcp(m)));
      o.set("mulinv", jm(m * inv));
      o.set("invmul", jm(inv * m));
      o.set("div", jm(m / m));
      o.set("inverse_s", jmS(inv));
      o.set("rcp_s", jmS(rcp(m)));
    } else if (a == "MulVec2") {
      const L m = mat(arg["m"]);
      Json mv = Json::array();
      const Json &vs = arg["vs"];
      for (size_t k = 0; k < vs.size(); ++k) mv.push(jv(m * vec(vs[k])));
      o.set("mulvec", mv);
    } else if (a == "Pair2") {
      const L x = mat(arg["a"]), y = mat(arg["b"]);
      o.set("mul", jm(x * y));
      L z = x;
      z *= y;
      o.set("muleq", jm(z));
      o.set("detmul", num((x * y).det()));
      o.set("detprod", num(x.det() * y.det()));
      o.set("add", jm(x + y));
      o.set("sub", jm(x - y));
    } else if (a == "Rotate2") {
      o.set("m", jm(L::rotate((T)angleOf(arg))));
    } else if (a == "Ctor2") {
      const V s = vec(arg["s"]);
      o.set("linscale", jm(L::scale(s)));
      o.set("scale", jaff(AF::scale(s)));
      o.set("translate", jaff(AF::translate(s)));
      o.set("one", jaff(AF(one)));
      o.set("linone", jm(L(one)));
      o.set("linzero", jm(L(zero)));
    } else if (a == "Aff2Pair") {
      const AF x = aff(arg["a"]), y = aff(arg["b"]);
      o.set("mul", jaff(x * y));
      if (arg["inv"].boolean()) {
        const AF r = rcp(x);
        o.set("rcp", jaff(r));
        o.set("rcpmul", jaff(r * x));
        o.set("mulrcp", jaff(x * r));
        o.set("rcp_s", jaffS(r));
      }
    } else if (a == "Aff2Rot") {
      const T r = (T)angleOf(arg);
      o.set("lin", jm(L::rotate(r)));
      o.set("plain", jaff(AF::rotate(r)));
    } else if (a == "Aff2RotAbout") {
      if (!RotateAbout2<T>::run(arg, (T)angleOf(arg), o)) o.set("ret", "n/a");
    } else if (a == "GenMat2") {
      const int ex = (int)arg["e"].num();
      const T d = T(8), sc = (T)std::ldexp(1.0, ex), un2 = (T)std::ldexp(1.0, -2 * ex), un4 = (T)std::ldexp(1.0, -4 * ex);
      const Json &ka = arg["ka"], &kb = arg["kb"];
      const L x = sc * L(V(e(ka, 0, 0) / d, e(ka, 1, 0) / d), V(e(ka, 0, 1) / d, e(ka, 1, 1) / d));
      const L y = sc * L(V(e(kb, 0, 0) / d, e(kb, 1, 0) / d), V(e(kb, 0, 1) / d, e(kb, 1, 1) / d));
      const L inv = x.inverse();
      o.set("det", fix((double)(x.det() * un2), nan));
      o.set("detb", fix((double)(y.det() * un2), nan));
      o.set("detab", fix((double)((x * y).det() * un4), nan));
      o.set("inv", jmS(sc * inv));
      o.set("minv", jmS(x * inv));
      o.set("invm", jmS(inv * x));
      o.set("orth", jmS(x.orthogonal()));
    } else if (a == "Ops2") {
      const L x = mat(arg["a"]), y = mat(arg["b"]), x2 = mat(arg["a2"]);
      o.set("smul2", jm(T(2) * x));
      o.set("smulneg", jm(T(-3) * x));
      o.set("divs", jm(x2 / T(2)));
      o.set("plus", jm(+x));
      { L z = x; z *= z; o.set("selfmul", jm(z)); }
      o.set("eq", x == y);
      o.set("ne", x != y);
      o.set("eqself", x == x);
      o.set("neself", x != x);
      { L c(x); o.set("copy", jm(c)); }
      { L q(zero); q = x; o.set("assign", jm(q)); }
      if (arg["invb"].boolean()) {
        o.set("div", jm(x / y));
        L z = x;
        z /= y;
        o.set("diveq", jm(z));
      }
      if (arg["inva"].boolean()) {
        L z = x;
        z /= z;
        o.set("selfdiv", jm(z));
      }
    } else if (a == "Convert2") {
      const L x = mat(arg["l"]);
      o.set("lin_f", K2<float>::jm(LinearSpace2<vec_t<float, 2>>(x)));
      o.set("lin_d", K2<double>::jm(LinearSpace2<vec_t<double, 2>>(x)));
    } else if (a == "Orthogonal2") {
      const L q = mat(arg["m"]).orthogonal();
      o.set("q_s", jmS(q));
      o.set("q", jm(q));
    } else {
      o.set("ret", "unknown action " + a);
      return o;
    }
    o.set("nan", nan);
    return o;
  }
};

template <>
struct RotateAbout2<float>
{
  static bool run(const Json &arg, float r, Json &o)
  {
    o.set("about", K2<float>::jaff(AffineSpace2f::rotate(K2<float>::vec(arg["c"]), r)));
    return true;
  }
};

// ---------------------------------------------------------------------------------------
static bool is2D(const std::string &a)
{
  return a == "Unary2" || a == "Inverse2" || a == "MulVec2" || a == "Pair2" || a == "Rotate2" || a == "Ctor2" || a == "Aff2Pair"
      || a == "Aff2Rot" || a == "Aff2RotAbout" || a == "Orthogonal2" || a == "GenMat2" || a == "Ops2" || a == "Convert2";
}

struct World
{
  std::string variant;
  K3<float, false> f3;
  K3<double, false> d3;
  K3<float, true> fa3;
  K2<float> f2;
  K2<double> d2;

  World(const Json &hist) : variant(hist["variant"].str()) {}

  Json step(const Json &act)
  {
    const std::string &a = act["a"].str();
    const Json &arg = act["arg"];
    if (is2D(a)) {
      if (variant == "f") return f2.step(a, arg);
      if (variant == "d") return d2.step(a, arg);
    } else {
      if (variant == "f") return f3.step(a, arg);
      if (variant == "d") return d3.step(a, arg);
      if (variant == "fa") return fa3.step(a, arg);
    }
    Json o = Json::object();
    o.set("ret", "n/a");
    return o;
  }
};

int main(int argc, char **argv)
{
  return vdrv::run<World>(argc, argv);
}
