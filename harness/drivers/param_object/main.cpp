// Conformance driver for spec/containers/ParamObject.tla (property C10,
// ParameterizedObject part).  The query flag and the parameter order are read
// through a subclass (params_begin/params_end are protected).
#include <string>
#include "driver.h"
#include "rkcommon/utility/ParameterizedObject.h"

using rkcommon::utility::ParameterizedObject;
using vj::Json;

static std::string nameOf(long long n) { return "p" + std::to_string(n); }

struct Probe : ParameterizedObject
{
  Json params()
  {
    Json a = Json::array();
    for (auto it = params_begin(); it != params_end(); ++it) {
      Param &p = **it;
      Json row = Json::array();
      row.push(p.name.size() > 1 && p.name[0] == 'p' ? Json(atoll(p.name.c_str() + 1)) : Json("unmapped:" + p.name));
      if (p.data.is<int>()) { row.push("int"); row.push(p.data.get<int>()); }
      else if (p.data.is<float>()) { row.push("float"); row.push((long long)(p.data.get<float>() - 0.5f)); }
      else if (p.data.is<std::string>()) { row.push("str"); row.push(atoll(p.data.get<std::string>().c_str() + 1)); }
      else if (p.data.is<bool>()) { row.push("bool"); row.push(p.data.get<bool>() ? 1 : 2); }
      else { row.push("other"); row.push(0); }
      row.push(p.query);
      a.push(row);
    }
    return a;
  }
};

struct World
{
  Probe obj;
  World(const Json &) {}
  Json step(const Json &act)
  {
    const std::string &a = act["a"].str();
    const Json &arg = act["arg"];
    Json o = Json::object();
    if (a == "SetParam") {
      const std::string n = nameOf(arg["n"].num());
      const std::string &t = arg["t"].str();
      long long v = arg["v"].num();
      if (t == "int") obj.setParam<int>(n, (int)v);
      else if (t == "float") obj.setParam<float>(n, (float)v + 0.5f);
      else if (t == "str") obj.setParam<std::string>(n, "s" + std::to_string(v));
      else if (t == "bool") obj.setParam<bool>(n, v == 1);
      o.set("ret", "void");
    } else if (a == "GetParam") {
      const std::string n = nameOf(arg["n"].num());
      const std::string &t = arg["t"].str();
      long long d = arg["d"].num();
      if (t == "int") o.set("ret", obj.getParam<int>(n, (int)d));
      else if (t == "float") o.set("ret", (long long)(obj.getParam<float>(n, (float)d + 0.5f) - 0.5f));
      else if (t == "str") o.set("ret", atoll(obj.getParam<std::string>(n, "s" + std::to_string(d)).c_str() + 1));
      else if (t == "bool") {
        // bool has only two values: encode "default" by asking twice with both defaults
        bool r1 = obj.getParam<bool>(n, true), r2 = obj.getParam<bool>(n, false);
        if (r1 != r2) o.set("ret", d); else o.set("ret", r1 ? 1 : 2);
      }
    } else if (a == "HasParam") {
      o.set("ret", obj.hasParam(nameOf(arg["n"].num())));
    } else if (a == "RemoveParam") {
      obj.removeParam(nameOf(arg["n"].num()));
      o.set("ret", "void");
    } else if (a == "ResetQuery") {
      obj.resetAllParamQueryStatus();
      o.set("ret", "void");
    } else {
      o.set("ret", "unknown action " + a);
    }
    Json ps = obj.params();
    o.set("size", (long long)ps.size());
    o.set("params", ps);
    return o;
  }
};

int main(int argc, char **argv)
{
  return vdrv::run<World>(argc, argv);
}
