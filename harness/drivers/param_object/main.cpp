// Conformance driver for spec/containers/ParamObject.tla (property C10,
// ParameterizedObject part).  The query flag and the parameter order are read
// through a subclass (params_begin/params_end/findParam are protected).
//
// Type tags of the specification and the concrete C++ types they stand for:
//   int, uint (unsigned), i64 (int64_t), short, char, float, double, bool,
//   str (std::string), cstr (const char *), ptr (void *), vec3f, vec3i, vec2f
//   (rkcommon::math), thr (a type whose copy constructor throws on request),
//   weq (a type whose operator== compares a part of the value only);
//   "none" is reported for a parameter without a value.
// Several of them differ only in signedness / width / element type, have mangled
// names of equal length or with a common prefix, or convert into one another.
// "namemap" (input line, default 0) selects the concrete names the model names
// 1, 2, 3 stand for (empty, NUL bytes, bytes >= 0x80, equal up to a NUL / a long
// prefix); every map is injective on the names used with it.
#include <cmath>
#include <cstdint>
#include <string>
#include "driver.h"
#include "rkcommon/math/vec.h"
#include "rkcommon/utility/ParameterizedObject.h"

using rkcommon::utility::ParameterizedObject;
using rkcommon::math::vec2f;
using rkcommon::math::vec3f;
using rkcommon::math::vec3i;
using vj::Json;

static int g_namemap = 0;

static std::string hexOf(const std::string &s)
{
  static const char *d = "0123456789abcdef";
  std::string r;
  for (size_t i = 0; i < s.size() && i < 40; ++i) {
    r += d[(unsigned char)s[i] >> 4];
    r += d[(unsigned char)s[i] & 15];
  }
  if (s.size() > 40) r += "...(" + std::to_string(s.size()) + " bytes)";
  return r;
}

static bool nameTable(long long n, std::string &out)
{
  if (n < 1 || n > 3) return false;
  static const std::string L(1000, 'n');
  switch (g_namemap) {
  case 1: out = std::string((size_t)(n - 1), '\0'); return true;                                        // "", "\0", "\0\0"
  case 2: out = n == 1 ? std::string("a") : n == 2 ? std::string("a\0", 2) : std::string("ab"); return true;
  case 3: out = n == 1 ? std::string("\xff") : n == 2 ? std::string("\x80") : std::string("\xff\xff"); return true;
  case 4: out = n == 1 ? L + "1" : n == 2 ? L + "2" : L; return true;
  }
  return false;
}
static std::string nameOf(long long n)
{
  std::string o;
  if (nameTable(n, o)) return o;
  return "p" + std::to_string(n);
}
static Json nameBack(const std::string &s)
{
  for (long long n = 1; n <= 3; ++n) { std::string o; if (nameTable(n, o) && o == s) return Json(n); }
  if (s.size() < 2 || s.size() > 11 || s[0] != 'p') return Json("unmapped:" + hexOf(s));
  for (size_t i = 1; i < s.size(); ++i) if (s[i] < '0' || s[i] > '9') return Json("unmapped:" + hexOf(s));
  long long n = atoll(s.c_str() + 1);
  if (g_namemap != 0 && n >= 1 && n <= 3) return Json("unmapped:" + hexOf(s));
  return Json(n);
}

// a value type whose copy constructor throws on request
struct Boom : std::exception
{
  const char *what() const noexcept override { return "requested failure"; }
};
struct Thr
{
  int v;
  static bool armed;
  explicit Thr(int x = 0) : v(x) {}
  Thr(const Thr &o) : v(o.v) { if (armed) { armed = false; throw Boom(); } }
  Thr &operator=(const Thr &o) { if (armed) { armed = false; throw Boom(); } v = o.v; return *this; }
};
bool Thr::armed = false;

static const char *cstrOf(long long v)
{
  static std::vector<std::string> table;
  if (table.empty()) for (int i = 0; i < 128; ++i) table.push_back("c" + std::to_string(i));
  return table[(size_t)(v & 127)].c_str();
}
static char PTR_TARGET[128];

// model payload v <-> concrete value of each type
template <typename T> struct Val;
template <> struct Val<int>      { static int make(long long v) { return (int)v; }                       static Json back(int x) { return Json(x); } };
template <> struct Val<unsigned> { static unsigned make(long long v) { return 3000000000u + (unsigned)v; } static Json back(unsigned x) { return Json((long long)x - 3000000000ll); } };
template <> struct Val<int64_t>  { static int64_t make(long long v) { return ((int64_t)1 << 40) + v; }   static Json back(int64_t x) { return Json((long long)(x - ((int64_t)1 << 40))); } };
template <> struct Val<short>    { static short make(long long v) { return (short)-v; }                  static Json back(short x) { return Json(-(int)x); } };
template <> struct Val<char>     { static char make(long long v) { return (char)v; }                       static Json back(char x) { return Json((int)x); } };
// float / double: the model values 1 and 2 are the two zeros - values that operator== calls equal although they are
// distinguishable (an overwrite of one by the other is a write like any other: seeded/C10-08)
template <> struct Val<float>
{
  static float make(long long v) { return v == 1 ? 0.0f : v == 2 ? -0.0f : (float)v + 0.5f; }
  static Json back(float x) { return x == 0.0f ? Json(std::signbit(x) ? 2 : 1) : Json((long long)(x - 0.5f)); }
};
template <> struct Val<double>
{
  static double make(long long v) { return v == 1 ? 0.0 : v == 2 ? -0.0 : (double)v + 0.25; }
  static Json back(double x) { return x == 0.0 ? Json(std::signbit(x) ? 2 : 1) : Json((long long)(x - 0.25)); }
};
// weq: a user type whose operator== looks at a part of the value only (every two values compare equal)
struct Weq
{
  int id;
  int payload;
  bool operator==(const Weq &o) const { return id == o.id; }
  bool operator!=(const Weq &o) const { return id != o.id; }
};
template <> struct Val<Weq> { static Weq make(long long v) { Weq w; w.id = 7; w.payload = (int)v; return w; } static Json back(const Weq &x) { return x.id == 7 ? Json(x.payload) : Json("unmapped weq"); } };
template <> struct Val<bool>     { static bool make(long long v) { return v == 1; }                      static Json back(bool x) { return Json(x ? 1 : 2); } };
template <> struct Val<std::string>
{
  static std::string make(long long v) { return "s" + std::to_string(v); }
  static Json back(const std::string &s) { return s.size() > 1 && s[0] == 's' ? Json(atoll(s.c_str() + 1)) : Json("unmapped:" + hexOf(s)); }
};
template <> struct Val<const char *>
{
  static const char *make(long long v) { return cstrOf(v); }
  static Json back(const char *s) { return s && s[0] == 'c' && s[1] >= '0' && s[1] <= '9' ? Json(atoll(s + 1)) : Json("unmapped cstr"); }
};
template <> struct Val<void *>
{
  static void *make(long long v) { return (void *)(PTR_TARGET + (v & 127)); }
  static Json back(void *p) { return Json((long long)((char *)p - PTR_TARGET)); }
};
template <> struct Val<vec3f> { static vec3f make(long long v) { return vec3f((float)v, (float)v + 0.5f, -(float)v); } static Json back(const vec3f &x) { return x.y == x.x + 0.5f && x.z == -x.x ? Json((long long)x.x) : Json("unmapped vec3f"); } };
template <> struct Val<vec3i> { static vec3i make(long long v) { return vec3i((int)v, (int)v + 1, -(int)v); } static Json back(const vec3i &x) { return x.y == x.x + 1 && x.z == -x.x ? Json(x.x) : Json("unmapped vec3i"); } };
template <> struct Val<vec2f> { static vec2f make(long long v) { return vec2f((float)v, (float)v + 0.5f); } static Json back(const vec2f &x) { return x.y == x.x + 0.5f ? Json((long long)x.x) : Json("unmapped vec2f"); } };
template <> struct Val<Thr>   { static Thr make(long long v) { return Thr((int)v); } static Json back(const Thr &x) { return Json(x.v); } };

typedef const char *cstr_t;
typedef void *ptr_t;
// one line per type tag
#define FOR_EACH_TYPE(X) \
  X("int", int) X("uint", unsigned) X("i64", int64_t) X("short", short) X("char", char) X("float", float) X("double", double) \
  X("str", std::string) X("cstr", cstr_t) X("ptr", ptr_t) X("vec3f", vec3f) X("vec3i", vec3i) X("vec2f", vec2f) X("thr", Thr) X("weq", Weq)
  // ("bool" is handled apart in getParam: it has only two values)

struct Probe : ParameterizedObject
{
  typedef ParameterizedObject::Param Param;
  size_t count() { return (size_t)(params_end() - params_begin()); }
  Param &at(size_t i) { return **(params_begin() + (long)i); }
  Param *find(const std::string &n, bool add) { return findParam(n, add); }

  static void describe(Param &p, Json &row)
  {
    if (!p.data.valid()) { row.push("none"); row.push(0); return; }
    if (p.data.is<bool>()) { row.push("bool"); row.push(Val<bool>::back(p.data.get<bool>())); return; }
#define X(tag, T) if (p.data.is<T>()) { row.push(tag); row.push(Val<T>::back(p.data.get<T>())); return; }
    FOR_EACH_TYPE(X)
#undef X
    row.push("other");
    row.push(0);
  }

  Json params()
  {
    Json a = Json::array();
    for (auto it = params_begin(); it != params_end(); ++it) {
      Param &p = **it;
      Json row = Json::array();
      // the lookup by name must find this very parameter
      if (findParam(p.name, false) != &p) row.push("findParam(name) does not return the parameter listed under that name: " + hexOf(p.name));
      else row.push(nameBack(p.name));
      describe(p, row);
      row.push(p.query);
      a.push(row);
    }
    return a;
  }
};

struct World
{
  Probe obj;
  Probe other;        // "shadow" runs: an unrelated object is used between any two steps; nothing of it is reported
  bool shadow;
  long long tick;
  World(const Json &hist) : shadow(hist.has("shadow") && hist["shadow"].num() != 0), tick(0)
  {
    g_namemap = hist.has("namemap") ? (int)hist["namemap"].num() : 0;
  }
  // calls on an unrelated instance (same names, other types / values, reads that mark its parameters queried, removals)
  void perturb(const Json &arg)
  {
    ++tick;
    long long n = arg.has("n") ? arg["n"].num() : tick % 3 + 1;
    other.setParam<double>(nameOf(n), 7.25 + (double)tick);
    (void)other.getParam<double>(nameOf(n), 0.0);
    (void)other.getParam<int>(nameOf(n % 3 + 1), 0);
    (void)other.hasParam(nameOf((n + 1) % 3 + 1));
    other.removeParam(nameOf((n + tick) % 3 + 1));
    if (tick % 5 == 0) other.resetAllParamQueryStatus();
  }

  void set(const std::string &n, const std::string &t, long long v)
  {
    if (t == "bool") { obj.setParam<bool>(n, Val<bool>::make(v)); return; }
#define X(tag, T) if (t == tag) { obj.setParam<T>(n, Val<T>::make(v)); return; }
    FOR_EACH_TYPE(X)
#undef X
    throw std::runtime_error("driver: unknown type tag " + t);
  }
  Json get(const std::string &n, const std::string &t, long long d)
  {
    if (t == "bool") {
      // bool has only two values: the default is recognised by asking twice with both defaults
      bool r1 = obj.getParam<bool>(n, true), r2 = obj.getParam<bool>(n, false);
      return r1 != r2 ? Json(d) : Val<bool>::back(r1);
    }
#define X(tag, T) if (t == tag) return Val<T>::back(obj.getParam<T>(n, Val<T>::make(d)));
    FOR_EACH_TYPE(X)
#undef X
    throw std::runtime_error("driver: unknown type tag " + t);
  }
  // setParam(n, <const reference to the value held by parameter `src`>)
  bool setFrom(const std::string &n, Probe::Param &src)
  {
    if (src.data.is<bool>()) { obj.setParam<bool>(n, src.data.get<bool>()); return true; }
#define X(tag, T) if (src.data.is<T>()) { const T &ref = src.data.get<T>(); obj.setParam<T>(n, ref); return true; }
    FOR_EACH_TYPE(X)
#undef X
    return false;
  }

  Json step(const Json &act)
  {
    const std::string &a = act["a"].str();
    const Json &arg = act["arg"];
    Json o = Json::object();
    if (shadow) perturb(arg);
    if (a == "SetParam") {
      set(nameOf(arg["n"].num()), arg["t"].str(), arg["v"].num());
      o.set("ret", "void");
    } else if (a == "GetParam") {
      o.set("ret", get(nameOf(arg["n"].num()), arg["t"].str(), arg["d"].num()));
    } else if (a == "HasParam") {
      o.set("ret", obj.hasParam(nameOf(arg["n"].num())));
    } else if (a == "RemoveParam") {
      obj.removeParam(nameOf(arg["n"].num()));
      o.set("ret", "void");
    } else if (a == "RemoveParamAt") {
      // the name argument is the name object stored in the parameter
      if ((size_t)arg["i"].num() >= obj.count()) {
        o.set("ret", "not-callable");
      } else {
        obj.removeParam(obj.at((size_t)arg["i"].num()).name);
        o.set("ret", "void");
      }
    } else if (a == "SetParamFrom") {
      Probe::Param *src = obj.find(nameOf(arg["n2"].num()), false);
      if (!src || !src->data.valid()) o.set("ret", "not-callable");   // no value to refer to
      else if (arg["n"].num() == arg["n2"].num()) o.set("ret", setFrom(src->name, *src) ? "void" : "driver: value of a type without tag");   // the name aliases too
      else o.set("ret", setFrom(nameOf(arg["n"].num()), *src) ? "void" : "driver: value of a type without tag");
    } else if (a == "FindOrAdd") {
      obj.find(nameOf(arg["n"].num()), true);
      o.set("ret", "void");
    } else if (a == "SetParamThrows") {
      Thr x(7);
      Thr::armed = true;
      try {
        obj.setParam<Thr>(nameOf(arg["n"].num()), x);
        o.set("ret", "void");
      } catch (const Boom &) {
        o.set("ret", "throws");
      }
      Thr::armed = false;
    } else if (a == "ResetQuery") {
      obj.resetAllParamQueryStatus();
      o.set("ret", "void");
    } else if (a == "SetRange") {
      long long lo = arg["lo"].num(), n = arg["n"].num(), d = arg["d"].num();
      for (long long k = lo; k < lo + n; ++k) set(nameOf(k), arg["t"].str(), ((k * 7 + d) % 97) + 1);
      o.set("ret", "void");
    } else if (a == "GetRange") {
      long long lo = arg["lo"].num(), n = arg["n"].num(), hits = 0;
      for (long long k = lo; k < lo + n; ++k) {
        Json r = get(nameOf(k), arg["t"].str(), 99);
        if (!(r == Json(99))) ++hits;
      }
      o.set("ret", hits);
    } else if (a == "RemoveEvery") {
      long long lo = arg["lo"].num(), n = arg["n"].num(), st = arg["st"].num(), r = arg["r"].num();
      if (arg["how"].str() == "name") {
        for (long long k = lo; k < lo + n; ++k)
          if (k % st == r) obj.removeParam(nameOf(k));
      } else {
        size_t i = 0;
        while (i < obj.count()) {
          Json nj = nameBack(obj.at(i).name);
          long long k = nj.type == Json::Int ? nj.num() : -1;
          if (k >= lo && k < lo + n && k % st == r) obj.removeParam(obj.at(i).name);
          else ++i;
        }
      }
      o.set("ret", "void");
    } else {
      o.set("ret", "unknown action " + a);
    }
    Json ps = obj.params();
    o.set("size", (long long)ps.size());
    o.set("params", ps);
    return o;
  }
};

int main(int argc, char **argv)
{
  return vdrv::run<World>(argc, argv);
}
