// Free-running stress of the real AsyncLoop WITHOUT hook points (built with the guard off): rapid
// start()/stop() cycles against a spinning loop with a very short body.  The callbacks behind the hook
// points are full fences, so the instrumented build cannot show a store-buffer reordering of the
// insideLoopBody / shouldBeRunning handshake (spec/tasking/AsyncLoopTSO.tla); this build can.
//
// Observation without perturbing the handshake: the controlling thread publishes a token after stop()
// has returned and withdraws it before the next start().  A body that reads a token (at its first or at
// its last instruction) ran while the loop was stopped:
//     token visible at body entry          =>  StopRet ... BodyEnter            (body began after stop() returned)
//     token visible only at body exit      =>  BodyEnter ... StopRet ... BodyExit (stop() returned with the body active)
// Both orders are what the recorded contract trace says; a body that saw no token is placed inside its
// running period.  Nothing is judged here: the first --record cycles and every cycle with a token
// observation are written as contract traces, TLC validates them against AsyncLoopContract.
// No shared read-modify-write is executed by the controlling thread between its seeded delay and stop(),
// and none by the loop thread between publishing insideLoopBody and its first body instruction.
#ifdef RKCOMMON_VERIF
#error "this driver must be built with the verification guard off"
#endif
#include <atomic>
#include <chrono>
#include <cstdint>
#include <cstdio>
#include <cstdlib>
#include <memory>
#include <random>
#include <string>
#include <thread>
#include <vector>
#include "rkcommon/tasking/AsyncLoop.h"
#include "rkcommon/tasking/tasking_system_init.h"

namespace {
  struct alignas(64) Line { std::atomic<uint64_t> v{0}; };
  Line token;      // 0 while a start()..stop() period may be open; c + 1 after stop() of cycle c has returned
  Line cycleNo;    // written before start()
  Line bodiesPub;  // number of bodies so far (written by the loop thread only)
  struct Late { uint64_t cycle; bool atEntry; };
  std::vector<Late> lateLog;              // loop thread only; read after it has been joined / has retired
  std::vector<uint32_t> perCycle;         // loop thread only: bodies counted per recorded cycle
  uint64_t localBodies = 0;
}

int main(int argc, char **argv)
{
  std::string out, method = "THREAD";
  long cycles = 20000, record = 20, seed = 1, maxsusp = 20;
  for (int i = 1; i + 1 < argc; i += 2) {
    std::string a = argv[i];
    if (a == "--out") out = argv[i + 1];
    else if (a == "--cycles") cycles = atol(argv[i + 1]);
    else if (a == "--record") record = atol(argv[i + 1]);
    else if (a == "--seed") seed = atol(argv[i + 1]);
    else if (a == "--method") method = argv[i + 1];
  }
  rkcommon::tasking::initTaskingSystem(4);
  perCycle.assign((size_t)cycles + 1, 0);
  lateLog.reserve(4096);
  std::mt19937 rng((unsigned)seed);
  {
    auto body = [&]() {
      const uint64_t t1 = token.v.load(std::memory_order_relaxed);
      const uint64_t c = cycleNo.v.load(std::memory_order_relaxed);
      ++localBodies;
      bodiesPub.v.store(localBodies, std::memory_order_relaxed);
      if (c < perCycle.size()) ++perCycle[c];
      for (volatile unsigned i = 0; i < 60; ++i) { }   // a body of a few dozen ns: a late body is still inside when the token appears
      const uint64_t t2 = token.v.load(std::memory_order_relaxed);
      if (t1 != 0) { if (lateLog.size() < 4000) lateLog.push_back({t1 - 1, true}); }
      else if (t2 != 0) { if (lateLog.size() < 4000) lateLog.push_back({t2 - 1, false}); }
    };
    std::unique_ptr<rkcommon::tasking::AsyncLoop> loop(
        new rkcommon::tasking::AsyncLoop(body, method == "TASK" ? rkcommon::tasking::AsyncLoop::TASK : rkcommon::tasking::AsyncLoop::THREAD));
    for (long c = 0; c < cycles; ++c) {
      cycleNo.v.store((uint64_t)c);
      token.v.store(0);                       // seq_cst: withdrawn before start() can set shouldBeRunning
      const uint64_t b0 = bodiesPub.v.load(std::memory_order_relaxed);
      loop->start();
      // let the loop spin: wait for a few bodies (bounded), then a seeded tiny delay during which this
      // thread touches nothing the loop thread touches
      auto t0 = std::chrono::steady_clock::now();
      while (bodiesPub.v.load(std::memory_order_relaxed) < b0 + 3 &&
             std::chrono::steady_clock::now() - t0 < std::chrono::milliseconds(200)) { }
      for (volatile unsigned k = rng() % 300; k > 0; --k) { }
      loop->stop();
      token.v.store((uint64_t)c + 1, std::memory_order_release);
      // stay stopped for a moment so that a late body can observe the token
      for (volatile unsigned k = 50 + rng() % 100; k > 0; --k) { }
    }
    token.v.store(0);
    loop.reset();
  }
  if (method == "TASK")   // a TASK loop is not joined by the destructor: let the retired task leave the lambda
    std::this_thread::sleep_for(std::chrono::milliseconds(300));
  std::atomic_thread_fence(std::memory_order_seq_cst);

  FILE *f = fopen(out.c_str(), "w");
  if (!f) { perror("out"); return 3; }
  std::vector<int> lateAt((size_t)cycles, 0);   // bit 1: a body entered after StopRet, bit 2: a body spanned StopRet
  for (const Late &l : lateLog) if (l.cycle < (uint64_t)cycles) lateAt[l.cycle] |= l.atEntry ? 1 : 2;
  long written = 0, susp = 0, hits = 0;
  for (long c = 0; c < cycles; ++c) {
    const bool late = lateAt[c] != 0;
    if (late) ++hits;
    if (!(c < record || (late && susp < maxsusp))) continue;
    if (late) ++susp;
    std::string ev = "\"StartCall\",\"StartRet\"";
    const unsigned n = perCycle[c] < 2 ? perCycle[c] : 2;
    for (unsigned k = 0; k < n; ++k) ev += ",\"BodyEnter\",\"BodyExit\"";
    ev += ",\"StopCall\"";
    if (lateAt[c] & 2) ev += ",\"BodyEnter\",\"StopRet\",\"BodyExit\"";
    else ev += ",\"StopRet\"";
    if (lateAt[c] & 1) ev += ",\"BodyEnter\",\"BodyExit\"";
    fprintf(f, "{\"cycle\":%ld,\"suspicious\":%s,\"events\":[%s]}\n", c, late ? "true" : "false", ev.c_str());
    ++written;
  }
  fprintf(f, "{\"summary\":true,\"cycles\":%ld,\"written\":%ld,\"prefilter_hits\":%ld,\"bodies\":%llu}\n",
          cycles, written, hits, (unsigned long long)localBodies);
  fclose(f);
  fflush(nullptr);
  _exit(0);
}
