// Conformance driver for spec/array3D/*.tla (property C17).
//
// Interprets the actions / cases of the specifications on the real rkcommon code
//   rkcommon/utility/multidim_index_sequence.h   (index_sequence_2D / _3D, iterator)
//   rkcommon/array3D/for_each.h                  (longProduct, longIndex, coordsOf, for_each)
//   rkcommon/array3D/Array3D.h                   (ActualArray3D and the adaptors)
// and reports what it observed.  It decides nothing: expected values are computed
// by TLC (IndexMapsGen, IndexMapsBig, Array3DCases, the state graph of Array3D) or
// the observations are validated by TLC (Array3DTrace, IndexMapsTrace).
//
// Conventions of the reports:
//  * coordinates are arrays [x,y] / [x,y,z]; tables of an array (`dump`, `table`)
//    list get(c) for every c inside size(), x running fastest, then y, then z -
//    the order the specification calls "flattened";
//  * numbers that may exceed 2^31 (TLC integers are 32 bit) are arrays of base
//    2^15 digits, least significant first, no leading zero digit ("limbs").
#include <algorithm>
#include <cassert>
#include <map>
#include <memory>
#include <string>
#include <sys/mman.h>
#include <unistd.h>
#include "driver.h"
#include "rkcommon/array3D/Array3D.h"
#include "rkcommon/utility/multidim_index_sequence.h"

using namespace rkcommon;
using namespace rkcommon::math;
using namespace rkcommon::array3D;
using vj::Json;

typedef vec_t<size_t, 2> vec2sz;
typedef vec_t<size_t, 3> vec3sz;

// ---------------------------------------------------------------------------
// conversions
// ---------------------------------------------------------------------------
static Json toLimbs(unsigned long long v)
{
  Json a = Json::array();
  do {
    a.push((long long)(v & 32767ULL));
    v >>= 15;
  } while (v != 0);
  return a;
}

static unsigned long long fromLimbs(const Json &a)
{
  unsigned long long v = 0;
  for (size_t i = a.size(); i-- > 0;)
    v = (v << 15) | (unsigned long long)a[i].num();
  return v;
}

static Json signedLimbs(long long v)
{
  if (v < 0) return Json("negative:" + std::to_string(v));
  return toLimbs((unsigned long long)v);
}

static vec3i v3i(const Json &a)
{
  return vec3i((int)a[(size_t)0].num(), (int)a[1].num(), (int)a[2].num());
}
static vec3sz v3sz(const Json &a)
{
  return vec3sz((size_t)a[(size_t)0].num(), (size_t)a[1].num(), (size_t)a[2].num());
}
static vec2sz v2sz(const Json &a)
{
  return vec2sz((size_t)a[(size_t)0].num(), (size_t)a[1].num());
}
static vec3sz l3sz(const Json &a)
{
  return vec3sz((size_t)fromLimbs(a[(size_t)0]), (size_t)fromLimbs(a[1]), (size_t)fromLimbs(a[2]));
}
static vec2sz l2sz(const Json &a)
{
  return vec2sz((size_t)fromLimbs(a[(size_t)0]), (size_t)fromLimbs(a[1]));
}
static vec3i l3i(const Json &a)
{
  return vec3i((int)fromLimbs(a[(size_t)0]), (int)fromLimbs(a[1]), (int)fromLimbs(a[2]));
}
template <typename V>
static Json j3(const V &v)
{
  Json a = Json::array();
  a.push((long long)v.x);
  a.push((long long)v.y);
  a.push((long long)v.z);
  return a;
}
template <typename V>
static Json j2(const V &v)
{
  Json a = Json::array();
  a.push((long long)v.x);
  a.push((long long)v.y);
  return a;
}
static Json lj3(const vec3sz &v)
{
  Json a = Json::array();
  a.push(toLimbs(v.x));
  a.push(toLimbs(v.y));
  a.push(toLimbs(v.z));
  return a;
}
static Json lj2(const vec2sz &v)
{
  Json a = Json::array();
  a.push(toLimbs(v.x));
  a.push(toLimbs(v.y));
  return a;
}

// ---------------------------------------------------------------------------
// index maps on small extents: complete tables
// ---------------------------------------------------------------------------
template <int N> struct SeqTraits;
template <> struct SeqTraits<2>
{
  typedef vec2sz vec;
  static vec from(const Json &a) { return v2sz(a); }
  static Json to(const vec &v) { return j2(v); }
};
template <> struct SeqTraits<3>
{
  typedef vec3sz vec;
  static vec from(const Json &a) { return v3sz(a); }
  static Json to(const vec &v) { return j3(v); }
};

// every way of writing the loop over begin() .. end(); a loop body never runs more than `cap` times
template <int N>
static void walkStyles(const multidim_index_sequence<N> &seq, bool nonempty, Json &o)
{
  typedef SeqTraits<N> T;
  typedef multidim_index_iterator<N> It;
  const size_t total = seq.total_indices();
  const size_t cap = 8 * total + 16;
  size_t n;
  {  // range-for
    Json w = Json::array();
    n = 0;
    for (auto c : seq) { w.push(T::to(c)); if (++n > cap) break; }
    o.set("walk_range_for", w);
  }
  {  // for (it = begin; it != end; ++it)
    Json w = Json::array();
    n = 0;
    for (It it = seq.begin(); it != seq.end(); ++it) { w.push(T::to(*it)); if (++n > cap) break; }
    o.set("walk_for_pre", w);
  }
  {  // std::for_each(begin, end, f)
    Json w = Json::array();
    n = 0;
    std::for_each(seq.begin(), seq.end(), [&](const typename T::vec &c) { if (++n <= cap) w.push(T::to(c)); });
    o.set("walk_std_for_each", w);
  }
  {  // for (it = begin; it != end; it++)
    Json w = Json::array();
    n = 0;
    for (It it = seq.begin(); it != seq.end(); it++) { w.push(T::to(*it)); if (++n > cap) break; }
    o.set("walk_for_post", w);
  }
  Json wp = Json::array(), dw = Json::array(), dp = Json::array();
  if (nonempty) {
    {  // it = begin; while (++it != end) body(*it)
      It it = seq.begin();
      const It e = seq.end();
      n = 0;
      while (++it != e) { wp.push(T::to(*it)); if (++n > cap) break; }
    }
    {  // it = begin; do body(*it); while (++it != end);
      It it = seq.begin();
      const It e = seq.end();
      n = 0;
      do { dw.push(T::to(*it)); if (++n > cap) break; } while (++it != e);
    }
    {  // total-1 times: body(*++it)
      It it = seq.begin();
      for (size_t k = 0; k + 1 < total; ++k) dp.push(T::to(*++it));
    }
  }
  o.set("walk_while_pre", wp);
  o.set("walk_do_while_pre", dw);
  o.set("walk_deref_preinc", dp);
  {  // total times: (++it == it) and the position of the value of ++it
    Json eq = Json::array(), ix = Json::array();
    It it = seq.begin();
    for (size_t k = 0; k < total; ++k) {
      const It v = ++it;
      eq.push(v == it && !(v != it));
      ix.push((long long)v.current());
    }
    o.set("preinc_equals_it", eq);
    o.set("preinc_value_index", ix);
  }
  o.set("begin_is_end", seq.begin() == seq.end());
  o.set("begin_ne_end", seq.begin() != seq.end());
}

// the VALUE of the postfix increment
template <int N>
static Json doIterPost(const Json &arg)
{
  typedef SeqTraits<N> T;
  typedef multidim_index_iterator<N> It;
  Json o = Json::object();
  multidim_index_sequence<N> seq(T::from(arg["d"]));
  const size_t total = seq.total_indices();
  const size_t cap = 8 * total + 16;
  {  // while (it != end) body(*it++)
    Json w = Json::array();
    It it = seq.begin();
    const It e = seq.end();
    size_t n = 0;
    while (it != e) { w.push(T::to(*it++)); if (++n > cap) break; }
    o.set("walk_deref_postinc", w);
  }
  {  // total times: old = it; v = it++;  v == old && v != it;  current() of v
    Json isold = Json::array(), ix = Json::array();
    It it = seq.begin();
    for (size_t k = 0; k < total; ++k) {
      const It old = it;
      const It v = it++;
      isold.push(v == old && v != it);
      ix.push((long long)v.current());
    }
    o.set("postinc_value_is_old", isold);
    o.set("postinc_value_index", ix);
  }
  return o;
}

template <int N>
static Json doSeq(const Json &arg)
{
  typedef SeqTraits<N> T;
  Json o = Json::object();
  multidim_index_sequence<N> seq(T::from(arg["d"]));
  const size_t total = seq.total_indices();
  o.set("total", (long long)total);
  o.set("dims", T::to(seq.dimensions()));
  Json fl = Json::array();
  for (size_t k = 0; k < arg["coords"].size(); ++k)
    fl.push((long long)seq.flatten(T::from(arg["coords"][k])));
  o.set("flatten", fl);
  Json rs = Json::array();
  for (size_t k = 0; k < arg["idxs"].size(); ++k)
    rs.push(T::to(seq.reshape((size_t)arg["idxs"][k].num())));
  o.set("reshape", rs);
  // range-based for: begin(), end(), operator!=, prefix operator++, operator*
  const size_t cap = 8 * total + 16;  // a broken iteration must not run forever
  Json it1 = Json::array();
  size_t n = 0;
  for (auto c : seq) {
    it1.push(T::to(c));
    if (++n > cap) { it1.push("runaway"); break; }
  }
  o.set("iter", it1);
  // explicit iterators: postfix operator++, operator==, current()
  Json it2 = Json::array(), idx = Json::array();
  auto it = seq.begin();
  const auto e = seq.end();
  n = 0;
  while (!(it == e)) {
    it2.push(T::to(*it));
    idx.push((long long)it.current());
    it++;
    if (++n > cap) { it2.push("runaway"); break; }
  }
  o.set("iter_manual", it2);
  o.set("iter_index", idx);
  walkStyles<N>(seq, arg.has("nonempty") ? arg["nonempty"].boolean() : total > 0, o);
  return o;
}

static Json doArr3(const Json &arg)
{
  Json o = Json::object();
  const vec3i d = v3i(arg["d"]);
  o.set("product", (long long)longProduct(d));
  Json ix = Json::array();
  for (size_t k = 0; k < arg["coords"].size(); ++k)
    ix.push((long long)longIndex(v3i(arg["coords"][k]), d));
  o.set("index", ix);
  Json cs = Json::array();
  for (size_t k = 0; k < arg["idxs"].size(); ++k)
    cs.push(j3(coordsOf((size_t)arg["idxs"][k].num(), d)));
  o.set("coords", cs);
  Json es = Json::array();
  for_each(d, [&](const vec3i &c) { es.push(j3(c)); });
  o.set("each_size", es);
  return o;
}

static Json doForEach(const Json &arg)
{
  Json o = Json::object();
  const vec3i lo = v3i(arg["lo"]), hi = v3i(arg["hi"]);
  Json a = Json::array(), b = Json::array();
  long long n = 0;
  for_each(lo, hi, [&](const vec3i &c) { a.push(j3(c)); ++n; });
  for_each(box3i(lo, hi), [&](const vec3i &c) { b.push(j3(c)); });
  o.set("lohi", a);
  o.set("box", b);
  o.set("count", n);
  return o;
}

// two sequences / extents used alternately by one thread
static Json doInterleave3(const Json &arg)
{
  Json o = Json::object();
  const vec3sz d = v3sz(arg["d"]), e = v3sz(arg["e"]);
  const vec3i di = v3i(arg["d"]), ei = v3i(arg["e"]);
  index_sequence_3D sd(d), se(e);
  Json itd = Json::array(), ite = Json::array();
  auto a = sd.begin(), b = se.begin();
  const auto ae = sd.end(), be = se.end();
  size_t guard = 0;
  while ((a != ae || b != be) && guard++ < 100000) {
    if (a != ae) { itd.push(j3(*a)); ++a; }
    if (b != be) { ite.push(j3(*b)); b++; }
  }
  o.set("iter_d", itd);
  o.set("iter_e", ite);
  Json fd = Json::array(), fe = Json::array(), xd = Json::array(), xe = Json::array();
  Json rd = Json::array(), re = Json::array(), cd = Json::array(), ce = Json::array();
  const size_t nd = arg["coords_d"].size(), ne = arg["coords_e"].size();
  for (size_t k = 0; k < std::max(nd, ne); ++k) {
    if (k < nd) { fd.push((long long)sd.flatten(v3sz(arg["coords_d"][k]))); xd.push((long long)longIndex(v3i(arg["coords_d"][k]), di)); }
    if (k < ne) { fe.push((long long)se.flatten(v3sz(arg["coords_e"][k]))); xe.push((long long)longIndex(v3i(arg["coords_e"][k]), ei)); }
    if (k < nd) { rd.push(j3(sd.reshape(k))); cd.push(j3(coordsOf(k, di))); }
    if (k < ne) { re.push(j3(se.reshape(k))); ce.push(j3(coordsOf(k, ei))); }
  }
  o.set("flatten_d", fd); o.set("flatten_e", fe);
  o.set("index_d", xd);   o.set("index_e", xe);
  o.set("reshape_d", rd); o.set("reshape_e", re);
  o.set("coords_d", cd);  o.set("coords_e", ce);
  return o;
}

// ---------------------------------------------------------------------------
// index maps on huge extents (limb numbers)
// ---------------------------------------------------------------------------
static Json doBigSeq3(const Json &arg)
{
  Json o = Json::object();
  index_sequence_3D seq(l3sz(arg["d"]));
  o.set("total", toLimbs(seq.total_indices()));
  o.set("dims", lj3(seq.dimensions()));
  o.set("idx", toLimbs(seq.flatten(l3sz(arg["c"]))));
  o.set("c", lj3(seq.reshape((size_t)fromLimbs(arg["idx"]))));
  return o;
}

static Json doBigSeq2(const Json &arg)
{
  Json o = Json::object();
  index_sequence_2D seq(l2sz(arg["d"]));
  o.set("total", toLimbs(seq.total_indices()));
  o.set("dims", lj2(seq.dimensions()));
  o.set("idx", toLimbs(seq.flatten(l2sz(arg["c"]))));
  o.set("c", lj2(seq.reshape((size_t)fromLimbs(arg["idx"]))));
  return o;
}

static Json doBigIter3(const Json &arg)
{
  Json o = Json::object();
  index_sequence_3D seq(l3sz(arg["d"]));
  auto it = seq.begin();
  it.jump_to((size_t)fromLimbs(arg["start"]));
  Json w = Json::array();
  const long long n = arg["n"].num();
  for (long long k = 0; k < n; ++k) {
    w.push(j3(*it));
    if (k % 2) it++; else ++it;
  }
  o.set("walk", w);
  return o;
}

static Json doBigArr3(const Json &arg)
{
  Json o = Json::object();
  const vec3i d = l3i(arg["d"]), c = l3i(arg["c"]);
  o.set("product", toLimbs(longProduct(d)));
  o.set("idx", toLimbs(longIndex(c, d)));
  const vec3i back = coordsOf((size_t)fromLimbs(arg["idx"]), d);
  Json bc = Json::array();
  bc.push(signedLimbs(back.x));
  bc.push(signedLimbs(back.y));
  bc.push(signedLimbs(back.z));
  o.set("c", bc);
  if (!arg["mem"].boolean()) {
    // numElements / indexOf do not touch the memory: any non-null pointer will do
    static unsigned char dummy[16];
    ActualArray3D<unsigned char> a(d, dummy);
    o.set("num_elements", toLimbs(a.numElements()));
    o.set("index_of", toLimbs(a.indexOf(c)));
    return o;
  }
  // an ActualArray3D<uint8> on lazily mapped external memory: set(c) must dirty exactly
  // the byte at offset LongIndex(c, d); the offset is found from the resident pages
  const unsigned long long total = fromLimbs(arg["d"][(size_t)0]) * fromLimbs(arg["d"][1]) * fromLimbs(arg["d"][2]);
  const size_t page = (size_t)sysconf(_SC_PAGESIZE);
  const size_t len = (size_t)((total + page - 1) / page * page);
  void *mem = mmap(nullptr, len, PROT_READ | PROT_WRITE, MAP_PRIVATE | MAP_ANONYMOUS | MAP_NORESERVE, -1, 0);
  if (mem == MAP_FAILED) {
    o.set("infra", "mmap failed");
    return o;
  }
  {
    ActualArray3D<unsigned char> a(d, mem);
    o.set("num_elements", toLimbs(a.numElements()));
    o.set("index_of", toLimbs(a.indexOf(c)));
    a.set(c, (unsigned char)0x5A);
    Json offs = Json::array();
    auto scanPage = [&](size_t p) {
      const unsigned char *q = (const unsigned char *)mem + p * page;
      for (size_t k = 0; k < page; ++k)
        if (q[k] == 0x5A) offs.push(toLimbs((unsigned long long)(p * page + k)));
    };
    if (!getenv("VERIF_C17_PAGEMAP")) {  // (the variable forces the fallback below, to test it)
      std::vector<unsigned char> vec(len / page);
      if (mincore(mem, len, vec.data()) == 0)
        for (size_t p = 0; p < vec.size(); ++p)
          if (vec[p] & 1) scanPage(p);
    }
    if (offs.size() == 0) {
      // the touched page may have been swapped out under memory pressure: /proc/self/pagemap
      // marks touched pages as present (bit 63) or swapped (bit 62)
      int pm = open("/proc/self/pagemap", O_RDONLY);
      if (pm >= 0) {
        std::vector<uint64_t> ent(1 << 16);
        const size_t first = (size_t)((uintptr_t)mem / page), npages = len / page;
        for (size_t p = 0; p < npages; p += ent.size()) {
          const size_t n = std::min(ent.size(), npages - p);
          ssize_t got = pread(pm, ent.data(), n * 8, (off_t)((first + p) * 8));
          if (got <= 0) break;
          for (size_t k = 0; k < (size_t)got / 8; ++k)
            if (ent[k] >> 62) scanPage(p + k);
        }
        close(pm);
      }
    }
    if (offs.size() == 1) o.set("set_offset", offs[(size_t)0]);
    else o.set("set_offset", offs);
    o.set("get_back", a.get(c) == (unsigned char)0x5A);
  }
  munmap(mem, len);
  return o;
}

// ---------------------------------------------------------------------------
// adaptor expression trees
// ---------------------------------------------------------------------------
typedef std::shared_ptr<Array3D<int>> IntArr;
typedef std::vector<std::shared_ptr<void>> Keep;

template <typename T>
static std::shared_ptr<ActualArray3D<T>> buildLeaf(const Json &e, Keep &keep)
{
  const vec3i d = v3i(e["d"]);
  if (e["fill"].str() == "ext") {
    auto buf = std::make_shared<std::vector<T>>();
    for (size_t k = 0; k < e["mem"].size(); ++k) buf->push_back((T)e["mem"][k].num());
    if (buf->empty()) buf->push_back(T());
    keep.push_back(buf);
    return std::make_shared<ActualArray3D<T>>(d, (void *)buf->data());
  }
  auto a = std::make_shared<ActualArray3D<T>>(d);
  for (size_t k = 0; k < e["cells"].size(); ++k)
    a->set(v3i(e["cells"][k][(size_t)0]), (T)e["cells"][k][1].num());
  return a;
}

static IntArr build(const Json &e, Keep &keep);

template <typename T>
static IntArr buildAcc(const Json &of, Keep &keep)
{
  if (of["k"].str() == "actual") {
    std::shared_ptr<Array3D<T>> leaf = buildLeaf<T>(of, keep);
    return std::make_shared<Array3DAccessor<T, int>>(leaf);
  }
  // int -> T -> int over an arbitrary view
  std::shared_ptr<Array3D<T>> mid = std::make_shared<Array3DAccessor<int, T>>(build(of, keep));
  return std::make_shared<Array3DAccessor<T, int>>(mid);
}

static IntArr build(const Json &e, Keep &keep)
{
  const std::string &k = e["k"].str();
  if (k == "actual") return buildLeaf<int>(e, keep);
  if (k == "shift") return std::make_shared<IndexShiftedArray3D<int>>(build(e["of"], keep), v3i(e["s"]));
  if (k == "sub") return std::make_shared<SubBoxArray3D<int>>(build(e["of"], keep), box3i(v3i(e["lo"]), v3i(e["hi"])));
  if (k == "acc") {
    const std::string &t = e["t"].str();
    if (t == "u8") return buildAcc<unsigned char>(e["of"], keep);
    if (t == "i8") return buildAcc<signed char>(e["of"], keep);
    if (t == "u16") return buildAcc<unsigned short>(e["of"], keep);
    if (t == "i64") return buildAcc<long long>(e["of"], keep);
    if (t == "i16") return buildAcc<short>(e["of"], keep);
    if (t == "f32") return buildAcc<float>(e["of"], keep);
    if (t == "f64") return buildAcc<double>(e["of"], keep);
    return buildAcc<int>(e["of"], keep);
  }
  if (k == "slices") {
    std::vector<IntArr> s;
    for (size_t i = 0; i < e["of"].size(); ++i) s.push_back(build(e["of"][i], keep));
    return std::make_shared<MultiSliceArray3D<int>>(s);
  }
  if (k == "repeat") return std::make_shared<Array3DRepeater<int>>(build(e["of"], keep), v3i(e["size"]));
  throw std::runtime_error("unknown expression kind " + k);
}

template <typename T>
static Json rangeJson(const range_t<T> &r)
{
  Json o = Json::object();
  o.set("lo", (long long)r.lower);
  o.set("hi", (long long)r.upper);
  return o;
}

template <typename T>
static void describe(const Array3D<T> &a, Json &o, const char *ksize, const char *kn, const char *ktable, const char *krange)
{
  const vec3i s = a.size();
  o.set(ksize, j3(s));
  o.set(kn, (long long)a.numElements());
  Json t = Json::array();
  for (int z = 0; z < s.z; ++z)
    for (int y = 0; y < s.y; ++y)
      for (int x = 0; x < s.x; ++x)
        t.push((long long)a.get(vec3i(x, y, z)));
  o.set(ktable, t);
  if (krange && s.x > 0 && s.y > 0 && s.z > 0) o.set(krange, rangeJson(a.getValueRange()));
}

static Json doView(const Json &arg, bool probes)
{
  Json o = Json::object();
  Keep keep;
  IntArr a = build(arg["e"], keep);
  describe(*a, o, "vsize", "vn", "table", "vrange");
  if (probes) {
    // ActualArray3D::indexOf for every cell, in the order of the leaf's cell list
    Keep keep2;
    std::shared_ptr<ActualArray3D<int>> leaf = buildLeaf<int>(arg["e"], keep2);
    Json ix = Json::array();
    for (size_t k = 0; k < arg["e"]["cells"].size(); ++k)
      ix.push((long long)leaf->indexOf(v3i(arg["e"]["cells"][k][(size_t)0])));
    o.set("index_of", ix);
  }
  if (arg.has("probes")) {
    // get() at the given coordinates, inside or outside size()
    Json c = Json::array();
    for (size_t k = 0; k < arg["probes"].size(); ++k) c.push((long long)a->get(v3i(arg["probes"][k])));
    o.set(probes ? "clamped" : "outside", c);
  }
  if (arg.has("oregions")) {
    // getValueRange over regions that may start below 0 / end beyond size()
    Json r = Json::array();
    for (size_t k = 0; k < arg["oregions"].size(); ++k)
      r.push(rangeJson(a->getValueRange(v3i(arg["oregions"][k][(size_t)0]), v3i(arg["oregions"][k][1]))));
    o.set("oranges", r);
  }
  return o;
}

static Json doRanges(const Json &arg)
{
  Json o = Json::object();
  Keep keep;
  IntArr a = build(arg["e"], keep);
  Json r = Json::array();
  for (size_t k = 0; k < arg["regions"].size(); ++k)
    r.push(rangeJson(a->getValueRange(v3i(arg["regions"][k][(size_t)0]), v3i(arg["regions"][k][1]))));
  o.set("ranges", r);
  o.set("count", (long long)arg["regions"].size());
  return o;
}

// ---------------------------------------------------------------------------
// the world: one ActualArray3D<T> and views of it that live as long as it does.
// Element type variants map the model's integers injectively onto values of T:
//   arithmetic T: the number itself;  structs of 3 / 12 / 24 bytes: a value derived from the
//   number in every member (a torn or partially copied element maps back to "corrupt").
// ---------------------------------------------------------------------------
struct B3 { unsigned char a, b, c; };                        // 3 bytes
struct B24 { double d; long long i; char s[8]; };            // 24 bytes
static const long long CORRUPT = -999999;

template <typename T> struct Elem
{
  static const bool arith = true;
  static T to(long long v) { return (T)v; }
  static long long from(const T &t) { return (long long)t; }
};
template <> struct Elem<vec3f>
{
  static const bool arith = false;
  static vec3f to(long long v) { return vec3f((float)v, (float)v + 0.5f, -(float)v); }
  static long long from(const vec3f &t)
  {
    const long long v = (long long)t.x;
    return (t.x == (float)v && t.y == (float)v + 0.5f && t.z == -(float)v) ? v : CORRUPT;
  }
};
template <> struct Elem<B3>
{
  static const bool arith = false;
  static B3 to(long long v) { B3 b; b.a = (unsigned char)v; b.b = (unsigned char)(v ^ 0x5A); b.c = (unsigned char)(255 - v); return b; }
  static long long from(const B3 &t) { return (t.b == (unsigned char)(t.a ^ 0x5A) && t.c == (unsigned char)(255 - t.a)) ? t.a : CORRUPT; }
};
template <> struct Elem<B24>
{
  static const bool arith = false;
  static B24 to(long long v) { B24 b; b.d = v + 0.25; b.i = -v; for (int k = 0; k < 8; ++k) b.s[k] = (char)(v + k); return b; }
  static long long from(const B24 &t)
  {
    const long long v = -t.i;
    if (t.d != v + 0.25) return CORRUPT;
    for (int k = 0; k < 8; ++k) if (t.s[k] != (char)(v + k)) return CORRUPT;
    return v;
  }
};

struct IWorld
{
  virtual ~IWorld() {}
  virtual Json step(const std::string &a, const Json &arg) = 0;
};

template <typename T, bool ARITH> struct RangeOf;      // getValueRange only exists for ordered element types
template <typename T> struct RangeOf<T, true>
{
  static void whole(const Array3D<T> &a, Json &o, const char *k) { o.set(k, rangeJson(a.getValueRange())); }
  static void region(const Array3D<T> &a, const vec3i &lo, const vec3i &hi, Json &o, const char *k) { o.set(k, rangeJson(a.getValueRange(lo, hi))); }
};
template <typename T> struct RangeOf<T, false>
{
  static void whole(const Array3D<T> &, Json &o, const char *k) { o.set(k, "not available for this element type"); }
  static void region(const Array3D<T> &, const vec3i &, const vec3i &, Json &o, const char *k) { o.set(k, "not available for this element type"); }
};

template <typename T>
struct TWorld : IWorld
{
  typedef std::shared_ptr<Array3D<T>> Arr;
  typedef Elem<T> E;
  std::shared_ptr<ActualArray3D<T>> arr;
  std::shared_ptr<std::vector<T>> ext;
  std::map<std::string, Arr> views;
  std::shared_ptr<Array3D<double>> accView;

  static void table(const Array3D<T> &a, Json &o, const char *ksize, const char *kn, const char *ktable)
  {
    const vec3i s = a.size();
    o.set(ksize, j3(s));
    o.set(kn, (long long)a.numElements());
    Json t = Json::array();
    for (int z = 0; z < s.z; ++z)
      for (int y = 0; y < s.y; ++y)
        for (int x = 0; x < s.x; ++x)
          t.push(E::from(a.get(vec3i(x, y, z))));
    o.set(ktable, t);
  }

  void proj(Json &o) const
  {
    Json mem = Json::array();
    if (!arr) {
      o.set("size", j3(vec3i(0)));
      o.set("n", 0);
      o.set("dump", Json::array());
      o.set("mem", mem);
      return;
    }
    table(*arr, o, "size", "n", "dump");
    // the raw content of the external memory, in memory order
    if (ext)
      for (size_t k = 0; k < ext->size(); ++k) mem.push(E::from((*ext)[k]));
    o.set("mem", mem);
  }

  Arr view(const std::string &a, const Json &arg)
  {
    // one live view per parameter tuple (the probe coordinates are not parameters of the view)
    std::string key = a;
    for (size_t i = 0; i < arg.o.size(); ++i)
      if (arg.o[i].first != "probes") key += arg.o[i].first + arg.o[i].second.dump();
    auto it = views.find(key);
    if (it != views.end()) return it->second;
    Arr base = arr;
    Arr v;
    if (a == "ViewShift") v = std::make_shared<IndexShiftedArray3D<T>>(base, v3i(arg["s"]));
    else if (a == "ViewSub") v = std::make_shared<SubBoxArray3D<T>>(base, box3i(v3i(arg["lo"]), v3i(arg["hi"])));
    else {
      std::vector<Arr> s;
      const vec3i d = arr->size();
      for (size_t i = 0; i < arg["ps"].size(); ++i) {
        const int p = (int)arg["ps"][i].num();
        s.push_back(std::make_shared<SubBoxArray3D<T>>(base, box3i(vec3i(0, 0, p), vec3i(d.x, d.y, p + 1))));
      }
      v = std::make_shared<MultiSliceArray3D<T>>(s);
    }
    views[key] = v;
    return v;
  }

  void accStep(const Json &arg, Json &o, std::true_type)
  {
    if (!accView) accView = std::make_shared<Array3DAccessor<T, double>>(Arr(arr));
    describe(*accView, o, "vsize", "vn", "table", "vrange");
    Json out = Json::array();
    for (size_t k = 0; k < arg["probes"].size(); ++k) out.push((long long)accView->get(v3i(arg["probes"][k])));
    o.set("outside", out);
  }
  void accStep(const Json &, Json &o, std::false_type) { o.set("error", "no accessor for this element type"); }

  Json step(const std::string &a, const Json &arg) override
  {
    Json o = Json::object();
    if (a == "New") {
      const vec3i d = v3i(arg["d"]);
      views.clear();
      accView.reset();
      ext.reset();
      if (arg["mode"].str() == "ext") {
        ext = std::make_shared<std::vector<T>>();
        for (size_t k = 0; k < arg["mem"].size(); ++k) ext->push_back(E::to(arg["mem"][k].num()));
        arr = std::make_shared<ActualArray3D<T>>(d, (void *)ext->data());
      } else {
        arr = std::make_shared<ActualArray3D<T>>(d);
        arr->clear(E::to(arg["mem"][(size_t)0].num()));
      }
    } else if (!arr) {
      o.set("error", "no array");
    } else if (a == "Set") {
      arr->set(v3i(arg["c"]), E::to(arg["v"].num()));
    } else if (a == "Clear") {
      arr->clear(E::to(arg["v"].num()));
    } else if (a == "Poke") {
      // the user writes the external memory directly
      if (ext) (*ext)[(size_t)arg["o"].num()] = E::to(arg["v"].num());
      else o.set("error", "no external memory");
    } else if (a == "Get") {
      o.set("v", E::from(arr->get(v3i(arg["c"]))));
    } else if (a == "Range") {
      RangeOf<T, E::arith>::region(*arr, v3i(arg["lo"]), v3i(arg["hi"]), o, "range");
    } else if (a == "RangeWhole") {
      RangeOf<T, E::arith>::whole(*arr, o, "range");
    } else if (a == "ViewShift" || a == "ViewSub" || a == "ViewSlices") {
      Arr v = view(a, arg);
      table(*v, o, "vsize", "vn", "table");
      RangeOf<T, E::arith>::whole(*v, o, "vrange");
      Json out = Json::array();
      for (size_t k = 0; k < arg["probes"].size(); ++k) out.push(E::from(v->get(v3i(arg["probes"][k]))));
      o.set("outside", out);
    } else if (a == "ViewAcc") {
      accStep(arg, o, std::integral_constant<bool, E::arith>());
    } else {
      o.set("error", "unknown action " + a);
    }
    proj(o);
    return o;
  }
};

struct World
{
  std::unique_ptr<IWorld> w;

  World(const Json &hist)
  {
    const std::string v = hist.has("variant") ? hist["variant"].str() : "i32";
    if (v == "u8") w.reset(new TWorld<unsigned char>());
    else if (v == "i16") w.reset(new TWorld<short>());
    else if (v == "i64") w.reset(new TWorld<long long>());
    else if (v == "f32") w.reset(new TWorld<float>());
    else if (v == "f64") w.reset(new TWorld<double>());
    else if (v == "vec3f") w.reset(new TWorld<vec3f>());
    else if (v == "b3") w.reset(new TWorld<B3>());
    else if (v == "b24") w.reset(new TWorld<B24>());
    else w.reset(new TWorld<int>());
  }

  Json step(const Json &act)
  {
    const std::string &a = act["a"].str();
    const Json &arg = act["arg"];
    // one-shot functional cases
    if (a == "Seq2") return doSeq<2>(arg);
    if (a == "Seq3") return doSeq<3>(arg);
    if (a == "Arr3") return doArr3(arg);
    if (a == "ForEach") return doForEach(arg);
    if (a == "Interleave3") return doInterleave3(arg);
    if (a == "IterPost2") return doIterPost<2>(arg);
    if (a == "IterPost3") return doIterPost<3>(arg);
    if (a == "BigSeq3") return doBigSeq3(arg);
    if (a == "BigSeq2") return doBigSeq2(arg);
    if (a == "BigIter3") return doBigIter3(arg);
    if (a == "BigArr3") return doBigArr3(arg);
    if (a == "View") return doView(arg, false);
    if (a == "Actual") return doView(arg, true);
    if (a == "Ranges") return doRanges(arg);
    // the state machine
    return w->step(a, arg);
  }
};

int main(int argc, char **argv)
{
  return vdrv::run<World>(argc, argv);
}
