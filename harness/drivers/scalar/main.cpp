// C07 driver: interpreter + recorder for the scalar math kernels of rkcommon
// (math/rkmath.h, the 8-bit packing of math/vec.h, utility/random.h).
//
// The driver evaluates the REAL functions and reports bit patterns; it never
// judges a result.  Floats travel as two 16-bit halves [hi, lo] of their
// IEEE-754 pattern, integers of any width as {"n": sign, "m": base-2^15 limbs}.
//
//   Sweep     all 2^32 patterns through rcp / rsqrt / rcp_safe / sign (threads);
//             RECORDS per (sign, biased exponent) the inputs a double-precision
//             estimate ranks highest, every input a cheap class test flags, a
//             boundary set and seeded random patterns.  The estimate only selects
//             what is recorded; TLC (ScalarKernelsValidate) decides every record.
//   Runs      complete run-length encoded table of a byte-valued function of one
//             float over all non-NaN patterns (lossless compression of 2^32 - 2^24 evaluations)
//   Pack      sampled channel tables + packed vectors of cvt_uint32(vec4f) / linear_to_srgba8
//   Dist      two streams of a random distribution constructed from the same arguments
//   DistHist  one history of ScalarKernelsDistADT on real distribution objects (New / Copy / Draw with a generator type / Colors)
//   Lat* / Dru / Clamp* / Madd / Lerp / Sign / Deg2Rad / Rcp / Rsqrt / RcpSafe   single evaluations
//
// Built twice: default (rcpss / rsqrtss + Newton-Raphson) and with RKCOMMON_NO_SIMD.
#include <algorithm>
#include <atomic>
#include <cmath>
#include <cstring>
#include <limits>
#include <random>
#include <thread>
#include "driver.h"
#include "rkcommon/math/rkmath.h"
#include "rkcommon/math/vec.h"
#include "rkcommon/utility/random.h"

using vj::Json;
namespace rm = rkcommon::math;
namespace ru = rkcommon::utility;

static inline uint32_t f2u(float f) { uint32_t u; memcpy(&u, &f, 4); return u; }
static inline float u2f(uint32_t u) { float f; memcpy(&f, &u, 4); return f; }
static Json halves(uint32_t u) { Json a = Json::array(); a.push(Json((long long)(u >> 16))); a.push(Json((long long)(u & 0xffffu))); return a; }
static uint32_t unhalves(const Json &j) { return ((uint32_t)j[(size_t)0].num() << 16) | (uint32_t)j[(size_t)1].num(); }
static Json fh(float f) { return halves(f2u(f)); }
static float hf(const Json &j) { return u2f(unhalves(j)); }

// binary64 patterns as four 16-bit quarters [q3, q2, q1, q0] (q3 most significant)
static inline uint64_t d2u(double d) { uint64_t u; memcpy(&u, &d, 8); return u; }
static inline double u2d(uint64_t u) { double d; memcpy(&d, &u, 8); return d; }
static Json dq(double d)
{
  const uint64_t u = d2u(d);
  Json a = Json::array();
  for (int i = 3; i >= 0; --i) a.push(Json((long long)((u >> (16 * i)) & 0xffffULL)));
  return a;
}
static double qd(const Json &j)
{
  uint64_t u = 0;
  for (size_t i = 0; i < 4; ++i) u = (u << 16) | (uint64_t)j[i].num();
  return u2d(u);
}

// ---- integers as sign + limbs ---------------------------------------------------------------
static Json zOf(bool neg, unsigned long long mag)
{
  Json m = Json::array();
  if (mag == 0) m.push(Json(0));
  while (mag) { m.push(Json((long long)(mag & 32767ULL))); mag >>= 15; }
  Json z = Json::object();
  z.set("n", Json(neg && true ? 1 : 0));
  z.set("m", m);
  return z;
}
template <typename T>
static Json zOfT(T v)
{
  if (std::numeric_limits<T>::is_signed && v < 0) return zOf(true, 0ULL - (unsigned long long)(long long)v);
  return zOf(false, (unsigned long long)v);
}
template <typename T>
static T zTo(const Json &z)
{
  const Json &m = z["m"];
  unsigned long long mag = 0;
  for (size_t i = m.size(); i-- > 0;) {
    if (mag >> 49) throw std::runtime_error("integer operand wider than 64 bits");
    mag = (mag << 15) | (unsigned long long)m[i].num();
  }
  bool neg = z["n"].num() != 0;
  T v = neg ? (T)(0ULL - mag) : (T)mag;
  // the operand must be representable in T
  if (zOfT<T>(v).dump() != zOf(neg && mag != 0, mag).dump()) throw std::runtime_error("integer operand not representable in the operand type");
  return v;
}

// ---- sweep --------------------------------------------------------------------------------------
struct Rec { uint32_t x, r; };
struct Top
{
  int k, n;
  double d[8];
  Rec rec[8];
  double floor_;
  Top() : k(3), n(0), floor_(-1.0) {}
  inline void offer(double dev, uint32_t x, uint32_t r)
  {
    if (n == k && !(dev > floor_)) return;
    int pos = n < k ? n++ : k - 1;
    // keep sorted descending
    while (pos > 0 && d[pos - 1] < dev) { d[pos] = d[pos - 1]; rec[pos] = rec[pos - 1]; --pos; }
    d[pos] = dev; rec[pos].x = x; rec[pos].r = r;
    if (n == k) floor_ = d[k - 1];
  }
};
struct Flagged
{
  unsigned long long total;
  int n;
  Rec rec[8];
  Flagged() : total(0), n(0) {}
  inline void add(uint32_t x, uint32_t r) { ++total; if (n < 8) { rec[n].x = x; rec[n].r = r; ++n; } }
};
struct Unit  // one (sign, biased exponent): 2^23 patterns
{
  Top rcp, rsqrt, safeHi, safeLo;
  Flagged safeNonFinite, safeSignBit, signOdd;
  Rec signFirst, signLast, rsqrtNegFirst;
  unsigned long long rcpNeDiv, rsqrtNeDiv, evaluated;
  Unit() : rcpNeDiv(0), rsqrtNeDiv(0), evaluated(0) {}
};

static void sweepUnit(Unit &u, uint32_t s, uint32_t e, int topk, uint32_t stride, uint32_t phase)
{
  u.rcp.k = u.rsqrt.k = topk;
  u.safeHi.k = 1; u.safeLo.k = 1;
  const uint32_t base = (s << 31) | (e << 23);
  const bool finiteX = e != 255;
  bool first = true;
  for (uint32_t f = phase; f < (1u << 23); f += stride) {
    const uint32_t xb = base | f;
    const float x = u2f(xb);
    // rcp
    const float r1 = rm::rcp(x);
    double d1 = std::fabs((double)x * (double)r1 - 1.0);
    if (!(d1 == d1)) d1 = std::numeric_limits<double>::infinity();
    u.rcp.offer(d1, xb, f2u(r1));
    if (f2u(r1) != f2u(1.f / x)) ++u.rcpNeDiv;
    // rsqrt
    const float r2 = rm::rsqrt(x);
    if (s == 0) {
      double d2 = std::fabs((double)r2 * (double)r2 * (double)x - 1.0);
      if (!(d2 == d2)) d2 = std::numeric_limits<double>::infinity();
      u.rsqrt.offer(d2, xb, f2u(r2));
      if (f2u(r2) != f2u(1.f / std::sqrt(x))) ++u.rsqrtNeDiv;
    } else if (first) {
      u.rsqrtNegFirst.x = xb; u.rsqrtNegFirst.r = f2u(r2);
    }
    // rcp_safe
    const uint32_t r3 = f2u(rm::rcp_safe(x));
    const uint32_t mag3 = r3 & 0x7fffffffu;
    u.safeHi.offer((double)mag3, xb, r3);
    u.safeLo.offer(-(double)mag3, xb, r3);
    if (finiteX) {
      if ((r3 & 0x7f800000u) == 0x7f800000u) u.safeNonFinite.add(xb, r3);
      if ((r3 ^ xb) >> 31) u.safeSignBit.add(xb, r3);
    }
    // sign
    const uint32_t r4 = f2u(rm::sign(x));
    const bool isNaN = e == 255 && f != 0;
    const uint32_t guess = (s == 1 && (xb & 0x7fffffffu) != 0 && !isNaN) ? 0xbf800000u : 0x3f800000u;
    if (r4 != guess && !isNaN) u.signOdd.add(xb, r4);
    if (first) { u.signFirst.x = xb; u.signFirst.r = r4; }
    u.signLast.x = xb; u.signLast.r = r4;
    first = false;
    ++u.evaluated;
  }
}

static void emitRec(Json &out, const char *k, const char *why, uint32_t x, uint32_t r)
{
  Json o = Json::object();
  o.set("k", Json(k)); o.set("why", Json(why)); o.set("x", halves(x)); o.set("r", halves(r));
  out.push(o);
}
static void evalAll(Json &out, const char *why, uint32_t xb, bool all)
{
  const float x = u2f(xb);
  emitRec(out, "rcp", why, xb, f2u(rm::rcp(x)));
  emitRec(out, "rcp_safe", why, xb, f2u(rm::rcp_safe(x)));
  if (!(xb >> 31) || all) emitRec(out, "rsqrt", why, xb, f2u(rm::rsqrt(x)));
  if (all) emitRec(out, "sign", why, xb, f2u(rm::sign(x)));
}

static Json doSweep(const Json &arg)
{
  const int topk = arg.has("topk") ? (int)arg["topk"].num() : 3;
  const int nthreads = arg.has("threads") ? (int)arg["threads"].num() : 16;
  const uint32_t stride = arg.has("stride") ? (uint32_t)arg["stride"].num() : 1;
  const uint32_t phase = arg.has("phase") ? (uint32_t)arg["phase"].num() % stride : 0;
  const unsigned long long seed = arg.has("seed") ? (unsigned long long)arg["seed"].num() : 1;
  const int nrandom = arg.has("nrandom") ? (int)arg["nrandom"].num() : 1000;
  std::vector<Unit> units(512);
  std::atomic<int> next(0);
  std::vector<std::thread> th;
  for (int t = 0; t < nthreads; ++t)
    th.emplace_back([&]() {
      for (;;) {
        int i = next.fetch_add(1);
        if (i >= 512) break;
        sweepUnit(units[i], (uint32_t)i >> 8, (uint32_t)i & 255u, std::min(topk, 8), stride, phase);
      }
    });
  for (auto &t : th) t.join();
  Json recs = Json::array();
  unsigned long long evaluated = 0, rcpNe = 0, rsqrtNe = 0, nonFinite = 0, signBit = 0, signOdd = 0;
  for (int i = 0; i < 512; ++i) {
    Unit &u = units[i];
    evaluated += u.evaluated; rcpNe += u.rcpNeDiv; rsqrtNe += u.rsqrtNeDiv;
    nonFinite += u.safeNonFinite.total; signBit += u.safeSignBit.total; signOdd += u.signOdd.total;
    for (int j = 0; j < u.rcp.n; ++j) emitRec(recs, "rcp", "top", u.rcp.rec[j].x, u.rcp.rec[j].r);
    for (int j = 0; j < u.rsqrt.n; ++j) emitRec(recs, "rsqrt", "top", u.rsqrt.rec[j].x, u.rsqrt.rec[j].r);
    if ((i >> 8) == 1 && u.evaluated) emitRec(recs, "rsqrt", "first", u.rsqrtNegFirst.x, u.rsqrtNegFirst.r);
    for (int j = 0; j < u.safeHi.n; ++j) emitRec(recs, "rcp_safe", "top", u.safeHi.rec[j].x, u.safeHi.rec[j].r);
    for (int j = 0; j < u.safeLo.n; ++j) emitRec(recs, "rcp_safe", "bottom", u.safeLo.rec[j].x, u.safeLo.rec[j].r);
    for (int j = 0; j < u.safeNonFinite.n; ++j) emitRec(recs, "rcp_safe", "class:non-finite", u.safeNonFinite.rec[j].x, u.safeNonFinite.rec[j].r);
    for (int j = 0; j < u.safeSignBit.n; ++j) emitRec(recs, "rcp_safe", "class:sign-bit", u.safeSignBit.rec[j].x, u.safeSignBit.rec[j].r);
    for (int j = 0; j < u.signOdd.n; ++j) emitRec(recs, "sign", "class:odd", u.signOdd.rec[j].x, u.signOdd.rec[j].r);
    if (u.evaluated) {
      emitRec(recs, "sign", "first", u.signFirst.x, u.signFirst.r);
      emitRec(recs, "sign", "last", u.signLast.x, u.signLast.r);
    }
  }
  // boundary set: every power of two, its neighbours, the ends of each binade, both signs
  for (uint32_t s = 0; s < 2; ++s)
    for (uint32_t e = 0; e < 256; ++e) {
      const uint32_t b = (s << 31) | (e << 23);
      evalAll(recs, "boundary", b, true);
      evalAll(recs, "boundary", b | 1u, false);
      evalAll(recs, "boundary", b | 0x7fffffu, false);
      if (e == 0 || e == 1 || e == 126 || e == 127 || e == 128 || e >= 252) {
        evalAll(recs, "boundary", b | 2u, true);
        evalAll(recs, "boundary", b | 0x400000u, true);
        evalAll(recs, "boundary", b | 0x7ffffeu, true);
      }
    }
  std::mt19937_64 g(seed * 7919ULL + 17ULL);
  for (int i = 0; i < nrandom; ++i) evalAll(recs, "random", (uint32_t)(g() >> 16), (i % 4) == 0);
  Json o = Json::object();
  o.set("records", recs);
  Json sum = Json::object();
  sum.set("evaluated", Json(evaluated));
  sum.set("stride", Json((long long)stride)); sum.set("phase", Json((long long)phase));
  sum.set("rcp_differs_from_division", Json(rcpNe));
  sum.set("rsqrt_differs_from_division", Json(rsqrtNe));
  sum.set("rcp_safe_flagged_non_finite", Json(nonFinite));
  sum.set("rcp_safe_flagged_sign_bit", Json(signBit));
  sum.set("sign_flagged", Json(signOdd));
#ifdef RKCOMMON_NO_SIMD
  sum.set("built_with", Json("RKCOMMON_NO_SIMD"));
#else
  sum.set("built_with", Json("SIMD"));
#endif
  o.set("summary", sum);
  return o;
}

// ---- byte-valued functions of one float ----------------------------------------------------------
struct ByteFn
{
  int fn;   // 0: cvt_uint32(float)  1: channel c of cvt_uint32(vec4f)  2: channel c of linear_to_srgba8(vec4f)
  int c;
  float ctx[3];
  inline uint32_t word(float x) const
  {
    float v[4];
    int k = 0;
    for (int i = 0; i < 4; ++i) v[i] = (i == c) ? x : ctx[k++];
    const rm::vec4f p(v[0], v[1], v[2], v[3]);
    return fn == 1 ? rm::cvt_uint32(p) : rm::linear_to_srgba8(p);
  }
  inline uint32_t operator()(float x) const
  {
    if (fn == 0) return rm::cvt_uint32(x);
    return (word(x) >> (8 * c)) & 0xffu;
  }
};
static ByteFn byteFn(const Json &arg)
{
  ByteFn f;
  const std::string n = arg["fn"].str();
  f.fn = n == "cvt_f" ? 0 : n == "cvt_v" ? 1 : 2;
  f.c = arg.has("c") ? (int)arg["c"].num() : 0;
  for (int i = 0; i < 3; ++i) f.ctx[i] = arg.has("ctx") ? hf(arg["ctx"][(size_t)i]) : 0.5f;
  return f;
}
static const unsigned long long NPAT = 0x7f800001ULL;  // patterns per sign without NaN
static inline uint32_t patAt(unsigned long long idx) { return idx < NPAT ? (0x80000000u | (uint32_t)(NPAT - 1 - idx)) : (uint32_t)(idx - NPAT); }
struct Run { uint32_t from, to, v; };

static Json doRuns(const Json &arg)
{
  const ByteFn f = byteFn(arg);
  const int nthreads = arg.has("threads") ? (int)arg["threads"].num() : 16;
  const size_t cap = 4096;
  const unsigned long long total = 2 * NPAT;
  const int nchunks = 256;
  std::vector<std::vector<Run>> parts(nchunks);
  std::vector<char> trunc(nchunks, 0);
  std::atomic<int> next(0);
  std::vector<std::thread> th;
  for (int t = 0; t < nthreads; ++t)
    th.emplace_back([&]() {
      for (;;) {
        int i = next.fetch_add(1);
        if (i >= nchunks) break;
        const unsigned long long a = total * (unsigned long long)i / nchunks, b = total * (unsigned long long)(i + 1) / nchunks;
        std::vector<Run> &rs = parts[i];
        for (unsigned long long idx = a; idx < b; ++idx) {
          const uint32_t p = patAt(idx);
          uint32_t v = f(u2f(p));
          if (v > (1u << 30)) v = 1u << 30;  // reported capped (TLC integers are 32-bit); any value above 255 is outside a byte anyway
          if (!rs.empty() && rs.back().v == v) rs.back().to = p;
          else {
            if (rs.size() >= cap) { trunc[i] = 1; break; }
            Run r; r.from = p; r.to = p; r.v = v; rs.push_back(r);
          }
        }
      }
    });
  for (auto &t : th) t.join();
  std::vector<Run> all;
  bool truncated = false;
  for (int i = 0; i < nchunks && !truncated; ++i) {
    for (size_t j = 0; j < parts[i].size(); ++j) {
      const Run &r = parts[i][j];
      if (!all.empty() && all.back().v == r.v && j == 0) all.back().to = r.to;
      else all.push_back(r);
      if (all.size() >= cap) { truncated = true; break; }
    }
    if (trunc[i]) truncated = true;
  }
  Json runs = Json::array();
  for (size_t i = 0; i < all.size(); ++i) {
    Json r = Json::object();
    r.set("from", halves(all[i].from)); r.set("to", halves(all[i].to)); r.set("v", Json((long long)all[i].v));
    runs.push(r);
  }
  Json o = Json::object();
  o.set("runs", runs);
  o.set("truncated", Json(truncated));
  o.set("evaluated", Json(truncated ? 0ULL : total));
  return o;
}

// ---- sampled channel tables of the vector packing functions ------------------------------------
static bool patLess(uint32_t a, uint32_t b)
{
  const bool na = a >> 31, nb = b >> 31;
  if (na != nb) return na;
  return na ? (a & 0x7fffffffu) > (b & 0x7fffffffu) : a < b;
}
static Json doPack(const Json &arg)
{
  const std::string n = arg["fn"].str();
  const unsigned long long seed = arg.has("seed") ? (unsigned long long)arg["seed"].num() : 1;
  const int nvec = arg.has("nvec") ? (int)arg["nvec"].num() : 500;
  const int gridDen = arg.has("den") ? (int)arg["den"].num() : 4096;
  std::mt19937_64 g(seed * 104729ULL + 3ULL);
  std::uniform_real_distribution<float> ctxDist(-0.5f, 1.5f);
  std::vector<std::vector<uint32_t>> xs(4);
  Json tabs = Json::array();
  unsigned long long evals = 0;
  for (int c = 0; c < 4; ++c) {
    ByteFn f;
    f.fn = n == "cvt_v" ? 1 : 2;
    f.c = c;
    f.ctx[0] = f.ctx[1] = f.ctx[2] = 0.5f;
    std::vector<uint32_t> grid;
    for (int k = -gridDen / 64; k <= gridDen + gridDen / 64; ++k) grid.push_back(f2u((float)k / (float)gridDen));
    // the floats around every step of the function between two grid points (bisection over patterns: selects inputs only)
    for (int k = 0; k < gridDen + gridDen / 64; ++k) {
      uint32_t a = f2u((float)k / (float)gridDen), b = f2u((float)(k + 1) / (float)gridDen);
      if (f(u2f(a)) == f(u2f(b))) continue;
      const uint32_t va = f(u2f(a));
      while (b - a > 1) { const uint32_t m = a + (b - a) / 2; if (f(u2f(m)) == va) a = m; else b = m; }
      for (int d = -2; d <= 2; ++d) grid.push_back(a + (uint32_t)d);
    }
    const uint32_t special[] = {0x00000000u, 0x80000000u, 0x00000001u, 0x80000001u, 0x00800000u, 0x80800000u, 0x3f7fffffu, 0x3f800000u, 0x3f800001u,
                                0x40000000u, 0x437f0000u, 0x7f7fffffu, 0xff7fffffu, 0x7f800000u, 0xff800000u, 0xbf800000u, 0x3b808081u, 0x3b000000u};
    for (size_t i = 0; i < sizeof(special) / sizeof(special[0]); ++i) grid.push_back(special[i]);
    for (int i = 0; i < 200; ++i) grid.push_back(f2u(ctxDist(g)));
    std::sort(grid.begin(), grid.end(), patLess);
    grid.erase(std::unique(grid.begin(), grid.end()), grid.end());
    xs[c] = grid;
    Json fam = Json::array();
    for (size_t i = 0; i < grid.size(); ++i) {
      const float x = u2f(grid[i]);
      Json w = Json::array();
      ByteFn h = f;
      w.push(halves(h.word(x)));
      h.ctx[0] = 2.0f; h.ctx[1] = -1.0f; h.ctx[2] = 1.0f;
      if (i % 3 == 1) { h.ctx[0] = 0.f; h.ctx[1] = 1.0f; h.ctx[2] = 0.25f; }
      if (i % 3 == 2) { h.ctx[0] = 1.0f; h.ctx[1] = 0.75f; h.ctx[2] = -0.f; }
      w.push(halves(h.word(x)));
      h.ctx[0] = ctxDist(g); h.ctx[1] = ctxDist(g); h.ctx[2] = ctxDist(g);
      w.push(halves(h.word(x)));
      evals += 3;
      Json fm = Json::object();
      fm.set("x", halves(grid[i])); fm.set("w", w);
      fam.push(fm);
    }
    tabs.push(fam);
  }
  Json vecs = Json::array();
  for (int i = 0; i < nvec; ++i) {
    Json v = Json::array(), ix = Json::array();
    float comp[4];
    for (int c = 0; c < 4; ++c) {
      const size_t k = (size_t)(g() % xs[c].size());
      comp[c] = u2f(xs[c][k]);
      v.push(halves(xs[c][k]));
      ix.push(Json((long long)k + 1));
    }
    const rm::vec4f p(comp[0], comp[1], comp[2], comp[3]);
    const uint32_t w = n == "cvt_v" ? rm::cvt_uint32(p) : rm::linear_to_srgba8(p);
    ++evals;
    Json o = Json::object();
    o.set("v", v); o.set("ix", ix); o.set("w", halves(w));
    vecs.push(o);
  }
  Json o = Json::object();
  o.set("tabs", tabs); o.set("vecs", vecs); o.set("evaluated", Json(evals));
  return o;
}

// ---- random distributions --------------------------------------------------------------------
struct EdgeGen  // a generator that visits the ends of its range: min, max, max-1, min+1, middle, ...
{
  typedef uint32_t result_type;
  unsigned i;
  EdgeGen() : i(0) {}
  static constexpr result_type min() { return 0u; }
  static constexpr result_type max() { return 0xffffffffu; }
  result_type operator()()
  {
    static const uint32_t seq[] = {0u, 0xffffffffu, 0xfffffffeu, 1u, 0x80000000u, 0xffffff7fu, 0xffffff80u, 0x7fffffffu, 0x00ffffffu, 0xff000000u};
    return seq[i++ % 10];
  }
};
template <typename G>
static void drawUrd(G &ga, G &gb, float lo, float hi, int n, Json &a, Json &b)
{
  ru::uniform_real_distribution<float> da(lo, hi), db(lo, hi);
  for (int i = 0; i < n; ++i) { a.push(fh(da(ga))); b.push(fh(db(gb))); }
}
static Json doDist(const Json &arg)
{
  const std::string kind = arg["kind"].str();
  const int seed = (int)arg["seed"].num(), seq = (int)arg["seq"].num(), n = (int)arg["n"].num();
  const float lo = hf(arg["lo"]), hi = hf(arg["hi"]);
  Json a = Json::array(), b = Json::array();
  if (kind == "pcg_biased") {
    ru::pcg32_biased_float_distribution da(seed, seq, lo, hi);
    ru::pcg32_biased_float_distribution db(seed, seq, lo, hi);
    for (int i = 0; i < n; ++i) { a.push(fh(da())); b.push(fh(db())); }
  } else if (kind == "urd_pcg32") {
    pcg32 ga, gb;
    ga.seed(seed, seq); gb.seed(seed, seq);
    drawUrd(ga, gb, lo, hi, n, a, b);
  } else if (kind == "urd_mt19937") {
    std::mt19937 ga((unsigned)seed), gb((unsigned)seed);
    drawUrd(ga, gb, lo, hi, n, a, b);
  } else if (kind == "urd_minstd") {
    std::minstd_rand ga((unsigned)seed + 1u), gb((unsigned)seed + 1u);
    drawUrd(ga, gb, lo, hi, n, a, b);
  } else if (kind == "urd_edge") {
    EdgeGen ga, gb;
    drawUrd(ga, gb, lo, hi, n, a, b);
  } else if (kind == "color") {
    for (int i = 0; i < n; ++i) {
      const unsigned idx = (unsigned)seed + (unsigned)i * (unsigned)(seq ? seq : 1);
      const rm::vec3f ca = ru::makeRandomColor(idx);
      const rm::vec3f cb = ru::makeRandomColor(idx);
      a.push(fh(ca.x)); a.push(fh(ca.y)); a.push(fh(ca.z));
      b.push(fh(cb.x)); b.push(fh(cb.y)); b.push(fh(cb.z));
    }
  } else
    throw std::runtime_error("unknown distribution kind " + kind);
  Json o = Json::object();
  o.set("a", a); o.set("b", b);
  return o;
}

// ---- histories on distribution OBJECTS (ScalarKernelsDistADT) ------------------------------------
// The driver performs the steps of one history on real objects and records, per Draw, the raw outputs of the
// generator handed to the object (a recording adaptor with the generator's own min() / max()), the values the
// (used / copied) object returned, and the values of a FRESH object fed an identically seeded twin generator.
static Json limbsOf(unsigned long long mag)
{
  Json m = Json::array();
  if (mag == 0) m.push(Json(0));
  while (mag) { m.push(Json((long long)(mag & 32767ULL))); mag >>= 15; }
  return m;
}
template <typename G>
struct RecGen
{
  typedef typename G::result_type result_type;
  G g;
  std::vector<unsigned long long> raws;
  static constexpr result_type min() { return G::min(); }
  static constexpr result_type max() { return G::max(); }
  result_type operator()() { const result_type r = g(); raws.push_back((unsigned long long)r); return r; }
};
template <typename G> static void seedGen(G &g, unsigned s) { g.seed(s + 1u); }
template <> void seedGen<pcg32>(pcg32 &g, unsigned s) { g.seed(s, 5u); }
template <> void seedGen<EdgeGen>(EdgeGen &g, unsigned s) { g.i = s % 10u; }
static Json pat(float v) { return fh(v); }
static Json pat(double v) { return dq(v); }
static float unpat(const Json &j, float) { return hf(j); }
static double unpat(const Json &j, double) { return qd(j); }

template <typename T, typename G>
static void drawTwin(ru::uniform_real_distribution<T> &used, T lo, T hi, unsigned seed, int n, Json &o)
{
  RecGen<G> ga, gb;
  seedGen(ga.g, seed); seedGen(gb.g, seed);
  ru::uniform_real_distribution<T> fresh(lo, hi);
  Json v = Json::array(), fv = Json::array(), raws = Json::array(), fraws = Json::array();
  for (int i = 0; i < n; ++i) v.push(pat(used(ga)));
  for (int i = 0; i < n; ++i) fv.push(pat(fresh(gb)));
  for (size_t i = 0; i < ga.raws.size(); ++i) raws.push(limbsOf(ga.raws[i]));
  for (size_t i = 0; i < gb.raws.size(); ++i) fraws.push(limbsOf(gb.raws[i]));
  o.set("v", v); o.set("fv", fv); o.set("raws", raws); o.set("fraws", fraws);
  o.set("gmin", limbsOf((unsigned long long)G::min())); o.set("gmax", limbsOf((unsigned long long)G::max()));
}
template <typename T>
static Json histUrd(const Json &arg)
{
  const T lo = unpat(arg["lo"], T()), hi = unpat(arg["hi"], T());
  const unsigned seed = (unsigned)arg["seed"].num();
  std::vector<ru::uniform_real_distribution<T>> objs;
  objs.reserve(64);      // objects are constructed in place and never moved: only the Copy action copies
  objs.emplace_back(lo, hi);
  Json out = Json::array();
  const Json &steps = arg["steps"];
  for (size_t k = 0; k < steps.size(); ++k) {
    const std::string a = steps[k]["a"].str();
    const Json &sa = steps[k]["arg"];
    Json o = Json::object();
    o.set("a", Json(a));
    if (objs.size() >= 64) throw std::runtime_error("more than 64 objects in one history");
    if (a == "New") objs.emplace_back(lo, hi);
    else if (a == "Copy") objs.emplace_back(objs.at((size_t)sa["src"].num() - 1));      // the copy constructor
    else if (a == "Draw") {
      ru::uniform_real_distribution<T> &used = objs.at((size_t)sa["obj"].num() - 1);
      const std::string g = sa["gen"].str();
      const int n = (int)sa["n"].num();
      const unsigned s = seed + 7919u * (unsigned)(k + 1);
      if (g == "pcg32") drawTwin<T, pcg32>(used, lo, hi, s, n, o);
      else if (g == "mt19937") drawTwin<T, std::mt19937>(used, lo, hi, s, n, o);
      else if (g == "mt19937_64") drawTwin<T, std::mt19937_64>(used, lo, hi, s, n, o);
      else if (g == "minstd_rand") drawTwin<T, std::minstd_rand>(used, lo, hi, s, n, o);
      else if (g == "ranlux24") drawTwin<T, std::ranlux24>(used, lo, hi, s, n, o);
      else if (g == "edge32") drawTwin<T, EdgeGen>(used, lo, hi, s, n, o);
      else throw std::runtime_error("unknown generator type " + g);
    } else
      throw std::runtime_error("unknown history action " + a);
    out.push(o);
  }
  return out;
}
static Json histBiased(const Json &arg)
{
  const float lo = hf(arg["lo"]), hi = hf(arg["hi"]);
  const int seed = (int)arg["seed"].num(), seq = (int)arg["seq"].num();
  std::vector<ru::pcg32_biased_float_distribution> objs;
  objs.reserve(64);      // constructed in place, never moved: only the Copy action copies
  objs.emplace_back(seed, seq, lo, hi);
  Json out = Json::array();
  const Json &steps = arg["steps"];
  for (size_t k = 0; k < steps.size(); ++k) {
    const std::string a = steps[k]["a"].str();
    const Json &sa = steps[k]["arg"];
    Json o = Json::object();
    o.set("a", Json(a));
    if (objs.size() >= 64) throw std::runtime_error("more than 64 objects in one history");
    if (a == "New") objs.emplace_back(seed, seq, lo, hi);
    else if (a == "Copy") objs.emplace_back(objs.at((size_t)sa["src"].num() - 1));      // the copy constructor
    else if (a == "Draw") {
      ru::pcg32_biased_float_distribution &used = objs.at((size_t)sa["obj"].num() - 1);
      const int n = (int)sa["n"].num(), skip = (int)sa["skip"].num();
      // the fresh object and the two shadow generators start from the constructor arguments and advance to the position the specification computed
      ru::pcg32_biased_float_distribution fresh(seed, seq, lo, hi);
      pcg32 ga, gb;
      ga.seed(seed, seq); gb.seed(seed, seq);
      for (int i = 0; i < skip; ++i) { (void)fresh(); (void)ga(); (void)gb(); }
      Json v = Json::array(), fv = Json::array(), raws = Json::array(), fraws = Json::array();
      for (int i = 0; i < n; ++i) v.push(fh(used()));
      for (int i = 0; i < n; ++i) { fv.push(fh(fresh())); raws.push(limbsOf(ga())); fraws.push(limbsOf(gb())); }
      o.set("v", v); o.set("fv", fv); o.set("raws", raws); o.set("fraws", fraws);
      o.set("gmin", limbsOf(pcg32::min())); o.set("gmax", limbsOf(pcg32::max()));
    } else
      throw std::runtime_error("unknown history action " + a);
    out.push(o);
  }
  return out;
}
static Json histColor(const Json &arg)
{
  const unsigned base = (unsigned)arg["seed"].num();
  Json out = Json::array();
  const Json &steps = arg["steps"];
  for (size_t k = 0; k < steps.size(); ++k) {
    const Json &sa = steps[k]["arg"];
    const std::string order = sa["order"].str();
    const unsigned n = (unsigned)sa["n"].num();
    Json o = Json::object(), idx = Json::array(), v = Json::array();
    o.set("a", Json(steps[k]["a"].str()));
    for (unsigned i = 0; i < n; ++i) {
      const unsigned j = order == "up" ? i : order == "down" ? n - 1 - i : order == "stride7" ? (i * 7u) % n : i % 3u;
      const rm::vec3f c = ru::makeRandomColor(base + j);
      Json t = Json::array();
      t.push(fh(c.x)); t.push(fh(c.y)); t.push(fh(c.z));
      idx.push(halves(base + j)); v.push(t);
    }
    o.set("idx", idx); o.set("v", v);
    out.push(o);
  }
  return out;
}
static Json doDistHist(const Json &arg)
{
  const std::string kind = arg["kind"].str();
  Json o = Json::object();
  if (kind == "urd_f") o.set("steps", histUrd<float>(arg));
  else if (kind == "urd_d") o.set("steps", histUrd<double>(arg));
  else if (kind == "biased") o.set("steps", histBiased(arg));
  else if (kind == "color") o.set("steps", histColor(arg));
  else throw std::runtime_error("unknown distribution object kind " + kind);
  return o;
}

// ---- single evaluations ---------------------------------------------------------------------
template <typename T>
static Json druT(const Json &arg)
{
  const T a = zTo<T>(arg["a"]), b = zTo<T>(arg["b"]);
  Json o = Json::object();
  o.set("q", zOfT<T>(rm::divRoundUp<T>(a, b)));
  return o;
}
template <typename T>
static Json latDruT(const Json &arg)
{
  const T a = (T)arg["a"].num(), b = (T)arg["b"].num();
  const T q = rm::divRoundUp<T>(a, b);
  Json o = Json::object();
  // as a JSON integer when it fits 63 bits, else as limbs
  if (std::numeric_limits<T>::is_signed || (unsigned long long)q < (1ULL << 62)) o.set("q", Json((long long)q));
  else o.set("q", zOfT<T>(q));
  return o;
}
template <typename T>
static Json clampIT(const Json &arg)
{
  const T x = zTo<T>(arg["x"]), lo = zTo<T>(arg["lo"]), hi = zTo<T>(arg["hi"]);
  Json o = Json::object();
  o.set("r", zOfT<T>(rm::clamp<T>(x, lo, hi)));
  return o;
}
template <typename T>
static Json lerpIT(const Json &arg)
{
  const T a = zTo<T>(arg["a"]), b = zTo<T>(arg["b"]);
  Json o = Json::object();
  o.set("r", zOfT<T>(rm::lerp<T>(hf(arg["f"]), a, b)));
  return o;
}
template <typename T>
static Json latLerpIT(const Json &arg)
{
  const T r = rm::lerp<T>((float)arg["f"].num() / 8.f, (T)arg["a"].num(), (T)arg["b"].num());
  Json o = Json::object();
  o.set("v", Json((long long)r));
  return o;
}
#define BY_INT_TYPE(FN, ty, arg)                                   \
  (ty == "i8"    ? FN<int8_t>(arg)                                 \
   : ty == "u8"  ? FN<uint8_t>(arg)                                \
   : ty == "i16" ? FN<int16_t>(arg)                                \
   : ty == "u16" ? FN<uint16_t>(arg)                               \
   : ty == "i32" ? FN<int32_t>(arg)                                \
   : ty == "u32" ? FN<uint32_t>(arg)                               \
   : ty == "i64" ? FN<int64_t>(arg)                                \
                 : FN<uint64_t>(arg))

static Json scaled(double r, double scale)
{
  const double s = r * scale;
  Json o = Json::object();
  const bool exact = s == std::floor(s) && std::fabs(s) < 9.0e15;
  o.set("v", exact ? Json((long long)s) : Json(s));
  o.set("exact", Json(exact));
  return o;
}

// ---- the vec_t liftings of the kernels: every lane is reported --------------------------------
// op: rcp | rcp_safe | madd | lerp | normalize; shape: "2", "3", "3a" (padded), "4"; v (, b, c): lanes as halves; f: factor
template <typename V>
static Json lanesOf(const V &v, int n)
{
  Json a = Json::array();
  for (int i = 0; i < n; ++i) a.push(fh(v[i]));
  return a;
}
template <typename V>
static V vecFrom(const Json &j, int n)
{
  V v;
  for (int i = 0; i < n; ++i) v[i] = hf(j[(size_t)i]);
  return v;
}
template <typename V>
static Json vecOp(const std::string &op, const Json &arg, int n)
{
  const V v = vecFrom<V>(arg["v"], n);
  if (op == "rcp") return lanesOf(rm::rcp(v), n);
  if (op == "rcp_safe") return lanesOf(rm::rcp_safe(v), n);
  if (op == "lerp") return lanesOf(rm::lerp<V>(hf(arg["f"]), v, vecFrom<V>(arg["b"], n)), n);
  throw std::runtime_error("unknown lane operation " + op);
}
static Json doVecLanes(const Json &arg)
{
  const std::string op = arg["op"].str(), sh = arg["shape"].str();
  Json o = Json::object();
  if (op == "madd") {  // vec.h offers madd for 3-vectors only
    if (sh == "3a")
      o.set("r", lanesOf(rm::madd(vecFrom<rm::vec3fa>(arg["v"], 3), vecFrom<rm::vec3fa>(arg["b"], 3), vecFrom<rm::vec3fa>(arg["c"], 3)), 3));
    else
      o.set("r", lanesOf(rm::madd(vecFrom<rm::vec3f>(arg["v"], 3), vecFrom<rm::vec3f>(arg["b"], 3), vecFrom<rm::vec3f>(arg["c"], 3)), 3));
    return o;
  }
  if (sh == "2") o.set("r", vecOp<rm::vec2f>(op, arg, 2));
  else if (sh == "3") o.set("r", vecOp<rm::vec3f>(op, arg, 3));
  else if (sh == "3a") o.set("r", vecOp<rm::vec3fa>(op, arg, 3));
  else o.set("r", vecOp<rm::vec4f>(op, arg, 4));
  return o;
}

struct World
{
  World(const Json &) {}
  Json step(const Json &st)
  {
    const std::string a = st["a"].str();
    const Json &arg = st["arg"];
    if (a == "Sweep") return doSweep(arg);
    if (a == "Runs") return doRuns(arg);
    if (a == "Pack") return doPack(arg);
    if (a == "Dist") return doDist(arg);
    if (a == "DistHist") return doDistHist(arg);
    if (a == "LatSign") return scaled(rm::sign((float)arg["x"].num() / 8.f), 1.0);
    if (a == "LatMadd")
      return scaled(rm::madd((float)arg["a"].num() / 8.f, (float)arg["b"].num() / 8.f, (float)arg["c"].num() / 8.f), 64.0);
    if (a == "LatLerp") {
      const float f = (float)arg["f"].num() / 8.f;
      if (arg["ty"].str() == "d") return scaled(rm::lerp<double>(f, (double)arg["a"].num() / 8.0, (double)arg["b"].num() / 8.0), 64.0);
      return scaled(rm::lerp<float>(f, (float)arg["a"].num() / 8.f, (float)arg["b"].num() / 8.f), 64.0);
    }
    if (a == "LatDru") { const std::string ty = arg["ty"].str(); return BY_INT_TYPE(latDruT, ty, arg); }
    if (a == "Dru") { const std::string ty = arg["ty"].str(); return BY_INT_TYPE(druT, ty, arg); }
    if (a == "ClampI") { const std::string ty = arg["ty"].str(); return BY_INT_TYPE(clampIT, ty, arg); }
    if (a == "LerpI") { const std::string ty = arg["ty"].str(); return BY_INT_TYPE(lerpIT, ty, arg); }
    if (a == "LatLerpI") { const std::string ty = arg["ty"].str(); return BY_INT_TYPE(latLerpIT, ty, arg); }
    if (a == "VecLanes") return doVecLanes(arg);
    Json o = Json::object();
    if (a == "ClampF") {
      const float x = hf(arg["x"]), lo = hf(arg["lo"]), hi = hf(arg["hi"]);
      if (arg["ty"].str() == "d") {
        const double r = rm::clamp<double>((double)x, (double)lo, (double)hi);
        o.set("r", fh((float)r));
        o.set("narrowing_exact", Json((double)(float)r == r || r != r));
      } else
        o.set("r", fh(rm::clamp<float>(x, lo, hi)));
      return o;
    }
    if (a == "RcpSafeD") { o.set("r", dq(rm::rcp_safe(qd(arg["x"])))); return o; }
    if (a == "ClampD") { o.set("r", dq(rm::clamp<double>(qd(arg["x"]), qd(arg["lo"]), qd(arg["hi"])))); return o; }
    if (a == "Deg2RadD") { o.set("r", dq(rm::deg2rad<double>(qd(arg["x"])))); return o; }
    if (a == "LerpD") { o.set("r", dq(rm::lerp<double>(hf(arg["f"]), qd(arg["a"]), qd(arg["b"])))); return o; }
    if (a == "Madd") { o.set("r", fh(rm::madd(hf(arg["a"]), hf(arg["b"]), hf(arg["c"])))); return o; }
    if (a == "Lerp") { o.set("r", fh(rm::lerp<float>(hf(arg["f"]), hf(arg["a"]), hf(arg["b"])))); return o; }
    if (a == "Sign") { o.set("r", fh(rm::sign(hf(arg["x"])))); return o; }
    if (a == "Deg2Rad") { o.set("r", fh(rm::deg2rad<float>(hf(arg["x"])))); return o; }
    if (a == "Rcp") { o.set("r", fh(rm::rcp(hf(arg["x"])))); return o; }
    if (a == "Rsqrt") { o.set("r", fh(rm::rsqrt(hf(arg["x"])))); return o; }
    if (a == "RcpSafe") { o.set("r", fh(rm::rcp_safe(hf(arg["x"])))); return o; }
    throw std::runtime_error("unknown action " + a);
  }
};

int main(int argc, char **argv)
{
  return vdrv::run<World>(argc, argv);
}
